#!/bin/sh
# setup_cmd: offline; installs the contract library beside the framework and builds the
# ebuild daemon's generated function lists from /repo's current sources.
cd "$(dirname "$0")" || exit 1
export PIP_NO_INDEX=1
if [ ! -d .deps/icontract ]; then
  /venv/bin/python -m pip install -q --no-index --find-links /opt/veriftools/wheels --target .deps icontract deal jsonschema || echo "warning: contract libs not installed" >&2
fi
/venv/bin/python -c "import sys; sys.path.insert(0,'.'); from vt import ebdbuild; ebdbuild.ensure_generated(force=True)" || exit 1
echo setup ok
