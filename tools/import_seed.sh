#!/bin/bash
# usage: tools/import_seed.sh C44  (edit ROUND/SUFFIX below): copies <worktree>/seed_out/<id> to seeded/<id><suffix>, tries it, writes trial.txt
id=$1; src=/tmp/seed/R9_$id/seed_out/$id; dst=/verif/seeded/${id}j
[ -f $src/patch.diff ] || { echo "no deliverable for $id"; exit 1; }
mkdir -p $dst; cp $src/patch.diff $src/demo.py $src/meta.json $dst/
cd /verif; tools/try_seed.sh $dst $id $id 2>&1 | tail -8 | tee $dst/trial.txt
