#!/venv/bin/python
"""Rebuild section 7 of DESIGN.md from tools/design_sec7_{head,tail}.md and the generated tables."""
import os, subprocess
ROOT = os.path.dirname(os.path.dirname(os.path.abspath(__file__)))
p = os.path.join(ROOT, "DESIGN.md")
s = open(p).read()
a = s.index("## 7. ")
b = s.index("## Appendix A.")
gen = subprocess.run([os.path.join(ROOT, "tools", "gen_design_tables.py")], capture_output=True, text=True).stdout
findings, seeded = gen.split("SEEDED\n")
head = open(os.path.join(ROOT, "tools", "design_sec7_head.md")).read()
tail = open(os.path.join(ROOT, "tools", "design_sec7_tail.md")).read()
sec7 = head + findings.rstrip() + "\n" + tail + seeded.rstrip() + "\n\n---------------------------------------------------------------------------------------\n\n"
open(p, "w").write(s[:a] + sec7 + s[b:])
print("DESIGN.md section 7 rebuilt: %d findings rows, %d seeded rows" % (findings.count("\n| C"), seeded.count("\n| C")))
