#!/venv/bin/python
import json, os, sys
ROOT = os.path.dirname(os.path.dirname(os.path.abspath(__file__)))
sys.path.append(os.path.join(ROOT, ".deps"))
import jsonschema
schema = json.load(open("/root/.vp/EVIDENCE.schema.json"))
bad = 0
for fn in sorted(os.listdir(os.path.join(ROOT, "evidence"))):
    if fn.endswith(".json"):
        try:
            jsonschema.validate(json.load(open(os.path.join(ROOT, "evidence", fn))), schema)
        except Exception as e:
            bad += 1
            print("INVALID", fn, str(e)[:300])
print("evidence files invalid:", bad)
sys.exit(1 if bad else 0)
