#!/venv/bin/python
"""Emit the generated parts of DESIGN.md section 7 (findings table, seeded-change table) to stdout."""
import json, os, glob
ROOT = os.path.dirname(os.path.dirname(os.path.abspath(__file__)))
d = json.load(open(os.path.join(ROOT, "known_findings.json")))
F = sorted(d["findings"], key=lambda f: (f["property"], f["status"] != "fixed", f["key"]))
print("| Prop | Mechanism key | Status | What failed |")
print("|---|---|---|---|")
for f in F:
    what = f["what"]
    if what.startswith("fixed: property="):
        what = what.split(" ", 3)[3] if len(what.split(" ", 3)) > 3 else what
    what = what.replace("|", "\\|").replace("\n", " ")
    if len(what) > 230:
        what = what[:227] + "..."
    st = ("fixed `%s`" % f["commit"]) if f["status"] == "fixed" else "**known**"
    print("| %s | `%s` | %s | %s |" % (f["property"], f["key"].split(":", 1)[-1] if f["key"].startswith(f["property"] + ":") else f["key"], st, what))
print()
print("SEEDED")
print("| Prop | Seeded change (files) | Needs to manifest | Demo clean/changed | Check on changed tree |")
print("|---|---|---|---|---|")
for sd in sorted(glob.glob(os.path.join(ROOT, "seeded", "C*"))):
    pid = os.path.basename(sd)
    try:
        m = json.load(open(os.path.join(sd, "meta.json")))
    except Exception:
        m = {}
    trial = open(os.path.join(sd, "trial.txt")).read() if os.path.exists(os.path.join(sd, "trial.txt")) else ""
    res = [l for l in trial.splitlines() if l.startswith("SEED-RESULT")]
    caught = [l for l in res if "check_exit=1" in l]
    last = caught[0] if caught else (res[-1] if res else "")
    kv = dict(x.split("=", 1) for x in last.split()[2:] if x.count("=") == 1 and x.split("=")[0] in ("check", "demo_clean", "demo_patched", "check_exit")) if last else {}
    files = ", ".join(os.path.basename(x) for x in m.get("files_touched", []))
    needs = str(m.get("needs_to_manifest", "")).replace("|", "\\|").replace("\n", " ")
    if len(needs) > 200:
        needs = needs[:197] + "..."
    summ = str(m.get("summary", "")).replace("|", "\\|").replace("\n", " ")
    if len(summ) > 160:
        summ = summ[:157] + "..."
    verdict = {"1": "VIOLATION (caught)", "0": "held (MISSED)", "2": "inconclusive"}.get(kv.get("check_exit", ""), "?")
    chk = last.split()[2].split("=")[1] if last else "?"
    print("| %s | %s (%s) | %s | %s / %s | `./check %s`: %s |" % (pid, summ, files, needs, kv.get("demo_clean", "?"), kv.get("demo_patched", "?"), chk, verdict))
