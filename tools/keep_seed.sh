#!/bin/bash
# usage: tools/keep_seed.sh <seed_out/<id> dir> <id> <check ids...> : try the seed and, when the demonstration behaves, store it under seeded/<id>/
SRC=$1; ID=$2; shift 2
OUT=$(tools/try_seed.sh "$SRC" "$ID" "$@" 2>&1)
echo "$OUT" | grep -E "^(demo:|check |SEED-RESULT|VIOLATION|RESULT)" | cut -c1-260
mkdir -p seeded/$ID
cp "$SRC/patch.diff" "$SRC/meta.json" seeded/$ID/ 2>/dev/null
cp "$SRC"/demo* seeded/$ID/ 2>/dev/null
echo "$OUT" | grep -E "^(demo:|SEED-RESULT)" > seeded/$ID/trial.txt
echo "$OUT" | grep -E "^(VIOLATION|  detail)" | cut -c1-400 | head -6 >> seeded/$ID/trial.txt
