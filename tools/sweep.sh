#!/bin/bash
# usage: tools/sweep.sh <tier> <seed> [ids...]   -- runs the checks one after another, one summary line each
cd "$(dirname "$0")/.." || exit 2
TIER=$1; SEED=$2; shift 2
IDS="$@"; [ -z "$IDS" ] && IDS=$(seq -f "C%02g" 1 49)
mkdir -p sweep_logs
for P in $IDS; do
  START=$(date +%s)
  VERIF_SEED=$SEED timeout -s KILL 4000 ./check $P --tier $TIER > sweep_logs/$TIER.$SEED.$P.out 2>&1
  RC=$?
  END=$(date +%s)
  echo "$P tier=$TIER seed=$SEED rc=$RC wall=$((END-START)) known=$(grep -c '^KNOWN-FINDING' sweep_logs/$TIER.$SEED.$P.out) | $(grep -E '^(RESULT|VIOLATION|INCONCLUSIVE)' sweep_logs/$TIER.$SEED.$P.out | cut -c1-160 | tr '\n' ' ')"
done
echo SWEEP-DONE
