#!/venv/bin/python
"""Regenerate MANIFEST.json from the property modules present in vt/props."""
import importlib
import json
import os
import subprocess
import sys

ROOT = os.path.dirname(os.path.dirname(os.path.abspath(__file__)))
sys.path.insert(0, ROOT)
os.chdir(ROOT)
sys.path.append(os.path.join(ROOT, ".deps"))

props = [json.loads(l) for l in open("properties.jsonl")]
NA = {}
if os.path.exists("not_applicable.json"):
    NA = json.load(open("not_applicable.json"))

CLAIMED = set(json.load(open("claimed.json")))
hook_commits = []
try:
    out = subprocess.run(["git", "-C", "/repo", "log", "--format=%H %s"], capture_output=True, text=True).stdout
    for line in out.splitlines():
        h, _, subj = line.partition(" ")
        if subj.startswith("verif-hook:"):
            hook_commits.append(h)
except Exception:
    pass

checks = []
na = []
for p in props:
    pid = p["id"]
    path = os.path.join("vt", "props", pid + ".py")
    if pid in NA or not os.path.exists(path) or pid not in CLAIMED:
        na.append({"property_id": pid, "reason": NA.get(pid, "check not built yet in this framework (no claim made)")})
        continue
    mod = importlib.import_module("vt.props." + pid)
    if getattr(mod, "DISABLED", None):
        na.append({"property_id": pid, "reason": mod.DISABLED})
        continue
    checks.append({
        "property_id": pid,
        "quick_cmd": "./check %s --tier quick" % pid,
        "thorough_cmd": "./check %s --tier thorough" % pid,
        "evidence_file": "evidence/%s.json" % pid,
        "replay_cmd_template": "./check %s --replay {path}" % pid,
        "engine": getattr(mod, "ENGINE", "vt"),
        "level_claimed": {
            "category": mod.LEVEL,
            "text": getattr(mod, "CLAIM", "Runtime monitoring: the real pkgcore code is executed on generated workloads while an "
                            "independent oracle judges every execution; the property held on the executions observed "
                            "(counts in the evidence file), nothing is claimed beyond them. " + mod.RULE),
            "design_ref": "DESIGN.md section 4, " + pid,
        },
        "level_note": "; ".join(mod.ASSUMPTIONS),
        "technique": getattr(mod, "TECHNIQUE", "runtime monitoring: generated workload + reference-model/law oracle on the real code"),
    })

manifest = {
    "version": 1,
    "setup_cmd": "./setup.sh",
    "hooks": {
        "guard": "PKGCORE_VERIF",
        "enable": "checks export PKGCORE_VERIF=1 (plus PKGCORE_VERIF_TRACE=<file> for daemon traces) in the worker "
                  "environment; pkgcore is imported from /repo/src (editable install), so hooks are live without a build step",
        "baseline_off_cmd": "cd /repo && env -u PKGCORE_VERIF -u PKGCORE_VERIF_TRACE /venv/bin/python -m pytest -ra -q "
                            "-p no:cacheprovider --timeout=900 --continue-on-collection-errors",
        "source_commits": hook_commits,
        "add_only": True,
    },
    "engines": [
        {"name": "vt", "path": "vt/", "serves_properties": [c["property_id"] for c in checks],
         "kind_free_text": "python runtime-monitoring harness: seeded generators, reference models, contracts wrapped around the "
                           "real pkgcore callables, filesystem snapshot differ, fork+interposition crash/EIO injector, "
                           "ebuild-daemon trace automaton; sharded workers under a watchdog"},
    ],
    "checks": checks,
    "not_applicable": na,
    "notes": "Verdicts: exit 0 held on what was observed (KNOWN-FINDING lines for findings listed in known_findings.json), "
             "exit 1 VIOLATION, exit 2 INCONCLUSIVE (monitor not reached / watchdog). Family: runtime monitoring only.",
}
with open("MANIFEST.json", "w") as f:
    json.dump(manifest, f, indent=1)
    f.write("\n")
try:
    import jsonschema
    jsonschema.validate(manifest, json.load(open("/root/.vp/MANIFEST.schema.json")))
    print("MANIFEST valid: %d checks, %d not_applicable" % (len(checks), len(na)))
except ImportError:
    print("MANIFEST written (jsonschema not importable here): %d checks" % len(checks))
