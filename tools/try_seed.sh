#!/bin/bash
# usage: tools/try_seed.sh <seed dir containing patch.diff + demo.py> <property id> [more check ids...]
# Applies the seeded change to a scratch worktree of /repo (never to /repo itself), confirms the
# demonstration passes on /repo and fails on the changed tree, then runs the quick check(s) against
# the changed tree via VT_PKGCORE_ROOT and reports whether they raise VIOLATION.
set -u
SEED=$(readlink -f "$1"); shift
PROP=$1; shift
WT=/var/tmp/seedtry-$$
cd /verif || exit 2
git -C /repo worktree add -q --detach "$WT" HEAD || exit 2
cp -a /repo/data/lib/pkgcore/ebd/.generated "$WT/data/lib/pkgcore/ebd/.generated"
cleanup() { git -C /repo worktree remove --force "$WT" 2>/dev/null; rm -rf "$WT"; }
trap cleanup EXIT
if ! git -C "$WT" apply "$SEED/patch.diff"; then echo "SEED-RESULT $PROP patch-does-not-apply"; exit 3; fi
if grep -q "data/lib/pkgcore/ebd" "$SEED/patch.diff"; then
  make -s -C "$WT/data/lib/pkgcore/ebd" clean all PYTHON=/venv/bin/python PYTHONPATH="$WT/src" >/dev/null 2>&1
fi
( cd /tmp && PYTHONDONTWRITEBYTECODE=1 PYTHONPATH=/repo/src timeout -s KILL 300 /venv/bin/python "$SEED/demo.py" >/var/tmp/seedtry-$$.clean.log 2>&1 ); CLEAN=$?
( cd /tmp && PYTHONDONTWRITEBYTECODE=1 PYTHONPATH="$WT/src" timeout -s KILL 300 /venv/bin/python "$SEED/demo.py" >/var/tmp/seedtry-$$.patched.log 2>&1 ); PATCHED=$?
echo "demo: clean exit=$CLEAN patched exit=$PATCHED"
[ $CLEAN -ne 0 ] && tail -5 /var/tmp/seedtry-$$.clean.log
tail -3 /var/tmp/seedtry-$$.patched.log
rm -f /var/tmp/seedtry-$$.*.log
for P in "$@"; do
  VT_PKGCORE_ROOT="$WT" timeout -s KILL 1500 ./check "$P" --no-evidence > /var/tmp/seedtry-$$.$P.out 2>&1
  RC=$?
  echo "check $P exit=$RC"
  grep -E "^(VIOLATION|  detail|INCONCLUSIVE|RESULT)" /var/tmp/seedtry-$$.$P.out | cut -c1-400 | head -8
  rm -f /var/tmp/seedtry-$$.$P.out
  echo "SEED-RESULT $PROP check=$P demo_clean=$CLEAN demo_patched=$PATCHED check_exit=$RC"
done
