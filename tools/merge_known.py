#!/venv/bin/python
"""merge known/<ID>.json into known_findings.json.  usage: merge_known.py ID [key=fixed:<commit> | key=drop] ..."""
import json, os, sys
ROOT = os.path.dirname(os.path.dirname(os.path.abspath(__file__)))
pid = sys.argv[1]
acts = dict(a.split("=", 1) for a in sys.argv[2:])
main = json.load(open(os.path.join(ROOT, "known_findings.json")))
frag_path = os.path.join(ROOT, "known", pid + ".json")
frag = json.load(open(frag_path))
for k in frag["findings"]:
    act = acts.get(k["key"], "known")
    if act == "drop":
        continue
    if act.startswith("fixed:"):
        commit = act.split(":", 1)[1]
        k["status"] = "fixed"
        k["commit"] = commit
        k["what"] = "fixed: property=%s %s %s" % (pid, commit, k["what"])
    main["findings"] = [m for m in main["findings"] if not (m["property"] == k["property"] and m["key"] == k["key"])]
    main["findings"].append(k)
main["findings"].sort(key=lambda m: (m["property"], m["key"]))
_tmp = os.path.join(ROOT, "known_findings.json.tmp")
json.dump(main, open(_tmp, "w"), indent=1, ensure_ascii=False)
os.replace(_tmp, os.path.join(ROOT, "known_findings.json"))
os.unlink(frag_path)
print("merged", pid, [(k["key"], acts.get(k["key"], "known")) for k in frag["findings"]])
