"""Keep /repo/data/lib/pkgcore/ebd/.generated (git-ignored build output) in step with the sources."""

import fcntl
import os
import subprocess

REPO = os.environ.get("VT_PKGCORE_ROOT") or "/repo"
EBD = os.path.join(REPO, "data/lib/pkgcore/ebd")
GEN = os.path.join(EBD, ".generated")


def _newest_source():
    newest = 0.0
    for base in (EBD, ):
        for dp, dns, fns in os.walk(base):
            if ".generated" in dp:
                continue
            dns[:] = [d for d in dns if d != ".generated"]
            for fn in fns:
                try:
                    newest = max(newest, os.lstat(os.path.join(dp, fn)).st_mtime)
                except OSError:
                    pass
    for extra in (REPO + "/src/pkgcore/ebuild/eapi.py", REPO + "/src/pkgcore/ebuild/const.py"):
        try:
            newest = max(newest, os.lstat(extra).st_mtime)
        except OSError:
            pass
    return newest


def _oldest_generated():
    oldest = None
    for dp, dns, fns in os.walk(GEN):
        for fn in fns:
            m = os.lstat(os.path.join(dp, fn)).st_mtime
            oldest = m if oldest is None else min(oldest, m)
    return oldest


def ensure_generated(force=False):
    lock = "/var/tmp/vt-ebd-generated%s.lock" % ("" if REPO == "/repo" else "-" + str(abs(hash(REPO)) % 100000))
    with open(lock, "w") as lf:
        fcntl.flock(lf, fcntl.LOCK_EX)
        old = _oldest_generated() if os.path.isdir(GEN) else None
        if not force and old is not None and old >= _newest_source():
            return False
        env = dict(os.environ, PYTHONDONTWRITEBYTECODE="1")
        env.pop("PYTHONPATH", None)
        if REPO != "/repo":
            env["PYTHONPATH"] = REPO + "/src"
        subprocess.run(["make", "-s", "-C", EBD, "clean"], check=True, env=env, stderr=subprocess.DEVNULL,
                       stdout=subprocess.DEVNULL)
        subprocess.run(["make", "-s", "-j8", "-C", EBD, "all", "PYTHON=/venv/bin/python"] + (["PYTHONPATH=" + REPO + "/src"] if REPO != "/repo" else []), check=True, env=env,
                       stdout=subprocess.DEVNULL, stderr=subprocess.DEVNULL)
        return True
