"""Fake-channel harness for the IPC helper properties (C32, C33).

The harness plays the *daemon side* of the helper protocol (what `__ebd_ipc_cmd` in ebuild-daemon-lib.bash and the
helper scripts under data/lib/pkgcore/ebd/helpers do): it renders the option string the helper script would
build from the bash-side state (into/insinto/exeinto/docinto/*opts), writes the request frame

    <command>\\n<nonfatal>\\n<cwd>\\n<phase>\\n<option string>\\n<NUL-joined args>\\n

and reads the reply.  The python side is the real code: `pkgcore.ebuild.ebd.run_generic_phase` ->
`EbuildProcessor.generic_handler` (the real dispatch loop, bound to the fake processor) ->
`ebd_ipc.<Helper>.__call__`.  Only the processor object (read/write/lock/shutdown) and the `op` are stubs.
No bash daemon is started.
"""

import collections
import errno
import os
import shutil
import traceback

from .. import fssnap

HELPER_CLASSES = {
    "doins": "Doins", "dodoc": "Dodoc", "dohtml": "Dohtml", "doinfo": "Doinfo", "dodir": "Dodir", "doexe": "Doexe",
    "dobin": "Dobin", "dosbin": "Dosbin", "dolib": "Dolib", "dolib.so": "Dolib_so", "dolib.a": "Dolib_a",
    "doman": "Doman", "domo": "Domo", "dosym": "Dosym", "dohard": "Dohard", "keepdir": "Keepdir",
    "has_version": "Has_Version", "best_version": "Best_Version", "unpack": "Unpack", "eapply": "Eapply",
    "eapply_user": "Eapply_User", "docompress": "Docompress", "dostrip": "Dostrip", "filter_env": "FilterEnv",
}

# IPC commands that only read the work tree and write to the image
INSTALL_IPC_COMMANDS = frozenset(["doins", "dodoc", "dohtml", "doinfo", "dodir", "doexe", "dobin", "dosbin", "dolib", "dolib.so",
                                  "dolib.a", "doman", "domo", "dosym", "dohard", "keepdir"])

DEFAULT_SCOPE = {"desttree": "/usr", "insdesttree": "", "exedesttree": "", "docdesttree": "", "insopts": "-m0644",
                 "diropts": "-m0755", "exeopts": "-m0755", "libopts": "-m0644", "libdir": "lib"}

PKG_ID = {"category": "app-misc", "PN": "vtpkg", "PF": "vtpkg-1.2-r3", "slot": "2"}


# ---------------------------------------------------------------------------------------------------------
# daemon side: what the helper scripts send

def render(req):
    """-> (ipc command, option string) exactly as the helper scripts in helpers/*/src_install build them."""
    h = req["helper"]
    e = int(req["eapi"])
    sc = dict(DEFAULT_SCOPE)
    sc.update(req.get("scope") or {})
    pf = PKG_ID["PF"]
    if "raw_options" in req:
        return req.get("ipc", h), req["raw_options"]
    if h in ("doins", "doconfd", "doenvd", "doheader"):
        dest = {"doins": sc["insdesttree"], "doconfd": "/etc/conf.d", "doenvd": "/etc/env.d",
                "doheader": "/usr/include"}[h]
        insopts = "-m0644" if (h != "doins" and e >= 8) else sc["insopts"]
        return "doins", '--dest="%s" --insoptions="%s" --diroptions="%s"' % (dest, insopts, sc["diropts"])
    if h in ("doexe", "doinitd"):
        dest = sc["exedesttree"] if h == "doexe" else "/etc/init.d"
        exeopts = "-m0755" if (h == "doinitd" and e >= 8) else sc["exeopts"]
        return "doexe", '--dest="%s" --insoptions="%s"' % (dest, exeopts)
    if h == "dobin":
        return h, '--dest="%s/bin"' % sc["desttree"]
    if h == "dosbin":
        return h, '--dest="%s/sbin"' % sc["desttree"]
    if h in ("dolib", "dolib.so", "dolib.a"):
        lo = {"dolib": sc["libopts"], "dolib.so": "-m0755", "dolib.a": "-m0644"}[h]
        return h, '--dest="%s/%s" --insoptions="%s"' % (sc["desttree"], sc["libdir"], lo)
    if h == "dodoc":
        return h, '--dest="/usr/share/doc/%s/%s"' % (pf, sc["docdesttree"])
    if h == "dohtml":
        return h, '--dest="/usr/share/doc/%s/%s"' % (pf, "html")
    if h == "doinfo":
        return h, "--dest=/usr/share/info"
    if h == "doman":
        return h, "--dest=/usr/share/man"
    if h == "domo":
        if e < 7:
            return h, '--dest="%s/share/locale"' % sc["desttree"]
        return h, "--dest=/usr/share/locale"
    if h in ("dodir", "keepdir"):
        return h, '--diroptions="%s"' % sc["diropts"]
    return h, ""


WORK = "@WORK@"  # placeholder for the scenario's working directory in generated requests (replay happens elsewhere)


OUT = "@OUT@"  # placeholder for a scratch directory next to the image ("somewhere else on the host"), watched for changes


def resolve(req, work):
    """Copy of the request with the @WORK@ / @OUT@ placeholders replaced in cwd and arguments."""
    r = dict(req)
    out = os.path.join(os.path.dirname(work), "outside")
    r["args"] = [a.replace(WORK, work).replace(OUT, out) for a in req["args"]]
    if req.get("cwd"):
        r["cwd"] = req["cwd"].replace(WORK, work)
    return r


def frame(req, cwd):
    """Lines of one request as the bash side writes them (without the trailing newlines)."""
    cmd, opts = render(req)
    args = req["args"]
    # __ebd_write_array: printf "%s\0" "$@" then a newline
    arg_line = "".join(a + "\0" for a in args)
    return [cmd, "true" if req.get("nonfatal") else "false", cwd, req.get("phase", "install"), opts, arg_line]


# ---------------------------------------------------------------------------------------------------------
# source trees

def materialize(root, spec):
    """spec: list of {"path", "type": file|dir|link, "content", "mode", "target", "mtime"} (parents first)."""
    os.makedirs(root, exist_ok=True)
    for ent in spec:
        p = os.path.join(root, ent["path"])
        t = ent["type"]
        if t == "dir":
            os.makedirs(p, exist_ok=True)
        elif t == "link":
            os.symlink(ent["target"], p)
        elif t == "tar":
            import io
            import tarfile

            with tarfile.open(p, "w:" + ent.get("compress", "")) as tf:
                for name, data in sorted(ent["members"].items()):
                    b = data.encode("utf-8")
                    ti = tarfile.TarInfo(name)
                    ti.size = len(b)
                    ti.mode = 0o644
                    ti.mtime = 1_500_000_000
                    tf.addfile(ti, io.BytesIO(b))
        else:
            data = ent.get("content", "")
            if isinstance(data, str):
                data = data.encode("utf-8")
            with open(p, "wb") as f:
                f.write(data)
            os.chmod(p, ent.get("mode", 0o644))
            if ent.get("mtime"):
                os.utime(p, ns=(ent["mtime"], ent["mtime"]))


def tree_dict(spec):
    return {ent["path"]: ent for ent in spec}


# ---------------------------------------------------------------------------------------------------------
# stubs for the python side

class Observer:
    def __init__(self):
        self.msgs = []

    def warn(self, msg):
        self.msgs.append(["warn", str(msg)])

    def info(self, msg):
        self.msgs.append(["info", str(msg)])

    def error(self, msg):
        self.msgs.append(["error", str(msg)])

    def write(self, msg, **kw):
        self.msgs.append(["write", str(msg)])

    def flush(self):
        pass


class Pkg:
    def __init__(self, eapi_obj, use=(), restrict=(), user_patches=()):
        self.eapi = eapi_obj
        self.category = PKG_ID["category"]
        self.PN = PKG_ID["PN"]
        self.PF = PKG_ID["PF"]
        self.slot = PKG_ID["slot"]
        self.use = frozenset(use)
        self.restrict = tuple(restrict)
        self.user_patches = list(user_patches)
        self.cpvstr = "%s/%s" % (self.category, self.PF)

    def __str__(self):
        return self.cpvstr


class Domain:
    def __init__(self, installed_repo, root="/"):
        self.all_installed_repos = installed_repo
        self.root = root


class Op:
    """What an `ebd` operation object offers to its IPC helpers."""

    def __init__(self, eapi, image, env=None, domain=None, use=()):
        from pkgcore.ebuild import eapi as eapi_mod
        from pkgcore.ebuild import ebd_ipc

        eobj = eapi_mod.get_eapi(str(eapi))
        self.pkg = Pkg(eobj, use=use)
        self.observer = Observer()
        # ebd.__init__: D/ED carry the EAPI's trailing slash
        self.ED = image.rstrip("/") + eobj.options.trailing_slash
        self.env = dict(env or {})
        self.env.setdefault("ED", self.ED)
        self.env.setdefault("D", self.ED)
        self.userpriv = False
        self.domain = domain
        # one instance per helper for the whole operation, like ebd.__init__
        self._ipc_helpers = {name: getattr(ebd_ipc, cls)(self) for name, cls in HELPER_CLASSES.items()}


# ---------------------------------------------------------------------------------------------------------
# the fake processor

class Record:
    """Everything observed for one request."""

    def __init__(self, req, frame_lines):
        self.req = req
        self.frame = frame_lines
        self.reads = 0
        self.reads_at_first_write = None
        self.writes = []  # wire texts (what the real EbuildProcessor.write would put on the pipe)
        self.raw_writes = []
        self.exc = None  # {"type","code","msg","ret","cause"} for an exception that left the handler
        self.phase_raised = None  # exception type name run_generic_phase ended with
        self.phase_returned = None
        self.shutdowns = 0
        self.mode = "phase"

    # --- derived
    def replies(self):
        return list(self.writes)

    def to_json(self):
        return {"frame": self.frame, "reads": self.reads, "reads_at_first_write": self.reads_at_first_write,
                "writes": self.writes, "exc": self.exc, "phase_raised": self.phase_raised, "mode": self.mode}


def make_fake_processor_class():
    from pkgcore.ebuild import processor

    class FakeProcessor:
        """Scripted daemon.  read() hands out the lines the bash side would write; write() records what the
        python side sends, rendered the way EbuildProcessor.write puts it on the pipe."""

        # the real event loop, run on this object
        generic_handler = processor.EbuildProcessor.generic_handler

        def __init__(self, source, cwd, hooks):
            self.source = source
            self.cwd = cwd
            self.hooks = hooks
            self.feed = collections.deque()
            self.cur = None
            self.done = []
            self._outstanding_expects = []
            self.stray_writes = []
            self.finished_stream = False

        def sandbox_summary(self, *a):
            pass

        def lock(self):
            pass

        def unlock(self):
            pass

        def run_phase(self, phase, env, tmpdir=None, logging=None, additional_commands=None, sandbox=True):
            # the phase prelude (process_ebuild/env transfer/start_processing) belongs to other properties
            return self.generic_handler(additional_commands=additional_commands)

        # -- channel
        def _boundary(self):
            """The bash side got its reply (or gave up) and issues its next command."""
            self.close_current()
            req = self.source.next()
            if req is None:
                self.finished_stream = True
                self.feed.append("phases succeeded")
                return
            req = resolve(req, self.cwd)
            cwd = req.get("cwd") or self.cwd
            lines = frame(req, cwd)
            self.cur = Record(req, lines)
            self.hooks.before(self.cur)
            self.feed.extend(lines)

        def close_current(self):
            if self.cur is not None:
                rec, self.cur = self.cur, None
                self.hooks.after(rec)
                self.done.append(rec)

        def read(self):
            if not self.feed:
                self._boundary()
            line = self.feed.popleft()
            if self.cur is not None:
                self.cur.reads += 1
            return line + "\n"

        def write(self, string, flush=True, disable_runtime_exceptions=False, append_newline=True):
            s = str(string)
            if append_newline and s != "\n":
                s += "\n"
            if self.cur is None:
                self.stray_writes.append(s)
                return
            if self.cur.reads_at_first_write is None:
                self.cur.reads_at_first_write = self.cur.reads
            self.cur.writes.append(s)
            self.cur.raw_writes.append(repr(string))

        def shutdown_processor(self, force=False, ignore_keyboard_interrupt=False):
            if self.cur is not None:
                self.cur.shutdowns += 1

    return FakeProcessor


class Hooks:
    def before(self, rec):
        pass

    def after(self, rec):
        pass

    def stray(self, writes):
        pass


def exc_info(e):
    d = {"type": type(e).__name__, "str": str(e)[:400]}
    for k in ("code", "msg", "ret", "name"):
        if hasattr(e, k):
            v = getattr(e, k)
            d[k] = v if isinstance(v, (int, str, type(None))) else repr(v)
    if e.__cause__ is not None:
        d["cause"] = repr(e.__cause__)[:300]
        d["cause_tb"] = "".join(traceback.format_exception(e.__cause__, limit=-2))[-600:]
    return d


class ListSource:
    """Request source: a fixed list, or a callable producing the next request lazily (None = end)."""

    def __init__(self, reqs=None, fn=None):
        self.reqs = collections.deque(reqs or [])
        self.fn = fn
        self.exhausted = False
        self.issued = []

    def next(self):
        if self.exhausted:
            return None
        req = self.reqs.popleft() if self.reqs else (self.fn() if self.fn else None)
        if req is None:
            self.exhausted = True
            return None
        self.issued.append(req)
        return req


def run_stream(op, source, cwd, hooks):
    """Feed the requests of `source` through run_generic_phase; after a request that ends the phase (fatal failure) a
    new phase is started for the remaining ones (a real build would have stopped there; the helper objects stay the
    same ones, as in a real operation object).  Returns the list of Records."""
    from pkgcore.ebuild import ebd as ebd_mod
    from pkgcore.ebuild import ebd_ipc

    Fake = make_fake_processor_class()
    records = []
    released = []
    orig_req, orig_rel = ebd_mod.request_ebuild_processor, ebd_mod.release_ebuild_processor
    try:
        while not source.exhausted:
            fake = Fake(source, cwd, hooks)
            ebd_mod.request_ebuild_processor = lambda **kw: fake
            ebd_mod.release_ebuild_processor = lambda p: released.append(p)
            try:
                ret = ebd_mod.run_generic_phase(op.pkg, "install", dict(op.env), False, False,
                                                extra_handlers=dict(op._ipc_helpers))
                fake.close_current()
                for r in fake.done:
                    r.phase_returned = ret
            except Exception as e:  # whatever the phase ends with is an observation
                cur = fake.cur
                if cur is None:
                    # nothing was outstanding on the channel: the python side lost step with the frame sequence
                    hooks.stray(["exception with no request outstanding: %s: %s" % (type(e).__name__, str(e)[:200])])
                    records.extend(fake.done)
                    if not fake.done or fake.finished_stream:
                        source.exhausted = True
                    continue
                cur.phase_raised = type(e).__name__
                # run_generic_phase wraps an IpcCommandError into GenericBuildError (from e) and re-raises the
                # cause of an IpcInternalError
                src = e.__cause__ if isinstance(e.__cause__, ebd_ipc.IpcError) else e
                cur.exc = exc_info(src)
                cur.exc["phase_exc"] = type(e).__name__
                cur.exc["is_ipc_error"] = isinstance(src, ebd_ipc.IpcError)
                fake.close_current()
            records.extend(fake.done)
            if fake.stray_writes:
                hooks.stray(fake.stray_writes)
    finally:
        ebd_mod.request_ebuild_processor, ebd_mod.release_ebuild_processor = orig_req, orig_rel
    return records


def run_direct(op, req, cwd, hooks):
    """One request straight into <Helper>.__call__ (what generic_handler does), no phase wrapper.  A raised IpcError
    is the reply-to-be (`.ret` is what run_generic_phase writes)."""
    from pkgcore.ebuild import ebd_ipc

    Fake = make_fake_processor_class()
    fake = Fake(ListSource([req]), cwd, hooks)
    fake._boundary()
    rec = fake.cur
    rec.mode = "direct"
    cmd = fake.feed.popleft()
    rec.reads += 1
    try:
        op._ipc_helpers[cmd](fake)
    except ebd_ipc.IpcError as e:
        rec.exc = exc_info(e)
        rec.exc["is_ipc_error"] = True
        rec.exc["phase_exc"] = None
    except Exception as e:
        rec.exc = exc_info(e)
        rec.exc["is_ipc_error"] = False
        rec.exc["phase_exc"] = None
    rec.leftover = list(fake.feed)
    fake.close_current()
    return rec


# ---------------------------------------------------------------------------------------------------------
# observing the external `install` / patch / tar processes (opaque operations)

class SpawnRecorder:
    """Wraps snakeoil's spawn_get_output as seen by ebd_ipc: records (argv, exit status, output line count)."""

    def __init__(self):
        self.calls = []
        self._orig = None

    def __enter__(self):
        from pkgcore.ebuild import ebd_ipc

        self._mod = ebd_ipc.spawn
        self._orig = self._mod.spawn_get_output

        def wrapped(cmd, *a, **kw):
            ret, out = self._orig(cmd, *a, **kw)
            self.calls.append({"argv": [str(x) for x in cmd], "ret": ret, "out": [str(x) for x in out][:6]})
            return ret, out

        self._mod.spawn_get_output = wrapped
        return self

    def __exit__(self, *a):
        self._mod.spawn_get_output = self._orig

    def take(self):
        c, self.calls = self.calls, []
        return c


# ---------------------------------------------------------------------------------------------------------
# in-process fault injection on the filesystem entry points the helpers use

FAULT_POINTS = ("os.makedirs", "os.chmod", "os.lchown", "os.symlink", "os.link", "os.utime", "os.unlink",
                "shutil.copyfile", "open")
ERRNOS = (errno.EACCES, errno.ENOSPC, errno.EIO, errno.EROFS)


class Injector:
    """Numbers the calls of FAULT_POINTS whose path argument lies under `root`; call number k raises OSError(err).

    k=0: count only.  Works in-process; restores everything on exit."""

    def __init__(self, root, k=0, err=errno.EIO):
        self.root = os.path.realpath(root)
        self.k = k
        self.err = err
        self.n = 0
        self.ops = []
        self.fired = None
        self._saved = []

    def _under(self, p):
        try:
            p = os.fspath(p)
        except TypeError:
            return False
        if isinstance(p, bytes):
            p = p.decode("utf-8", "surrogateescape")
        p = os.path.normpath(os.path.join(os.getcwd(), p))
        return p == self.root or p.startswith(self.root + "/")

    def _wrap(self, name, fn, path_idx):
        def w(*a, **kw):
            paths = [a[i] for i in path_idx if i < len(a)]
            if name == "open":
                mode = a[1] if len(a) > 1 else kw.get("mode", "r")
                if not any(c in mode for c in "wxa+"):
                    return fn(*a, **kw)
            if any(self._under(p) for p in paths):
                self.n += 1
                self.ops.append([self.n, name, str(paths[-1])[-60:]])
                if self.n == self.k:
                    self.fired = [self.n, name, errno.errorcode[self.err]]
                    raise OSError(self.err, os.strerror(self.err), str(paths[-1]))
            return fn(*a, **kw)
        return w

    def __enter__(self):
        import builtins

        from pkgcore.ebuild import ebd_ipc

        def patch(obj, attr, new):
            self._saved.append((obj, attr, obj.__dict__.get(attr, _MISSING) if isinstance(obj, type) else
                                getattr(obj, attr, _MISSING)))
            setattr(obj, attr, new)

        patch(os, "makedirs", self._wrap("os.makedirs", os.makedirs, (0,)))
        patch(os, "chmod", self._wrap("os.chmod", os.chmod, (0,)))
        patch(os, "lchown", self._wrap("os.lchown", os.lchown, (0,)))
        patch(os, "utime", self._wrap("os.utime", os.utime, (0,)))
        patch(os, "unlink", self._wrap("os.unlink", os.unlink, (0,)))
        sym = self._wrap("os.symlink", os.symlink, (1,))
        lnk = self._wrap("os.link", os.link, (1,))
        patch(os, "symlink", sym)
        patch(os, "link", lnk)
        patch(shutil, "copyfile", self._wrap("shutil.copyfile", shutil.copyfile, (1,)))
        # Dosym/Dohard captured os.symlink/os.link at class creation
        patch(ebd_ipc.Dosym, "_link", staticmethod(sym))
        patch(ebd_ipc.Dohard, "_link", staticmethod(lnk))
        # Keepdir uses the builtin open(): shadow it in the module namespace only
        patch(ebd_ipc, "open", self._wrap("open", builtins.open, (0,)))
        return self

    def __exit__(self, *a):
        for obj, attr, old in reversed(self._saved):
            if old is _MISSING:
                try:
                    delattr(obj, attr)
                except AttributeError:
                    pass
            else:
                setattr(obj, attr, old)
        self._saved = []


_MISSING = object()


def snap(path):
    s = fssnap.snap(path)
    for e in s.values():
        e["ino"] = list(e["ino"])
    return s


def brief_snap(s, limit=40):
    out = {}
    for i, (p, e) in enumerate(sorted(s.items())):
        if i >= limit:
            out["..."] = "%d more" % (len(s) - limit)
            break
        b = {"t": e["type"], "m": oct(e["mode"])}
        if "target" in e:
            b["to"] = e["target"]
        out[p] = b
    return out


# ---------------------------------------------------------------------------------------------------------
# one scenario = one operation object (one helper instance per helper), one work tree, one growing image

class Scenario(Hooks):
    def __init__(self, base, eapi, tree_spec, domain=None, use=(), extra_dirs=(), umask=0o022):
        self.base = base
        self.umask = umask
        shutil.rmtree(base, ignore_errors=True)
        _um = os.umask(0o022)
        self.work = os.path.join(base, "work")
        self.image = os.path.join(base, "image")
        self.temp = os.path.join(base, "temp")
        self.distdir = os.path.join(base, "distdir")
        self.outside = os.path.join(base, "outside")
        for d in (self.work, self.image, self.temp, self.distdir, self.outside) + tuple(
                os.path.join(base, x) for x in extra_dirs):
            os.makedirs(d)
        materialize(self.work, tree_spec)
        os.umask(_um)
        self.eapi = str(eapi)
        self.tree_spec = tree_spec
        self.tree = tree_dict(tree_spec)
        env = {"T": self.temp, "DISTDIR": self.distdir, "EPREFIX": "", "ROOT": "/", "EROOT": "/", "SYSROOT": "/",
               "ESYSROOT": "/", "BROOT": "/", "WORKDIR": self.work}
        self.op = Op(eapi, self.image, env=env, domain=domain, use=use)
        self.spawn = SpawnRecorder()
        self.src_snap = snap(self.work)
        self.post = snap(self.image)
        self.strays = []
        self.volatile_sources = False
        self.src_resnaps = 0
        self.all_records = []  # every closed request record, also when run() ends with a harness error
        self.revived = 0
        self.harness_notes = []
        self._inj = None

    # hooks
    def before(self, rec):
        rec.pre = self.post
        # what the source files hold at request time: helpers such as eapply/unpack/filter_env legitimately rewrite the
        # work tree, so once one of them has run the sources are read again before every request
        if self.volatile_sources:
            self.src_snap = snap(self.work)
            self.src_resnaps += 1
        rec.src_snap = self.src_snap
        if rec.frame[0] not in INSTALL_IPC_COMMANDS:
            self.volatile_sources = True
        rec.outside_pre = snap(self.outside)
        rec.injected = None
        rec.fault_ops = []
        self.op.observer.msgs = []
        inj = rec.req.get("inject")
        if inj is not None:
            self._inj = Injector(self.image, inj["k"], getattr(errno, inj["err"]))
            self._inj.__enter__()

    def after(self, rec):
        if self._inj is not None:
            self._inj.__exit__(None, None, None)
            rec.injected = self._inj.fired
            rec.fault_ops = self._inj.ops
            self._inj = None
        rec.post = snap(self.image)
        rec.outside_post = snap(self.outside)
        rec.spawn = self.spawn.take()
        rec.msgs = list(self.op.observer.msgs)
        self.post = rec.post
        self.last_rec = rec
        self.all_records.append(rec)

    def stray(self, writes):
        self.strays.extend(writes)

    def run(self, source, direct=False):
        old_umask = os.umask(self.umask)
        cwd0 = os.getcwd()
        try:
            with self.spawn:
                if direct:
                    out = []
                    while True:
                        req = source.next()
                        if req is None:
                            break
                        out.append(run_direct(self.op, req, self.work, self))
                    return out
                return run_stream(self.op, source, self.work, self)
        finally:
            if self._inj is not None:
                self._inj.__exit__(None, None, None)
                self._inj = None
            os.umask(old_umask)
            os.chdir(cwd0)

    def cleanup(self):
        shutil.rmtree(self.base, ignore_errors=True)


def revive_if_reported(sc):
    """Once a request has died of an exhausted helper coroutine (StopIteration inside the helper, recorded and judged for
    that request) the helper object that served it is replaced by a freshly constructed one, otherwise every later request
    to that helper would only repeat the same observation.  Nothing of the helper's internals is inspected."""
    last = getattr(sc, "last_rec", None)
    try:
        if last is None or not last.exc or "StopIteration" not in str(last.exc.get("cause") or last.exc.get("type")):
            return
        if getattr(last, "revived", False):
            return
        last.revived = True
        name = last.frame[0]
        old = sc.op._ipc_helpers.get(name)
        if old is None:
            return
        sc.op._ipc_helpers[name] = type(old)(sc.op)
        sc.revived = getattr(sc, "revived", 0) + 1
    except Exception as e:  # never let the harness' housekeeping get in the way of a judgement
        sc.harness_notes = getattr(sc, "harness_notes", []) + ["revive failed: %r" % (e,)]


class ReviveSource(ListSource):
    def __init__(self, sc, **kw):
        ListSource.__init__(self, **kw)
        self.sc = sc

    def next(self):
        revive_if_reported(self.sc)
        return ListSource.next(self)


def chown_works():
    d = os.environ.get("VT_SCRATCH", "/var/tmp")
    p = os.path.join(d, "chown-probe")
    try:
        with open(p, "w"):
            pass
        os.lchown(p, 0, 0)
        os.unlink(p)
        return os.geteuid() == 0
    except OSError:
        return False
