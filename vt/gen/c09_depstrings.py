"""Grammar based generator of dependency-style strings (as ASTs of vt/ref/c09_depmodel.py) + token-level corruptions."""

from ..ref import c09_depmodel as M

FLAGS = ["ssl", "gtk", "X", "test"]

ATOMS = [
    "dev-libs/foo", ">=dev-libs/bar-1.2", "!app-misc/baz", "sys-apps/qux:2", "~x11-libs/gtk-3.0",
    "=dev-lang/py-3*", "!!sys-fs/udev", "dev-libs/foo:0/1=", "dev-libs/icu:=", "net-misc/curl[ssl]",
    "net-misc/curl[-ssl]", "<sys-devel/gcc-13", "virtual/a", "app-arch/xz-utils",
]
TRANSITIVE_ATOMS = [
    "dev-libs/tr[ssl?]", "dev-libs/tr[!gtk?]", "dev-libs/tr[X=]", "dev-libs/tr[!test=]", "dev-libs/tr2[gtk?]",
    "=dev-libs/tr3-1[ssl=]",
]
LICENSES = ["GPL-2", "GPL-2+", "MIT", "BSD", "Apache-2.0", "LGPL-2.1", "public-domain", "CC-BY-SA-3.0"]
RESTRICTS = ["test", "mirror", "fetch", "strip", "bindist", "userpriv", "primaryuri", "splitdebug"]
URIS = [
    "https://example.org/a-1.tar.gz", "mirror://gnu/b/b-2.tar.xz", "http://h/p/c.zip", "d-3.tar.bz2",
    "https://example.org/dl?id=7&x=y", "ftp://f/e.tgz",
]
RENAMES = ["a-1.tgz", "renamed-2.tar.xz", "c.zip", "x_y-3.patch"]
RFLAGS = ["a", "b", "c", "d", "e"]

KINDS = ["depend", "license", "restrict", "srcuri", "requse"]


def leaf(rng, kind, transitive=False):
    if kind == "depend":
        if transitive and rng.random() < 0.35:
            return ["tok", rng.choice(TRANSITIVE_ATOMS)]
        return ["tok", rng.choice(ATOMS)]
    if kind == "license":
        return ["tok", rng.choice(LICENSES)]
    if kind == "restrict":
        return ["tok", rng.choice(RESTRICTS)]
    if kind == "srcuri":
        if rng.random() < 0.4:
            return ["tok", rng.choice(URIS), rng.choice(RENAMES)]
        return ["tok", rng.choice(URIS)]
    if kind == "requse":
        f = rng.choice(RFLAGS)
        return ["tok", ("!" if rng.random() < 0.3 else "") + f]
    raise ValueError(kind)


def gen(rng, kind, max_depth=4, max_leaves=6, transitive=False, bare_all=True, flags=None):
    """-> list of top-level nodes.  ≤ max_leaves leaves, nesting ≤ max_depth."""
    flags = flags or (RFLAGS if kind == "requse" else FLAGS)
    ops = list(M.GROUP_OPS[kind].values())
    state = {"left": rng.randint(1, max_leaves)}

    def nodes(depth, lo=1):
        out = []
        n = rng.choice([1, 1, 2, 2, 3]) if depth else rng.choice([1, 2, 2, 3, 4])
        n = max(n, lo)
        for _ in range(n):
            if state["left"] <= 0 and len(out) >= lo:
                break
            r = rng.random()
            if depth >= max_depth or r < 0.38:
                state["left"] -= 1
                out.append(leaf(rng, kind, transitive))
                continue
            choices = ["cond", "cond", "cond"]
            if bare_all:
                choices.append("all")
            choices += ops * 2
            k = rng.choice(choices)
            if k == "cond":
                out.append(["cond", rng.choice(flags), rng.random() < 0.35, nodes(depth + 1)])
            else:
                out.append([k, nodes(depth + 1)])
        if not out:
            state["left"] -= 1
            out.append(leaf(rng, kind, transitive))
        return out

    return nodes(0)


CORRUPTIONS = [
    "drop_open", "drop_close", "insert_open", "insert_close", "dangle_op", "append_op", "insert_op", "pipe_word",
    "glue", "insert_arrow", "drop_token", "dup_token", "swap", "empty_group", "append_arrow", "close_after_arrow",
    "cond_word",
]


def corrupt(rng, text, kind):
    """One token-level corruption; -> (name, new_text) (new_text may equal text when not applicable)."""
    toks = text.split()
    name = rng.choice(CORRUPTIONS)
    ops = list(M.GROUP_OPS[kind]) or ["||"]

    def idx(pred):
        c = [i for i, t in enumerate(toks) if pred(t)]
        return rng.choice(c) if c else None

    if name == "drop_open":
        i = idx(lambda t: t == "(")
        if i is not None:
            del toks[i]
    elif name == "drop_close":
        i = idx(lambda t: t == ")")
        if i is not None:
            del toks[i]
    elif name == "insert_open":
        toks.insert(rng.randint(0, len(toks)), "(")
    elif name == "insert_close":
        toks.insert(rng.randint(0, len(toks)), ")")
    elif name == "dangle_op":
        c = [i for i in range(len(toks) - 1) if toks[i + 1] == "(" and (toks[i] in ops or toks[i].endswith("?"))]
        if c:
            i = rng.choice(c)
            if rng.random() < 0.5:
                # operator directly followed by a word: keep the parentheses balanced by dropping the close too
                depth = 0
                for j in range(i + 1, len(toks)):
                    if toks[j] == "(":
                        depth += 1
                    elif toks[j] == ")":
                        depth -= 1
                        if depth == 0:
                            del toks[j]
                            break
            del toks[i + 1]
    elif name == "append_op":
        toks.append(rng.choice(ops + [rng.choice(FLAGS) + "?", "!" + rng.choice(FLAGS) + "?"]))
    elif name == "insert_op":
        toks.insert(rng.randint(0, len(toks)), rng.choice(ops + [rng.choice(FLAGS) + "?"]))
    elif name == "pipe_word":
        i = idx(lambda t: t not in ("(", ")", "->") and not t.endswith("?") and t not in ops)
        if i is not None:
            toks[i] = rng.choice([toks[i] + "|", "|" + toks[i], toks[i] + "||" + toks[i], "|"])
    elif name == "glue":
        if len(toks) >= 2:
            i = rng.randrange(len(toks) - 1)
            toks[i : i + 2] = [toks[i] + toks[i + 1]]
    elif name == "insert_arrow":
        toks.insert(rng.randint(0, len(toks)), "->")
    elif name == "append_arrow":
        toks.append("->")
    elif name == "close_after_arrow":
        i = idx(lambda t: t == "->")
        if i is not None:
            toks.insert(i + 1, rng.choice([")", "(", "->"]))
        else:
            i = idx(lambda t: t not in ("(", ")") and not t.endswith("?") and t not in ops)
            if i is not None:
                toks[i + 1 : i + 1] = ["->", rng.choice([")", "("])]
    elif name == "drop_token":
        if toks:
            del toks[rng.randrange(len(toks))]
    elif name == "dup_token":
        if toks:
            i = rng.randrange(len(toks))
            toks.insert(i, toks[i])
    elif name == "swap":
        if len(toks) >= 2:
            i = rng.randrange(len(toks) - 1)
            toks[i], toks[i + 1] = toks[i + 1], toks[i]
    elif name == "empty_group":
        i = rng.randint(0, len(toks))
        toks[i:i] = rng.choice([["(", ")"], [rng.choice(ops), "(", ")"], [rng.choice(FLAGS) + "?", "(", ")"]])
    elif name == "cond_word":
        i = idx(lambda t: t not in ("(", ")", "->") and not t.endswith("?") and t not in ops)
        if i is not None:
            toks[i] = toks[i] + "?"
    return name, " ".join(toks)
