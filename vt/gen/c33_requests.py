"""Random work trees and install-helper requests (daemon-side view) for C33 / C32.  No pkgcore imports."""

WORDS = ["foo", "bar", "tool", "lib", "cfg", "data", "main", "util", "x11", "net", "io", "zed"]
LANGS = ["de", "fr", "pl", "ja"]
LOCALES = ["pt_BR", "zh_CN", "en_GB"]
SECTIONS = ["1", "2", "3", "5", "7", "8", "n"]
HTML_EXT = ["html", "htm", "css", "png", "js", "gif", "jpg", "jpeg"]
OTHER_EXT = ["txt", "md", "xml", "svg", "c", "orig"]

EAPIS = ["0", "1", "2", "3", "4", "5", "6", "7", "8"]

HOST_DIR_NAMES = ["/usr/lib", "/etc", "/usr/share", "/var/tmp", "/usr/bin"]


def _content(rng, tag):
    return "%s %08x\n" % (tag, rng.getrandbits(32)) * rng.choice([1, 1, 2, 5])


def man_name(rng):
    name = rng.choice(WORDS)
    r = rng.random()
    if r < 0.25:
        name += "-" + rng.choice(WORDS)
    elif r < 0.33:
        name += "." + rng.choice(WORDS)
    r = rng.random()
    if r < 0.30:
        name += "." + rng.choice(LANGS)
    elif r < 0.42:
        name += "." + rng.choice(LOCALES)
    elif r < 0.46:
        name += "." + rng.choice(["ptBR", "DE", "d", "deu"])
    return name + "." + rng.choice(SECTIONS if rng.random() < 0.93 else ["3pm", "1p", "txt"])


def gen_tree(rng, rich=True):
    """-> list of entries (parents before children)."""
    spec = []
    seen = set()
    t0 = 1_500_000_000_000_000_000

    def add(path, typ, **kw):
        if path in seen:
            return
        seen.add(path)
        ent = {"path": path, "type": typ}
        ent.update(kw)
        if typ == "file":
            ent.setdefault("content", _content(rng, path))
            ent.setdefault("mode", rng.choice([0o644, 0o644, 0o600, 0o755, 0o640]))
            ent["mtime"] = t0 + rng.randrange(10 ** 9, 10 ** 15)
        spec.append(ent)

    # plain files of several kinds
    for n in ["README", "ChangeLog", "prog", "tool.sh", "libvt.so.1", "libvt.a", "conf", "init", "vt.h", "vt.info"]:
        add(n, "file")
    for _ in range(rng.randrange(2, 6)):
        add(man_name(rng), "file")
    add("nosect", "file")
    for n in rng.sample(LANGS + LOCALES, 3):
        add(n + ".mo", "file")
    for _ in range(rng.randrange(2, 5)):
        add("%s.%s" % (rng.choice(WORDS), rng.choice(HTML_EXT + OTHER_EXT)), "file")
    # directories
    for d in ["docs", "inc"][: rng.randrange(1, 3)]:
        add(d, "dir")
        for _ in range(rng.randrange(1, 5)):
            add("%s/%s.%s" % (d, rng.choice(WORDS), rng.choice(HTML_EXT + OTHER_EXT + ["h"])), "file")
        if rng.random() < 0.7:
            add(d + "/sub", "dir")
            for _ in range(rng.randrange(0, 3)):
                add("%s/sub/%s.%s" % (d, rng.choice(WORDS), rng.choice(HTML_EXT + OTHER_EXT)), "file")
            if rng.random() < 0.3:
                add(d + "/sub/deep", "dir")
                add(d + "/sub/deep/leaf.html", "file")
        if rng.random() < 0.25:
            add(d + "/empty", "dir")
    add("plain", "dir")
    add("plain/one.txt", "file")
    add("plain/two.html", "file")
    add("plain/nest", "dir")
    add("plain/nest/three.css", "file")
    # a link-only-to-files tree (installed twice / overwritten by the files of "over" in the directed scenarios)
    add("relinks", "dir")
    add("relinks/f.txt", "file")
    add("relinks/fl", "link", target="f.txt")
    add("relinks/dg", "link", target="../lib/later.so")
    add("relinks/ab", "link", target="/usr/lib/vt-nx/later.so")
    # other files / symlinks carrying the names of top-level files (installed over them in the directed scenarios)
    add("alt", "dir")
    for n in ("README", "conf", "vt.h"):
        add("alt/" + n, "file")
    add("sym", "dir")
    add("sym/README", "link", target="../ChangeLog")
    add("sym/conf", "link", target="not-there-either")
    add("sym/vt.h", "link", target="/usr/lib/vt-nx/vt.h")
    # the same link names again, other targets
    add("sym2", "dir")
    add("sym2/README", "link", target="../README")
    add("sym2/conf", "link", target="somewhere-else")
    add("sym2/vt.h", "link", target="/usr/lib/vt-nx/other.h")
    # two trees whose top directory has the same name and holds a same-named symlink to a directory
    for t, sub in (("t1", "a"), ("t2", "b")):
        add(t, "dir")
        add(t + "/pack", "dir")
        add(t + "/pack/" + sub, "dir")
        add("%s/pack/%s/in-%s.txt" % (t, sub, sub), "file")
        add(t + "/pack/dl", "link", target=sub)
        add("%s/pack/top-%s.txt" % (t, sub), "file")
    add("over", "dir")
    add("over/fl", "file")
    add("over/dg", "file")
    add("over/ab", "file")
    if rich:
        # symlinks (only in a separate directory and at the top, so that "plain"/"docs" stay link free most times)
        add("lnk", "link", target="README")
        add("dang", "link", target="not-there")
        add("linky", "dir")
        add("linky/real.txt", "file")
        add("linky/sub", "dir")
        add("linky/sub/s.txt", "file")
        add("linky/flink", "link", target="real.txt")
        add("linky/dlink", "link", target="sub")
        if rng.random() < 0.5:
            add("linky/dangling", "link", target="../lib/later.so")
        if rng.random() < 0.3 and "docs" in seen:
            add("docs/rel", "link", target=rng.choice(["sub", "../README"]))
    return spec


INSOPTS = ["-m0644"] * 8 + ["-m0600", "-m 0640", "--mode=0444", "-m644", "-m0644 -p", "-m0755", "-m0644 -o 0 -g 0",
                            "-m0640 -g 0", "-m 2755", "-p -m0644", "-m4755 -o 0", "-m2755 -g 0", "-m6755 -o 0 -g 0"]
DIROPTS = ["-m0755"] * 8 + ["-m0700", "-m 0750", "--mode=0711", "-m0775"]
EXEOPTS = ["-m0755"] * 6 + ["-m0700", "-m0555", "-m0750 -p", "-m4755 -o 0", "-m 2711 -g 0 -o 0"]
LIBOPTS = ["-m0644"] * 4 + ["-m0755", "-m0444", "-m4755 -g 0"]
# option strings the python side cannot handle itself: it must fall back to the external install command
FALLBACK_INSOPTS = ["-m0644 -s", "--bogus", "-m u=rw,go=r", "-m0644 -C", "-mu=rwx,go=rx", "-m0644 --no-such-option",
                    "-m0600 -v", "-m a=r", "-m0644 -S .bak", "-m0644 -b"]
FALLBACK_DIROPTS = ["-m0755 --bogus", "-m u=rwx,go=rx", "-m0750 -v", "-m a=rx,u=rwx"]


def gen_scope(rng):
    return {
        "desttree": rng.choice(["/usr", "/usr", "/usr/local", "/opt/vt", ""]),
        "insdesttree": rng.choice(["", "/etc/vt", "/usr/share/vt", "/usr/share/vt/", "/opt/vt/share//x"]),
        "exedesttree": rng.choice(["/usr/libexec/vt", "/opt/vt/bin", "/etc/vt/scripts", ""]),
        "docdesttree": rng.choice(["", "", "examples", "html", "a/b"]),
        "insopts": rng.choice(INSOPTS), "diropts": rng.choice(DIROPTS), "exeopts": rng.choice(EXEOPTS),
        "libopts": rng.choice(LIBOPTS), "libdir": rng.choice(["lib", "lib64"]),
    }


def _files(tree, pred):
    return [e["path"] for e in tree if e["type"] == "file" and pred(e["path"])]


def _top(p):
    return "/" not in p


def gen_request(rng, eapi, tree, scope, cwd, image_state, allow_chown=True, only=None):
    """One install-helper request.  image_state: current fssnap of the image (to aim at existing entries).
    only: restrict the choice of helpers to these names."""
    e = int(eapi)
    helpers = ["doins"] * 5 + ["dodoc"] * 3 + ["doexe", "dobin", "dosbin", "dolib.so", "dolib.a", "doinfo"] + \
        ["doman"] * 4 + ["domo"] * 2 + ["dodir"] * 2 + ["keepdir"] * 2 + ["dosym"] * 5 + ["doconfd", "doenvd", "doinitd"]
    if e <= 6:
        helpers += ["dohtml"] * 3 + ["dolib"]
    if e >= 5:
        helpers += ["doheader"]
    if e <= 3:
        helpers += ["dohard"] * 2
    if only:
        helpers = [x for x in helpers if x in only] or list(only)
    h = rng.choice(helpers)
    sc = dict(scope)
    if not allow_chown:
        for k in ("insopts", "exeopts"):
            if "-o" in sc[k] or "-g" in sc[k]:
                sc[k] = "-m0644"
    req = {"helper": h, "eapi": str(eapi), "scope": sc, "nonfatal": rng.random() < 0.5, "args": []}
    files_top = _files(tree, _top)
    dirs = [x["path"] for x in tree if x["type"] == "dir"]
    args = []

    def operand(p):
        r = rng.random()
        if r < 0.08:
            return cwd + "/" + p
        if r < 0.16:
            return "./" + p
        return p

    def some(pool, lo=1, hi=3):
        pool = list(pool)
        if not pool:
            return []
        k = min(len(pool), rng.randrange(lo, hi + 1))
        return [operand(p) for p in rng.sample(pool, k)]

    if h in ("doins", "doconfd", "doenvd", "doheader", "dodoc", "doexe", "doinitd", "dobin", "dosbin", "dolib",
             "dolib.so", "dolib.a", "doinfo"):
        pool = files_top + _files(tree, lambda p: p.count("/") == 1)
        args = some(pool)
        r = rng.random()
        rec_ok = h in ("doins", "doconfd", "doenvd", "doheader", "dodoc")
        if rec_ok and r < 0.40:
            d = rng.choice(dirs)
            dd = operand(d) + ("/" if rng.random() < 0.15 else "")
            args = ["-r"] + ([dd] if rng.random() < 0.5 else args[:1] + [dd])
        elif r < 0.48:
            # directory operand without -r
            args = args[: rng.randrange(0, 2)] + [operand(rng.choice(dirs))]
            rng.shuffle(args)
        elif r < 0.54:
            args = args[:1] + ["no-such-file.%d" % rng.randrange(100)]
            rng.shuffle(args)
        elif r < 0.62 and h in ("doins", "doheader"):
            args = args[:1] + [rng.choice(["lnk", "dang", "linky/flink"])]
        elif r < 0.64:
            args = []
    elif h == "doman":
        pool = [p for p in files_top if p.rsplit(".", 1)[-1] in SECTIONS + ["3pm", "1p"] and "." in p]
        args = some(pool, 1, 3)
        r = rng.random()
        if r < 0.12:
            args = ["-i18n=" + rng.choice(LANGS + ["", "pt_BR"])] + args
        elif r < 0.20:
            args = args[:1] + ["nosect"]
        elif r < 0.24:
            args = args[:1] + ["README"]
        elif r < 0.28:
            args = args[:1] + ["missing.1"]
        elif r < 0.31:
            args = args[:1] + [rng.choice(dirs)]
    elif h == "domo":
        args = some([p for p in files_top if p.endswith(".mo")], 1, 2)
        if rng.random() < 0.06:
            args.append("xx.mo")
    elif h == "dohtml":
        pool = files_top + _files(tree, lambda p: p.count("/") == 1)
        args = some(pool, 1, 4)
        opts = []
        r = rng.random()
        if r < 0.45:
            opts.append("-r")
            args = args[: rng.randrange(0, 2)] + [operand(rng.choice([d for d in dirs if not d.startswith("linky")]))]
        elif r < 0.50:
            args = args[:1] + [operand(rng.choice(dirs))]
        if rng.random() < 0.2:
            opts += ["-A", rng.choice(["txt", "txt,md", "svg"])]
        if rng.random() < 0.12:
            opts += ["-a", rng.choice(["html", "txt,html", "css,png"])]
        if rng.random() < 0.12:
            opts += ["-f", rng.choice(["README", "README,ChangeLog", "conf"])]
        if rng.random() < 0.12:
            opts += ["-p", rng.choice(["api", "a/b"])]
        if rng.random() < 0.08:
            opts += ["-V"]
        if rng.random() < 0.05:
            opts += ["-x", "sub"]
        args = opts + args
    elif h in ("dodir", "keepdir"):
        pool = ["/var/lib/vt", "/etc/vt.d", "usr/share/vt/extra", "/a/b/c/d", "/var//cache/vt/", "/opt/vt", "/srv/vt/",
                "/usr/lib/vt", "/etc"]
        args = rng.sample(pool, rng.randrange(1, 3))
        if rng.random() < 0.05:
            args = []
    elif h == "dosym":
        img_dirs = ["/" + p for p, s in image_state.items() if s["type"] == "dir"]
        # absolute targets never name a path whose parent directory exists on the build host (a helper that wrongly
        # wrote through such a link must not be able to drop files there); @OUT@ is a watched scratch directory
        srcs = ["../lib/libvt.so.1", "tool", "/usr/lib/vt-nx/libvt.so.1", "/usr/share/vt-nx/data", "/opt/vt-nx/bin/prog",
                "../..", "/usr//lib/./vt-nx/../vt-nx/x", "/", "/usr/libexec/vt-nx/tool", "a/b", "@OUT@/elsewhere"]
        names = ["/usr/bin/tool", "/usr/bin/vt-" + rng.choice(WORDS), "/opt/vt/cur", "usr/lib/vt/link", "/lnk",
                 "/usr/share/vt/" + rng.choice(WORDS), "/a//b/c", "top"]
        src, name = rng.choice(srcs), rng.choice(names)
        r = rng.random()
        if r < 0.10:
            name = rng.choice(HOST_DIR_NAMES)
        elif r < 0.15:
            name = rng.choice([d for d in dirs if "/" not in d])  # a directory of the *work dir*, not of the image
        elif r < 0.23 and img_dirs:
            name = rng.choice(img_dirs)  # really an image directory: must be rejected
        elif r < 0.30:
            name = name + "/"
        elif r < 0.33:
            name = None
        args = [src] + ([name] if name is not None else [])
        if rng.random() < 0.35:
            if rng.random() < 0.8:
                args[0] = rng.choice([s for s in srcs if s.startswith("/")])
            args = ["-r"] + args
    elif h == "dohard":
        img_files = ["/" + p for p, s in image_state.items() if s["type"] == "file"]
        if img_files and rng.random() < 0.9:
            s = rng.choice(img_files)
            if rng.random() < 0.4:
                s = s.lstrip("/")
            args = [s, "/usr/share/vt/hard-%d" % rng.randrange(1000)]
        else:
            args = ["/usr/bin/not-in-image", "/usr/bin/hl"]
    req["args"] = args
    return req


# ---------------------------------------------------------------------------------------------------------
# directed multi-step scenarios: a later install helper targets an image path that currently holds a symlink

PF = "vtpkg-1.2-r3"
OVER_SCOPE = {"desttree": "/usr", "insdesttree": "/usr/share/vt", "exedesttree": "/usr/libexec/vt", "docdesttree": "",
              "insopts": "-m0644", "diropts": "-m0755", "exeopts": "-m0755", "libopts": "-m0644", "libdir": "lib"}
VICTIMS = [("doins", "README", "/usr/share/vt/README"), ("dobin", "prog", "/usr/bin/prog"),
           ("dosbin", "prog", "/usr/sbin/prog"), ("dolib.so", "libvt.so.1", "/usr/lib/libvt.so.1"),
           ("dolib.a", "libvt.a", "/usr/lib/libvt.a"), ("doexe", "tool.sh", "/usr/libexec/vt/tool.sh"),
           ("dodoc", "ChangeLog", "/usr/share/doc/%s/ChangeLog" % PF), ("doinitd", "init", "/etc/init.d/init"),
           ("doconfd", "conf", "/etc/conf.d/conf"), ("doinfo", "vt.info", "/usr/share/info/vt.info")]


def _relpath(target, start_dir):
    a, b = [x for x in target.split("/") if x], [x for x in start_dir.split("/") if x]
    i = 0
    while i < min(len(a), len(b)) and a[i] == b[i]:
        i += 1
    return "/".join([".."] * (len(b) - i) + a[i:]) or "."


SETID_OPTS = ["-m4755 -o 0", "-m4755 -o root", "-m2755 -g 0", "-m6755 -o 0 -g 0", "-m 4711 -o 0", "--mode=2750 -g 0",
              "-o 0 -m4755", "-m6555 -g 0", "-m4755 -g 0 -p"]

OVER_VARIANTS = ["setid-owner", "dirlink-trees", "setid-owner", "dosym-then-file", "tree-twice", "dosym-then-file", "links-twice", "dosym-then-file", "tree-then-files",
                 "dosym-then-file", "hardlink-then-file", "file-then-symlink", "hardlink-then-file", "file-then-symlink"]


def overwrite_script(rng, eapi, variant=None):
    """-> (variant name, list of requests).  Uses the fixed names of gen_tree().
    The tree variants need EAPI >= 4 (doins installs symlinks as symlinks)."""
    e = int(eapi)
    sc = dict(OVER_SCOPE)
    sc["insopts"] = rng.choice(["-m0644", "-m0644", "-m0600", "-m0640", "--mode=0444"])
    sc["exeopts"] = rng.choice(["-m0755", "-m0700", "-m0555"])

    def rq(helper, args, **over):
        s = dict(sc)
        s.update(over)
        return {"helper": helper, "eapi": str(eapi), "scope": s, "nonfatal": rng.random() < 0.5, "args": args}

    variants = ["dosym-then-file"] * 5
    if e >= 4:
        variants += ["tree-twice", "links-twice", "tree-then-files", "tree-twice", "tree-then-files"]
    variants += ["setid-owner"]
    if e >= 4:
        variants += ["dirlink-trees"]
    if variant == "setid-owner" or (variant not in variants and rng.random() < 0.1):
        # set-id bits together with -o/-g on regular files: the result is what install(1) gives, bits included
        o = rng.choice(SETID_OPTS)
        h, key, args = rng.choice([("doins", "insopts", ["prog", "tool.sh"]), ("doexe", "exeopts", ["prog"]),
                                   ("doexe", "exeopts", ["tool.sh", "prog"]), ("doins", "insopts", ["-r", "plain"]),
                                   ("doinitd", "exeopts", ["init"]), ("doconfd", "insopts", ["conf"])] +
                                  ([("dolib", "libopts", ["libvt.so.1"])] if e <= 6 else []))
        if e >= 8 and h in ("doinitd", "doconfd"):
            h, key, args = "doexe", "exeopts", ["prog"]
        return "setid-owner", [rq(h, args, **{key: o})]
    if variant == "dirlink-trees" and e >= 4:
        # two trees with a same-named symlink to a directory: the second may be refused, but not be answered with
        # success while the old link stays
        a, b = rng.sample(["t1/pack", "t2/pack"], 2)
        return "dirlink-trees", [rq("doins", ["-r", a]), rq("doins", ["-r", b])]
    if e <= 3:
        variants += ["hardlink-then-file"] * 2
    else:
        variants += ["file-then-symlink"] * 2
    v = variant if variant in variants else rng.choice(variants)
    if v == "hardlink-then-file":
        # EAPI <= 3: two names of one inode, then a different file is installed under one of them: the other name
        # must keep the old content
        n = rng.choice(["README", "conf", "vt.h"])
        first = [rq("doins", [n]), rq("dohard", ["/usr/share/vt/" + n, "/usr/share/vt/hard-" + n])]
        if rng.random() < 0.5:
            return v, first + [rq("doins", ["alt/" + n])]
        # ... or under the dohard name: a copy of the other file named like the link is in alt/ only for the first form,
        # so install into a directory where the link carries the source's name
        return v, [rq("doins", [n]), rq("dohard", ["/usr/share/vt/" + n, "/usr/share/vt/alt/" + n]),
                   rq("doins", ["alt/" + n], insdesttree="/usr/share/vt/alt")]
    if v == "file-then-symlink":
        # EAPI >= 4: a regular file is replaced by a symlink of the same name from the source tree
        n = rng.choice(["README", "conf", "vt.h"])
        if rng.random() < 0.5:
            return v, [rq("doins", [n]), rq("doins", ["sym/" + n])]
        return v, [rq("doins", ["-r", "alt"]),
                   rq("doins", ["sym/README", "sym/conf", "sym/vt.h"], insdesttree="/usr/share/vt/alt")]
    if v == "tree-twice":
        # the second run installs files, a live, a relative dangling and an absolute dangling symlink over themselves
        return v, [rq("doins", ["-r", "relinks"]), rq("doins", ["-r", "relinks"])]
    if v == "links-twice":
        return v, [rq("doins", ["dang", "lnk", "README"]), rq("doins", ["lnk", "dang"])]
    if v == "tree-then-files":
        h = rng.choice(["doins", "doins", "doexe", "dodoc"])
        into = "/usr/share/vt/relinks"
        first = rq("doins", ["-r", "relinks"])
        files = rng.sample(["over/dg", "over/fl", "over/ab"], rng.randrange(1, 4))
        if h == "doins":
            return v, [first, rq("doins", files, insdesttree=into)]
        if h == "doexe":
            return v, [first, rq("doexe", files, exedesttree=into)]
        # dodoc: put the tree where dodoc installs to
        return v, [rq("doins", ["-r", "relinks"], insdesttree="/usr/share/doc/" + PF),
                   rq("dodoc", files, docdesttree="relinks")]
    helper, fname, path = rng.choice(VICTIMS)
    linkdir = path.rsplit("/", 1)[0]
    kind = rng.choice(["rel-dangling", "rel-dangling-samedir", "abs-out", "abs-image-style", "rel-live", "abs-r"])
    reqs = []
    if kind == "rel-dangling":
        reqs.append(rq("dosym", ["../nowhere/%s" % rng.choice(WORDS), path]))
    elif kind == "rel-dangling-samedir":
        reqs.append(rq("dosym", ["ghost-" + rng.choice(WORDS), path]))
    elif kind == "abs-out":
        reqs.append(rq("dosym", ["@OUT@/victim-" + rng.choice(WORDS), path]))
    elif kind == "abs-image-style":
        reqs.append(rq("dosym", ["/usr/lib/vt-nx/" + rng.choice(WORDS), path]))
    elif kind == "abs-r":
        if e >= 8:
            reqs.append(rq("dosym", ["-r", "/usr/lib/vt-nx/" + rng.choice(WORDS), path]))
        else:
            reqs.append(rq("dosym", [_relpath("/usr/lib/vt-nx/x", linkdir), path]))
    else:
        # a live link: its target is installed first
        reqs.append(rq("doins", ["vt.h"]))
        reqs.append(rq("dosym", [_relpath("/usr/share/vt/vt.h", linkdir), path]))
    reqs.append(rq(helper, [fname]))
    if rng.random() < 0.3:
        reqs.append(rq(helper, [fname]))  # and once more over the regular file
    return v + ":" + kind, reqs
