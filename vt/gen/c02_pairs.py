"""Generators for C02: structured descriptions ("fields") of CPVs and atoms, their spellings, and look-alike edits.

Nothing here imports pkgcore.  A *field dict* is JSON-able and is what witnesses carry:

  cpv  : {"cat", "pkg", "ver": str|None, "rev": str}            (ver None = unversioned, rev "" = no -rN written)
  atom : cpv fields + {"blocker": ""|"!"|"!!", "op": ""|"<"|"<="|"="|"=*"|"~"|">="|">", "slot", "subslot",
                       "slotop": None|"="|"*", "repo", "use": None|[tokens in written order], "negate_vers": bool}
"""

import re

from . import versions as gv

# categories / package names include proper-prefix families continued with '-', '+', '.', '_' or a letter: characters
# that sort on both sides of '/', so comparing "cat/pkg" as one string is not the same as comparing (cat, pkg)
CATS = ["a", "b", "dev-x", "dev", "a.b", "dev+", "dev_x", "deva", "x11", "x11-libs"]
PKGS = ["p", "q", "p-q", "p+", "p_x", "pq", "foo", "foo-bar"]
BOUNDARY_CATS = ["dev", "dev-x", "dev+", "dev.x", "dev_x", "deva", "de", "x11", "x11-libs", "a", "a.b"]
BOUNDARY_PKGS = ["foo", "foo-bar", "foo+", "foo_x", "fooa", "fo"]
SLOTS = ["0", "1", "2.1", "01", "9", "10"]
SUBSLOTS = ["0", "1", "2", "02", "00", "10"]
# slot / sub-slot spellings around the numeric-vs-text boundary: leading zeros, 9 vs 10, digits vs digits+letter
SLOT_FAMILY = ["0", "00", "1", "01", "001", "2", "02", "9", "09", "10", "010", "1a", "1.0", "1_0", "a", "A"]
REPOS = ["r1", "r2"]
FLAGS = ["x", "y", "z"]
USE_FORMS = ["%s", "-%s", "%s(+)", "%s(-)", "-%s(+)", "-%s(-)", "%s?", "!%s?", "%s=", "!%s="]
OPS = ["", "<", "<=", "=", "=*", "~", ">=", ">"]
BLOCKERS = ["", "", "!", "!!"]


# ---------------------------------------------------------------- spellings
def cpv_str(f):
    s = "%s/%s" % (f["cat"], f["pkg"])
    if f.get("ver") is not None:
        s += "-" + gv.fullver(f["ver"], f.get("rev") or "")
    return s


def atom_str(f):
    op = f["op"]
    s = f["blocker"] + ("=" if op == "=*" else op) + cpv_str(f)
    if op == "=*":
        s += "*"
    if f.get("slot") is not None:
        s += ":" + f["slot"]
        if f.get("subslot") is not None:
            s += "/" + f["subslot"]
        if f.get("slotop") == "=":
            s += "="
    elif f.get("slotop"):
        s += ":" + f["slotop"]
    if f.get("repo") is not None:
        s += "::" + f["repo"]
    if f.get("use") is not None:
        s += "[" + ",".join(f["use"]) + "]"
    return s


# ---------------------------------------------------------------- random objects
def random_cpv(rng, versioned=True, small=True):
    f = {"cat": rng.choice(CATS), "pkg": rng.choice(PKGS), "ver": None, "rev": ""}
    if versioned:
        f["ver"], f["rev"] = gv.random_version(rng, small=small)
    return f


def random_use(rng):
    n = rng.choice([1, 1, 2, 2, 3])
    flags = rng.sample(FLAGS, n)
    return [rng.choice(USE_FORMS) % fl for fl in flags]


def random_atom(rng, small=True):
    op = rng.choice(OPS)
    f = random_cpv(rng, versioned=bool(op), small=small)
    if op == "~":
        f["rev"] = ""
    f.update(blocker=rng.choice(BLOCKERS), op=op, slot=None, subslot=None, slotop=None, repo=None, use=None,
             negate_vers=False)
    r = rng.random()
    if r < 0.45:
        f["slot"] = rng.choice(SLOTS)
        if rng.random() < 0.5:
            f["subslot"] = rng.choice(SUBSLOTS)
        if rng.random() < 0.3:
            f["slotop"] = "="
    elif r < 0.55:
        f["slotop"] = rng.choice(["=", "*"])
    if rng.random() < 0.25:
        f["repo"] = rng.choice(REPOS)
    if rng.random() < 0.4:
        f["use"] = random_use(rng)
    if op and rng.random() < 0.1:
        f["negate_vers"] = True
    return f


# ---------------------------------------------------------------- respellings (numerically equal, text differs)
_VER = re.compile(r"^(\d+)((?:\.\d+)*)([a-z]?)((?:_(?:alpha|beta|pre|rc|p)\d*)*)$")


def respell_version(rng, v):
    """A different text for the same PMS version where one exists, else v itself."""
    m = _VER.match(v)
    first, rest, letter, suff = m.group(1), m.group(2), m.group(3), m.group(4)
    comps = rest.split(".")[1:] if rest else []
    sfx = re.findall(r"_([a-z]+)(\d*)", suff)
    options = ["first"]
    if any(c.startswith("0") for c in comps):
        options.append("comp")
    if sfx:
        options.append("suffix")
    which = rng.choice(options)
    if which == "first":
        first = first[1:] if (first.startswith("0") and len(first) > 1 and rng.random() < 0.5) else "0" + first
    elif which == "comp":
        idx = rng.choice([i for i, c in enumerate(comps) if c.startswith("0")])
        c = comps[idx]
        # components with a leading zero compare with trailing zeros stripped
        if c.endswith("0") and len(c) > 1 and rng.random() < 0.5:
            c = c[:-1]
        else:
            c = c + "0"
        comps[idx] = c
    else:
        idx = rng.randrange(len(sfx))
        name, num = sfx[idx]
        if num == "":
            num = rng.choice(["0", "00"])
        elif int(num) == 0:
            num = rng.choice(["", "0" + num])
        else:
            num = num[1:] if (num.startswith("0") and rng.random() < 0.5) else "0" + num
        sfx[idx] = (name, num)
    return first + "".join("." + c for c in comps) + letter + "".join("_%s%s" % s for s in sfx)


def respell_revision(rng, r):
    if r in ("", "0", "00"):
        return rng.choice([x for x in ("", "0", "00") if x != r])
    return r[1:] if (r.startswith("0") and rng.random() < 0.5) else "0" + r


def lookalike_cpv(rng, f):
    """(g, label): same package version, other spelling."""
    g = dict(f)
    if f["ver"] is None:
        return g, "identical"
    if rng.random() < 0.6:
        g["ver"] = respell_version(rng, f["ver"])
        lab = "ver-respelled"
    else:
        g["rev"] = respell_revision(rng, f["rev"])
        lab = "rev-respelled"
    return g, lab


def one_attr_cpv(rng, f):
    g = dict(f)
    c = rng.randrange(4)
    if c == 0:
        g["cat"] = rng.choice([x for x in CATS if x != f["cat"]])
        return g, "cat"
    if c == 1:
        g["pkg"] = rng.choice([x for x in PKGS if x != f["pkg"]])
        return g, "pkg"
    if f["ver"] is None:
        g["pkg"] = rng.choice([x for x in PKGS if x != f["pkg"]])
        return g, "pkg"
    if c == 2:
        g["ver"], g["rev"] = gv.mutate_version(rng, f["ver"], f["rev"])
        return g, "ver-mutated"
    g["rev"] = rng.choice([x for x in gv.REVS if x != f["rev"]])
    return g, "rev"


ATOM_EDITS = ["identical", "slot-respell", "subslot-respell", "use-reorder", "blocker-strength", "ver-respelled", "rev-respelled", "subslot", "slotop",
              "slot", "repo", "use-token", "use-default", "blocker", "op", "negate_vers", "ver-mutated", "cat", "pkg",
              "use-dup"]


def edit_atom(rng, f, edit):
    """Return (g, applied_label); g differs from f by the named edit when applicable, else by a fallback edit.

    `f` may be adjusted in place when the edit needs a feature the base lacks (use-reorder needs two USE tokens)."""
    g = dict(f)
    if g.get("use") is not None:
        g["use"] = list(g["use"])
    if edit == "identical":
        return g, edit
    if edit == "use-reorder":
        if not g["use"] or len(set(g["use"])) < 2:
            # the base needs two distinct tokens: adjust the base itself (in place) first
            f["use"] = [rng.choice(USE_FORMS[:6]) % fl for fl in rng.sample(FLAGS, 2)]
            g["use"] = list(f["use"])
        u = list(g["use"])
        while u == g["use"]:
            rng.shuffle(u)
        g["use"] = u
        return g, edit
    if edit == "blocker-strength":
        if not f["blocker"]:
            f["blocker"] = "!"  # adjust the base in place: the edit needs a blocker
        g["blocker"] = "!!" if f["blocker"] != "!!" else "!"
        return g, edit
    if edit in ("ver-respelled", "rev-respelled", "ver-mutated") and f["ver"] is None:
        edit = "slot"
    if edit == "ver-respelled":
        g["ver"] = respell_version(rng, f["ver"])
        return g, edit
    if edit == "rev-respelled":
        if f["op"] == "~":
            g["ver"] = respell_version(rng, f["ver"])
            return g, "ver-respelled"
        g["rev"] = respell_revision(rng, f["rev"])
        return g, edit
    if edit == "ver-mutated":
        v, r = gv.mutate_version(rng, f["ver"], f["rev"])
        if f["op"] == "~":
            r = ""
        g["ver"], g["rev"] = v, r
        return g, edit
    if edit in ("slot-respell", "subslot-respell"):
        # same number, other spelling (leading zeros); the base gets a numeric value first (adjusted in place)
        which = "slot" if edit == "slot-respell" else "subslot"
        if f.get("slot") is None:
            f["slot"] = g["slot"] = rng.choice(["0", "1", "9", "10"])
            if f.get("slotop") == "*":
                f["slotop"] = g["slotop"] = None
        if not (f.get(which) or "").isdigit():
            f[which] = g[which] = rng.choice(["0", "1", "2", "9", "10", "01"])
        v = f[which]
        g[which] = v[1:] if (v.startswith("0") and len(v) > 1 and rng.random() < 0.5) else "0" + v
        return g, edit
    if edit == "subslot":
        if g["slot"] is None:
            g["slot"] = rng.choice(SLOTS)
            if g["slotop"] == "*":
                g["slotop"] = None
        g["subslot"] = rng.choice([x for x in SUBSLOTS + [None] if x != f.get("subslot")])
        return g, edit
    if edit == "slotop":
        if g["slot"] is None:
            g["slotop"] = rng.choice([x for x in ("=", "*", None) if x != f["slotop"]])
        else:
            g["slotop"] = None if f["slotop"] == "=" else "="
        return g, edit
    if edit == "slot":
        if f["slot"] is None:
            g["slot"] = rng.choice(SLOTS)
            if g["slotop"] == "*":
                g["slotop"] = None
        else:
            g["slot"] = rng.choice([x for x in SLOTS if x != f["slot"]])
        return g, edit
    if edit == "repo":
        g["repo"] = rng.choice([x for x in REPOS + [None] if x != f["repo"]])
        return g, edit
    if edit == "use-token":
        if not g["use"]:
            g["use"] = random_use(rng)
        else:
            i = rng.randrange(len(g["use"]))
            fl = re.sub(r"[^a-z]", "", g["use"][i])
            g["use"][i] = rng.choice([x for x in USE_FORMS if x % fl != g["use"][i]]) % fl
        return g, edit
    if edit == "use-default":
        if not g["use"]:
            g["use"] = [rng.choice(["%s(+)", "-%s(+)"]) % rng.choice(FLAGS)]
            return g, "use-token"
        i = rng.randrange(len(g["use"]))
        t = g["use"][i]
        if "(+)" in t:
            g["use"][i] = t.replace("(+)", "(-)")
        elif "(-)" in t:
            g["use"][i] = t.replace("(-)", "(+)")
        else:
            m = re.match(r"^([!-]?)([a-z]+)([?=]?)$", t)
            g["use"][i] = m.group(1) + m.group(2) + "(+)" + m.group(3)
        return g, edit
    if edit == "use-dup":
        if not g["use"]:
            g["use"] = [rng.choice(FLAGS)]
        g["use"] = g["use"] + [g["use"][0]]
        return g, edit
    if edit == "blocker":
        g["blocker"] = rng.choice([x for x in ("", "!", "!!") if x != f["blocker"]])
        if {g["blocker"], f["blocker"]} == {"!", "!!"}:
            return g, "blocker-strength"
        return g, edit
    if edit == "op":
        if f["ver"] is None:
            g["op"] = rng.choice(OPS[1:])
            g["ver"], g["rev"] = gv.random_version(rng, small=True)
        else:
            g["op"] = rng.choice([x for x in OPS[1:] if x != f["op"]])
        if g["op"] == "~":
            g["rev"] = ""
        return g, edit
    if edit == "negate_vers":
        g["negate_vers"] = not f["negate_vers"]
        return g, edit
    if edit == "cat":
        g["cat"] = rng.choice([x for x in CATS if x != f["cat"]])
        return g, edit
    if edit == "pkg":
        g["pkg"] = rng.choice([x for x in PKGS if x != f["pkg"]])
        return g, edit
    raise ValueError(edit)
