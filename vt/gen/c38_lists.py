"""Generator of hostile-but-valid package-list texts for C38 (all randomness from the rng passed in)."""

CATS = ("dev-libs", "sys-apps", "app-misc", "dev-python", "x11-libs")
NAMES = ("foo", "bar", "baz-qux", "libx", "gtk+", "a", "py_mod", "foo-bar-baz")
VERS = ("1", "1.2", "1.2.3_p1-r2", "0.9_rc1", "20240101", "2.0-r1", "1.0b", "3_alpha2")
SLOTS = ("0", "2", "3.11", "0/2")
KEYWORDS = ("amd64", "x86", "~arm64", "~ppc", "hppa", "riscv", "~amd64-linux", "sparc", "amd64#x")
SUGGEST = ("alpha", "arm", "arm64", "~hppa", "ppc64", "~riscv", "~x64-macos")
GAPS = (" ", " ", " ", "  ", "\t", "   ", " \t ", "        ")
LEADS = ("", "", "", "", "  ", "\t", "   ", " \t")
TRAILS = ("", "", "", " ", "  ", "\t", " \t")
COMMENTS = ("# note", "#", "#x", "# keep * and ^ here", "## double", "# tab\there", "# trailing  ", "#amd64 x86",
            "# a # b")
BLANKS = ("", "", " ", "   ", "\t", " \t ")
EOLS = ("\n", "\n", "\n", "\r\n")


def spec(rng):
    cat, name = rng.choice(CATS), rng.choice(NAMES)
    form = rng.randrange(10)
    v = rng.choice(VERS)
    if form < 3:
        s = "%s/%s" % (cat, name)
    elif form < 6:
        s = "%s/%s-%s" % (cat, name, v)
    elif form < 8:
        s = "=%s/%s-%s" % (cat, name, v)
    else:
        op = rng.choice((">=", "~", "<", "<=", ">"))
        if op == "~":
            v = v.split("-r")[0]  # '~' does not take a revision
        s = "%s%s/%s-%s" % (op, cat, name, v)
    if rng.random() < 0.2:
        s += ":" + rng.choice(SLOTS)
    return s


def keywords(rng, sentinel_p, first=False):
    n = rng.choice((0, 1, 1, 1, 2, 2, 3, 4))
    out = []
    for _ in range(n):
        r = rng.random()
        if r < sentinel_p and ("*" in out or "^" in out) and rng.random() < 0.8:
            r = 1.0  # mostly one sentinel per line
        if r < sentinel_p * 0.55:
            out.append("*")
        elif r < sentinel_p:
            out.append("*" if first and rng.random() < 0.8 else "^")
        elif r < sentinel_p + 0.07:
            out.append("-")
        else:
            out.append(rng.choice(KEYWORDS))
    return out


def package_line(rng, sentinel_p, specs=None):
    sp = rng.choice(specs) if specs and rng.random() < 0.15 else spec(rng)
    kws = keywords(rng, sentinel_p, first=not specs)
    raw = rng.choice(LEADS) + sp
    for kw in kws:
        raw += rng.choice(GAPS) + kw
    trail = rng.choice(TRAILS)
    if rng.random() < 0.35:
        raw += (trail or rng.choice((" ", "\t", "  "))) + rng.choice(COMMENTS)
    else:
        raw += trail
    return sp, raw


def text(rng, max_lines=9):
    """-> (text, [spec tokens])"""
    n = rng.choice((0, 1, 1, 2, 3, 4, 5, 6, max_lines))
    sentinel_p = rng.choice((0.0, 0.15, 0.3, 0.3, 0.5, 0.8))
    parts = []
    specs = []
    for i in range(n):
        r = rng.random()
        if r < 0.10:
            raw = rng.choice(BLANKS)
        elif r < 0.20:
            raw = rng.choice(LEADS) + rng.choice(COMMENTS)
        else:
            sp, raw = package_line(rng, sentinel_p, specs)
            specs.append(sp)
        eol = rng.choice(EOLS)
        if i == n - 1 and rng.random() < 0.4:
            eol = ""
        parts.append(raw + eol)
    return "".join(parts), specs


def suggestions(rng, canon_specs):
    out = {}
    for c in canon_specs:
        n = rng.choice((0, 1, 1, 1, 2, 2, 3, 4))
        out[c] = rng.sample(SUGGEST, n)
    return out


def build_entries(rng):
    n = rng.choice((0, 1, 2, 3, 5, 8))
    out = []
    for _ in range(n):
        kws = keywords(rng, rng.choice((0.0, 0.3)))
        out.append([spec(rng), kws])
    return out
