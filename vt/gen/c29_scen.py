"""Scenario generator + on-disk builder for C29 (package database crash consistency).

A scenario is a plain JSON-able dict (so a witness carries everything replay() needs):

    {"name": str, "repo": "vdb"|"binpkg", "op": "install"|"replace"|"uninstall",
     "pre":  [pkgspec, ...]     packages present in the target repository before the operation
     "old":  "cat/pf" | None    the package that is replaced / removed (one of `pre`)
     "new":  pkgspec | None     the package that is installed (written to a *source* vdb, read by pkgcore)
     "needed": bool             NEEDED / NEEDED.ELF.2 present in the package's build tmpdir
     "installed": [[cpv, slot, subslot], ...]   what the stub domain reports for ':=' slot-operator deps}

    pkgspec = {"cat", "pf", "slot", "eapi", "desc", "use", "iuse", "depend", "rdepend", "files": [[kind, path, target?]...],
               "env_lines": int, "omit": [file names left out], "extra": {FILE: text}}

The package directories are written by hand (the way any package manager lays out /var/db/pkg); nothing
of pkgcore is used to create them.
"""

import bz2
import hashlib
import os
import shutil
from os.path import join as pjoin

OLD_MTIME = 1_600_000_000


def pkgspec(cat, pf, slot="0", eapi="8", desc=None, use="a b", iuse="a b c", depend=">=dev-libs/x-1",
            rdepend="dev-libs/y", files=None, env_lines=3, omit=(), extra=None):
    if files is None:
        files = [["dir", "/usr"], ["dir", "/usr/bin"], ["obj", "/usr/bin/" + pf]]
    return {"cat": cat, "pf": pf, "slot": slot, "eapi": eapi, "desc": desc or ("description of %s" % pf),
            "use": use, "iuse": iuse, "depend": depend, "rdepend": rdepend, "files": files,
            "env_lines": env_lines, "omit": list(omit), "extra": dict(extra or {})}


def cpv(spec):
    return "%s/%s" % (spec["cat"], spec["pf"])


def _contents_text(spec):
    lines = []
    for ent in spec["files"]:
        kind, path = ent[0], ent[1]
        if kind == "dir":
            lines.append("dir %s" % path)
        elif kind == "obj":
            md5 = hashlib.md5((spec["pf"] + path).encode()).hexdigest()
            lines.append("obj %s %s %d" % (path, md5, OLD_MTIME + len(path)))
        elif kind == "sym":
            lines.append("sym %s -> %s %d" % (path, ent[2], OLD_MTIME + len(path)))
    return "\n".join(lines) + "\n"


def env_bytes(spec):
    out = ['declare -x PF="%s"' % spec["pf"], 'declare -x SLOT="%s"' % spec["slot"]]
    for i in range(spec["env_lines"]):
        out.append('declare -x VAR_%d="%s"' % (i, hashlib.sha1(("%s/%d" % (spec["pf"], i)).encode()).hexdigest()))
    out.append("pkg_setup() { :; }")
    return ("\n".join(out) + "\n").encode()


def write_vdb_pkg(root, spec):
    """Write one installed-package directory by hand."""
    d = pjoin(root, spec["cat"], spec["pf"])
    os.makedirs(d)
    files = {
        "CONTENTS": _contents_text(spec),
        "SLOT": spec["slot"] + "\n",
        "EAPI": spec["eapi"] + "\n",
        "USE": spec["use"] + "\n",
        "IUSE": spec["iuse"] + "\n",
        "DEPEND": spec["depend"] + "\n",
        "RDEPEND": spec["rdepend"] + "\n",
        "KEYWORDS": "~amd64 x86\n",
        "DESCRIPTION": spec["desc"] + "\n",
        "HOMEPAGE": "https://example.org/%s\n" % spec["pf"],
        "LICENSE": "GPL-2\n",
        "CHOST": "x86_64-pc-linux-gnu\n",
        "CFLAGS": "-O2 -pipe\n",
        "DEFINED_PHASES": "install setup\n",
        "repository": "gentoo\n",
        "COUNTER": "12345\n",
        spec["pf"] + ".ebuild": "EAPI=%s\nSLOT=\"%s\"\nDESCRIPTION=\"%s\"\n" % (spec["eapi"], spec["slot"], spec["desc"]),
    }
    files.update(spec["extra"])
    for name in spec["omit"]:
        files.pop(name, None)
    for name, text in files.items():
        with open(pjoin(d, name), "w") as f:
            f.write(text)
    with open(pjoin(d, "environment.bz2"), "wb") as f:
        f.write(bz2.compress(env_bytes(spec)))
    for name in os.listdir(d):
        os.utime(pjoin(d, name), (OLD_MTIME, OLD_MTIME))
    os.utime(d, (OLD_MTIME, OLD_MTIME))
    return d


def write_image(root, spec):
    """The package's files as a build image (what a binpkg is packed from): root/<cat>/<pf>/<path>."""
    base = pjoin(root, spec["cat"], spec["pf"])
    os.makedirs(base, exist_ok=True)
    for ent in spec["files"]:
        kind, path = ent[0], ent[1]
        p = pjoin(base, path.lstrip("/"))
        if kind == "dir":
            os.makedirs(p, exist_ok=True)
        elif kind == "obj":
            os.makedirs(os.path.dirname(p), exist_ok=True)
            with open(p, "w") as f:
                f.write("content of %s in %s\n" % (path, spec["pf"]) * (1 + len(path) % 5))
            os.utime(p, (OLD_MTIME, OLD_MTIME))
        elif kind == "sym":
            os.makedirs(os.path.dirname(p), exist_ok=True)
            os.symlink(ent[2], p)
    return base


def build_template(template, scen):
    """template/{src,repo,pmtmp}: source vdb (new package), target repository (pre packages), build tmpdir."""
    if os.path.exists(template):
        shutil.rmtree(template)
    src, repo, pmtmp = pjoin(template, "src"), pjoin(template, "repo"), pjoin(template, "pmtmp")
    for d in (src, repo, pmtmp):
        os.makedirs(d)
    if scen["new"] is not None:
        write_vdb_pkg(src, scen["new"])
        if scen.get("needed"):
            t = pjoin(pmtmp, scen["new"]["cat"], scen["new"]["pf"], "temp")
            os.makedirs(t)
            with open(pjoin(t, "NEEDED"), "w") as f:
                f.write("/usr/bin/x libc.so.6\n")
            with open(pjoin(t, "NEEDED.ELF.2"), "w") as f:
                f.write("X86_64;/usr/bin/x;;;libc.so.6\n")
    if scen["repo"] == "vdb":
        for spec in scen["pre"]:
            write_vdb_pkg(repo, spec)
    else:
        # binpkg repositories: the pre packages are written to a staging vdb + an image directory each; the caller
        # packs them with an uninjected run of the real install operation (there is no independent tbz2/xpak writer
        # here; the packed files become the *old* state, which is observed, not assumed)
        stage = pjoin(template, "stage")
        os.makedirs(stage)
        for spec in scen["pre"]:
            write_vdb_pkg(stage, spec)
            write_image(pjoin(template, "image"), spec)
        if scen["new"] is not None:
            write_image(pjoin(template, "image"), scen["new"])
    return template


# ----------------------------------------------------------------------------------------------- scenarios

def _files(rng, pf, n):
    out = [["dir", "/usr"], ["dir", "/usr/bin"], ["dir", "/usr/share"], ["dir", "/usr/share/" + pf]]
    for i in range(n):
        r = rng.random()
        if r < 0.7:
            out.append(["obj", "/usr/share/%s/f%d" % (pf, i)])
        elif r < 0.9:
            out.append(["sym", "/usr/share/%s/l%d" % (pf, i), "f0"])
        else:
            out.append(["obj", "/usr/bin/%s-%d" % (pf, i)])
    return out


def base_scenarios():
    """One fixed scenario per operation kind (quick tier)."""
    by1 = pkgspec("dev-util", "bar-3.1", slot="3")
    by2 = pkgspec("sys-apps", "baz-0.9-r2")
    old = pkgspec("dev-util", "foo-1.0", desc="the OLD foo", use="a", rdepend="dev-libs/y")
    same_new = pkgspec("dev-util", "foo-1.0", desc="the NEW build of foo", use="a b", rdepend="dev-libs/y:=",
                       files=[["dir", "/usr"], ["dir", "/usr/bin"], ["obj", "/usr/bin/foo-1.0"], ["obj", "/usr/bin/foo-extra"]],
                       env_lines=6)
    newer = pkgspec("dev-util", "foo-2.0", slot="0/2", desc="foo two", rdepend="dev-libs/y:= dev-libs/z",
                    files=[["dir", "/usr"], ["dir", "/usr/bin"], ["obj", "/usr/bin/foo-2.0"], ["sym", "/usr/bin/foo", "foo-2.0"]])
    inst = [["dev-libs/y-1.0", "2", "3"]]
    solo_old = pkgspec("app-misc", "solo-1", desc="only package of its category")
    return [
        {"name": "install-fresh-category", "repo": "vdb", "op": "install", "pre": [by2], "old": None, "new": newer,
         "needed": True, "installed": inst},
        {"name": "install-next-to-sibling", "repo": "vdb", "op": "install", "pre": [by1, by2], "old": None, "new": same_new,
         "needed": False, "installed": inst},
        {"name": "replace-same-version", "repo": "vdb", "op": "replace", "pre": [old, by1, by2], "old": cpv(old),
         "new": same_new, "needed": False, "installed": inst},
        {"name": "replace-new-version", "repo": "vdb", "op": "replace", "pre": [old, by1], "old": cpv(old), "new": newer,
         "needed": True, "installed": inst},
        {"name": "uninstall-with-sibling", "repo": "vdb", "op": "uninstall", "pre": [old, by1, by2], "old": cpv(old),
         "new": None, "needed": False, "installed": inst},
        {"name": "uninstall-last-of-category", "repo": "vdb", "op": "uninstall", "pre": [solo_old, by1], "old": cpv(solo_old),
         "new": None, "needed": False, "installed": inst},
    ]


def random_scenario(rng, idx, repo="vdb"):
    """Thorough tier: varied EAPIs (different tracked attribute sets), slots, CONTENTS sizes, NEEDED files,
    missing optional files in the source package, siblings in the same category."""
    op = ["install", "replace", "replace", "uninstall"][idx % 4]
    cat = rng.choice(["dev-util", "app-misc", "sys-libs"])
    pn = rng.choice(["foo", "lib-x", "tool+", "a_b"])
    v_old = rng.choice(["1.0", "0.9-r1", "1.2.3_p4"])
    v_new = v_old if (op == "replace" and rng.random() < 0.5) else rng.choice(["2.0", "1.0-r1", "3_rc1"])
    if v_new == v_old and op != "replace":
        v_new = "9.9"
    eapi_old, eapi_new = rng.choice(["5", "6", "7", "8"]), rng.choice(["5", "6", "7", "8"])
    slot = rng.choice(["0", "2", "1.2/3", "stable"])
    inst = [["dev-libs/y-1.0", "2", "3"]]
    optional = ["HOMEPAGE", "LICENSE", "CFLAGS", "CHOST", "KEYWORDS", "DEFINED_PHASES", "repository", "IUSE"]
    omit = [x for x in optional if rng.random() < 0.25]
    extra = {}
    if rng.random() < 0.5:
        extra["INHERITED"] = "toolchain-funcs multilib\n"
    if rng.random() < 0.5:
        extra["PDEPEND"] = "app-misc/late\n"
    if eapi_new in ("7", "8") and rng.random() < 0.6:
        extra["BDEPEND"] = "sys-devel/make\n"
    if eapi_new == "8" and rng.random() < 0.5:
        extra["IDEPEND"] = "app-misc/inst\n"
    pf_old, pf_new = "%s-%s" % (pn, v_old), "%s-%s" % (pn, v_new)
    old = pkgspec(cat, pf_old, slot=slot, eapi=eapi_old, desc="old build %d" % idx, use="a",
                  files=_files(rng, pf_old, rng.randrange(1, 12)), env_lines=rng.randrange(1, 40))
    new = pkgspec(cat, pf_new, slot=slot if rng.random() < 0.7 else "7", eapi=eapi_new, desc="new build %d" % idx,
                  use=rng.choice(["", "a", "a b"]), rdepend=rng.choice(["dev-libs/y", "dev-libs/y:=", "a? ( dev-libs/y:= )"]),
                  files=_files(rng, pf_new, rng.randrange(1, 25)), env_lines=rng.randrange(1, 400), omit=omit, extra=extra)
    pre = []
    if op != "install":
        pre.append(old)
    if rng.random() < 0.6:
        pre.append(pkgspec(cat, "sibling-1.1", slot="1"))
    if rng.random() < 0.6:
        pre.append(pkgspec("net-misc", "other-4", eapi="6"))
    if op == "install" and rng.random() < 0.4:
        # another version of the same package already present (different slot): a plain install next to it
        pre.append(pkgspec(cat, "%s-0.1" % pn, slot="old", desc="older slot"))
    return {"name": "rand-%d-%s" % (idx, op), "repo": repo, "op": op, "pre": pre,
            "old": cpv(old) if op != "install" else None, "new": None if op == "uninstall" else new,
            "needed": rng.random() < 0.4, "installed": inst}


def binpkg_scenarios():
    """Binary-package repository: install into a new category, replace the same version, replace by a different
    version and by a different revision (different file names), uninstall (last of its category / with a sibling)."""
    by = pkgspec("dev-util", "bar-3.1", slot="3")
    old = pkgspec("dev-util", "foo-1.0", desc="the OLD foo", use="a")
    same_new = pkgspec("dev-util", "foo-1.0", desc="the NEW build of foo", use="a b",
                       files=[["dir", "/usr"], ["dir", "/usr/bin"], ["obj", "/usr/bin/foo-1.0"], ["obj", "/usr/bin/foo-extra"],
                              ["sym", "/usr/bin/foo", "foo-1.0"]], env_lines=6)
    newer = pkgspec("app-misc", "solo-2.0", slot="0/2", desc="solo two")
    # replace ACROSS file names: the old and the new package live in different .tbz2 files
    newer_foo = pkgspec("dev-util", "foo-2.0", slot="0/2", desc="foo two", use="b",
                        files=[["dir", "/usr"], ["dir", "/usr/bin"], ["obj", "/usr/bin/foo-2.0"], ["sym", "/usr/bin/foo", "foo-2.0"]])
    rev_foo = pkgspec("dev-util", "foo-1.0-r1", desc="foo 1.0 revision 1", use="a b", env_lines=5)
    solo_old = pkgspec("app-misc", "solo-1", desc="only package of its category")
    return [
        {"name": "binpkg-install-new-category", "repo": "binpkg", "op": "install", "pre": [by], "old": None, "new": newer,
         "needed": False, "installed": []},
        {"name": "binpkg-replace-same-version", "repo": "binpkg", "op": "replace", "pre": [old, by], "old": cpv(old),
         "new": same_new, "needed": False, "installed": []},
        # rebuild of the same cpv whose .tbz2 carries an mtime in the SAME SECOND as the replaced one (immediate
        # rebuild): the Packages cache cannot tell the files apart by int(mtime), so between the rename and the cache
        # commit a fresh view must still not mix cached keys of the old build with the xpak of the new one
        {"name": "binpkg-replace-same-version-same-second", "repo": "binpkg", "op": "replace", "pre": [old, by],
         "old": cpv(old), "new": same_new, "needed": False, "installed": [], "same_second": True},
        {"name": "binpkg-replace-new-version", "repo": "binpkg", "op": "replace", "pre": [old, by], "old": cpv(old),
         "new": newer_foo, "needed": False, "installed": []},
        {"name": "binpkg-replace-new-revision", "repo": "binpkg", "op": "replace", "pre": [old], "old": cpv(old),
         "new": rev_foo, "needed": False, "installed": []},
        {"name": "binpkg-uninstall-last-of-category", "repo": "binpkg", "op": "uninstall", "pre": [solo_old, by],
         "old": cpv(solo_old), "new": None, "needed": False, "installed": []},
        {"name": "binpkg-uninstall-with-sibling", "repo": "binpkg", "op": "uninstall", "pre": [old, by], "old": cpv(old),
         "new": None, "needed": False, "installed": []},
    ]
