"""Materialise a generated resolver problem (vt/gen/c15_problems.py) as real pkgcore repositories and
run the real resolver on it, observing it through wrappers on the real merge_plan methods.
Shared by C15 and C16.  pkgcore is imported inside functions."""

import signal
import traceback

from . import c15_problems as gp

KINDS = ("upgrade", "min_install", "empty_tree")


class ResolveTimeout(BaseException):
    """Raised by the interval timer; BaseException so that no `except Exception` swallows it."""


def build_tree(specs, livefs, repo_id):
    from pkgcore.repository.util import SimpleTree
    from pkgcore.test.misc import FakePkg

    cache = {}
    cpv_dict = {}
    for s in specs:
        cpv_dict.setdefault(gp.CATEGORY, {}).setdefault(s["name"], []).append(s["ver"])

    def pkg_klass(cat, pkg, ver):
        # one object per cpv and repository, like a real repository's instance cache
        return cache[(cat, pkg, ver)]

    tree = SimpleTree(cpv_dict, pkg_klass=pkg_klass, livefs=livefs, repo_id=repo_id)
    for s in specs:
        data = {cls: gp.render_deps(s["deps"].get(cls, ())) for cls in gp.DEP_CLASSES}
        pkg = FakePkg(gp.cpvstr(s), eapi="8", slot=s["slot"], repo=tree, data=data)
        if livefs:
            # packages of a real installed database are built packages (ebuild_built.package.built = True): the
            # resolver does not walk their DEPEND/BDEPEND (merge_plan.process_built_depends is off by default)
            object.__setattr__(pkg, "built", True)
        cache[(gp.CATEGORY, s["name"], s["ver"])] = pkg
    return tree


def make_resolver(kind, vdb, src, **kwds):
    from pkgcore.ebuild import resolver

    if kind == "upgrade":
        return resolver.upgrade_resolver([vdb], [src], **kwds)
    if kind == "min_install":
        return resolver.min_install_resolver([vdb], [src], **kwds)
    if kind == "empty_tree":
        return resolver.upgrade_resolver([vdb], [src], resolver_cls=resolver.empty_tree_merge_plan, **kwds)
    raise ValueError(kind)


def pkg_view(pkg):
    return {"name": pkg.package, "ver": pkg.fullver, "slot": pkg.slot, "livefs": bool(pkg.repo.livefs)}


def ops_view(res):
    out = []
    for op in res.state.iter_ops(True):
        old = getattr(op, "old_pkg", None)
        out.append({"desc": op.desc, "pkg": pkg_view(op.pkg), "old": pkg_view(old) if old is not None else None})
    return out


# ---------------------------------------------------------------------------------------------- observation
#
# Wrappers on the real merge_plan methods.  They never change arguments or results; they only append to
# `_TRACE` (when a run is being observed) how each dependency atom came to be regarded as satisfied.  The
# trace is NOT used by the oracle (which looks at the reported operations only); it is attached to
# witnesses so that classify() can name the mechanism of a violation.

_TRACE = None          # list of events while a run is observed
_MARKS = []            # one entry per active _rec_add_atom invocation: {"frame": resolver_frame|None}
_INSTALLED = False
_NCALLS = [0]
MAX_TRACE = 4000


def _cur(frame):
    try:
        p = frame.choices.matches_cur
    except Exception:
        return None
    if p is None:
        return None
    try:
        return {"cpv": p.cpvstr, "livefs": bool(p.repo.livefs)}
    except Exception:
        return None


def install_observers():
    global _INSTALLED
    if _INSTALLED:
        return
    from pkgcore.resolver import plan

    orig_rec = plan.merge_plan._rec_add_atom
    orig_viable = plan.merge_plan._viable
    orig_cycles = plan.merge_plan.check_for_cycles
    orig_blocker = plan.merge_plan.process_blocker

    def process_blocker(self, stack, choices, blocker, mode, atom):
        pre = None
        if _TRACE is not None:
            try:
                # pure query: what the plan already holds that the blocker matches (decides whether
                # _ensure_livefs_is_loaded looks at the installed packages at all)
                pre = [[p.cpvstr, bool(p.repo.livefs)] for p in self.state.match_atom(blocker)]
            except Exception:
                pre = None
        ret = orig_blocker(self, stack, choices, blocker, mode, atom)
        if _TRACE is not None and len(_TRACE) < MAX_TRACE:
            try:
                p = choices.matches_cur
                _TRACE.append({"atom": str(blocker), "mode": mode, "ok": not ret,
                               "parent": {"cpv": p.cpvstr, "livefs": bool(p.repo.livefs)} if p is not None else None,
                               "pkg": None, "how": "blocker", "serial": None, "plan_matched_before": pre,
                               "parent_serial": _MARKS[-1]["serial"] if _MARKS else None})
            except Exception:
                pass
        return ret

    def _rec_add_atom(self, atom, stack, dbs, mode="none", drop_cycles=False):
        if _TRACE is None:
            return orig_rec(self, atom, stack, dbs, mode=mode, drop_cycles=drop_cycles)
        _NCALLS[0] += 1
        mark = {"frame": None, "presolved": False, "cycle": None, "serial": _NCALLS[0], "atom": str(atom),
                "nested_pkg": None}
        parent_frame = stack[-1] if len(stack) else None
        parent = _cur(parent_frame) if parent_frame is not None else None
        parent_serial = None
        for m in reversed(_MARKS):
            if m["frame"] is parent_frame and parent_frame is not None:
                parent_serial = m["serial"]
                break
        _MARKS.append(mark)
        try:
            ret = orig_rec(self, atom, stack, dbs, mode=mode, drop_cycles=drop_cycles)
        finally:
            _MARKS.pop()
        try:
            fr = mark["frame"]
            how = ("slot-cycle" if mark["cycle"] == "assumed" else "presolved" if mark["presolved"] else
                   "vdb-limited" if mark["cycle"] == "vdb" else "chosen")
            pkg = None
            if not ret:
                pkg = mark["nested_pkg"] if how == "vdb-limited" else (_cur(fr) if fr is not None else None)
                if _MARKS and _MARKS[-1]["atom"] == mark["atom"]:
                    _MARKS[-1]["nested_pkg"] = pkg      # we are the vdb-limited re-run of the enclosing invocation
            if len(_TRACE) < MAX_TRACE:
                _TRACE.append({"atom": mark["atom"], "mode": mode, "ok": not ret, "parent": parent, "pkg": pkg,
                               "how": how, "serial": mark["serial"], "parent_serial": parent_serial})
        except Exception:
            pass
        return ret

    def _viable(self, stack, mode, atom, dbs, drop_cycles, limit_to_vdb):
        ret = orig_viable(self, stack, mode, atom, dbs, drop_cycles, limit_to_vdb)
        if _TRACE is not None and _MARKS and _MARKS[-1]["frame"] is None:
            try:
                _MARKS[-1]["frame"] = stack[-1]
                _MARKS[-1]["presolved"] = ret is True
            except Exception:
                pass
        return ret

    def check_for_cycles(self, stack, cur_frame):
        before = _NCALLS[0]
        ret = orig_cycles(self, stack, cur_frame)
        if _TRACE is not None and _MARKS:
            nested = _NCALLS[0] > before     # the "limit to vdb" branch re-enters _rec_add_atom
            for m in reversed(_MARKS):
                if m["frame"] is cur_frame:
                    if nested:
                        m["cycle"] = "vdb"
                    elif ret is None:
                        m["cycle"] = "assumed"      # treated as satisfied without choosing a package
                    elif ret is not True:
                        m["cycle"] = "failed"
                    break
        return ret

    plan.merge_plan._rec_add_atom = _rec_add_atom
    plan.merge_plan._viable = _viable
    plan.merge_plan.check_for_cycles = check_for_cycles
    plan.merge_plan.process_blocker = process_blocker
    _INSTALLED = True


def _short_tb(limit=6):
    tb = traceback.format_exc().strip().splitlines()
    frames = [ln.strip() for ln in tb if ln.strip().startswith("File ")]
    where = []
    for ln in frames[-limit:]:
        # File "/.../pkgcore/resolver/plan.py", line 336, in __init__
        try:
            path = ln.split('"')[1]
            rest = ln.split('"')[2]
            where.append(path.split("/src/")[-1].split("site-packages/")[-1]
                         + rest.replace(", line ", ":").replace(", in ", " "))
        except IndexError:
            where.append(ln)
    return where


def _recursion_signature(exc):
    """Describe the resolver stack at the time of a RecursionError: is it one dependency cycle repeated,
    and did the repeated frames move past their first candidate?"""
    tb = exc.__traceback__
    stack = None
    n_rec = 0
    while tb is not None:
        f = tb.tb_frame
        if f.f_code.co_name == "_rec_add_atom" and "stack" in f.f_locals and "choices" in f.f_code.co_varnames:
            n_rec += 1
            if stack is None:
                stack = f.f_locals.get("stack")
        tb = tb.tb_next
    if stack is None:
        return {"resolver_frames": 0}
    frames = []
    for fr in stack:
        try:
            n_insp = sum(1 for ev in fr.events if isinstance(ev, tuple) and ev and ev[0] == "inspecting")
            cur = _cur(fr)
            frames.append([str(fr.atom), fr.mode, cur["cpv"] if cur else None, n_insp])
        except Exception:
            frames.append(["?", "?", None, 0])
    period = None
    trim = 0
    keys = [f[:3] for f in frames]
    # the innermost frames have not reached the state of their predecessors yet (or walk some finite
    # branch): ignore up to 12 of them and look for a repetition of (atom, mode, candidate) below
    for trim in range(0, 13):
        fs = keys[:len(keys) - trim]
        for p in range(1, 9):
            if len(fs) >= 4 * p and fs[-p:] == fs[-2 * p:-p] == fs[-3 * p:-2 * p] == fs[-4 * p:-3 * p]:
                period = p
                break
        if period:
            break
    sig = {"resolver_frames": len(frames), "rec_add_atom_frames": n_rec, "period": period, "head": frames[:4]}
    # the most repeated (atom, mode, candidate) frames, with the furthest any of them got through its candidates
    counts = {}
    for f in frames:
        k = tuple(f[:3])
        c = counts.setdefault(k, [0, 0])
        c[0] += 1
        c[1] = max(c[1], f[3])
    top = sorted(counts.items(), key=lambda kv: -kv[1][0])[:3]
    sig["most_repeated"] = [[list(k), c[0], c[1]] for k, c in top]
    if period:
        cyc = frames[len(frames) - trim - 2 * period:len(frames) - trim - period]
        sig["cycle"] = cyc
        sig["cycle_moved_past_first_candidate"] = any(f[3] >= 2 for f in cyc)
    return sig


def run_problem(problem, kind, time_limit=20.0, resolver_kwds=None, trace=False):
    """see _run_problem; a timer that fires while a result is being assembled also counts as a timeout"""
    try:
        return _run_problem(problem, kind, time_limit, resolver_kwds, trace)
    except ResolveTimeout:
        return {"status": "timeout", "phase": "resolve", "ops": None, "exc": None, "where": None, "trace": None}


def _run_problem(problem, kind, time_limit=20.0, resolver_kwds=None, trace=False):
    """Returns {"status": "success"|"failure"|"crash"|"timeout", "phase": ..., "ops": [...], "exc": ..., "where": [...],
    "trace": [...]|None}"""
    global _TRACE
    from pkgcore.ebuild.atom import atom

    out = {"status": None, "phase": "build", "ops": None, "exc": None, "where": None, "trace": None}

    def on_alarm(signum, frame):
        raise ResolveTimeout()

    if trace:
        install_observers()
    old = signal.signal(signal.SIGALRM, on_alarm)
    signal.setitimer(signal.ITIMER_REAL, time_limit)
    try:
        try:
            # building the fixtures is harness work: failures here are harness errors, not verdicts
            vdb = build_tree(problem["installed"], True, "vdb")
            src = build_tree(problem["source"], False, "src")
            targets = [atom(gp.render_atom(t)) for t in problem["targets"]]
        except ResolveTimeout:
            out["status"] = "timeout"
            return out
        out["phase"] = "construct"
        if trace:
            _TRACE = []
            del _MARKS[:]
        try:
            res = make_resolver(kind, vdb, src, **(resolver_kwds or {}))
            out["phase"] = "resolve"
            ret = res.add_atoms(targets)
            out["phase"] = "read-ops"
            ops = ops_view(res)
        except ResolveTimeout:
            out["status"] = "timeout"
            return out
        except RecursionError as e:
            signal.setitimer(signal.ITIMER_REAL, 0)
            out.update(status="crash", exc="RecursionError", where=_short_tb())
            try:
                out["recursion"] = _recursion_signature(e)
            except Exception as e2:  # pragma: no cover
                out["recursion"] = {"error": repr(e2)}
            return out
        except Exception as e:
            signal.setitimer(signal.ITIMER_REAL, 0)
            out.update(status="crash", exc="%s: %s" % (type(e).__name__, str(e)[:300]), where=_short_tb())
            return out
        signal.setitimer(signal.ITIMER_REAL, 0)
        out["ops"] = ops
        out["status"] = "failure" if ret else "success"
        if trace:
            out["trace"] = _TRACE
        return out
    finally:
        signal.setitimer(signal.ITIMER_REAL, 0)
        signal.signal(signal.SIGALRM, old)
        _TRACE = None
        del _MARKS[:]
