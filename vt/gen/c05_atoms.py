"""Atom specs, version pools and witness universes for C05 (pure python, no pkgcore).

An atom spec is a dict: key, op ("" | < | <= | = | =* | >= | > | ~), ver (fullver text or None), slot, subslot,
slotop ("=" | "*" | None), repo, use (comma separated tokens or None), blocks ("" | "!" | "!!").
"""

import re

from ..ref import pms_version as ref
from . import versions as gv

OPS = ["<", "<=", "=", "=*", ">=", ">", "~"]

# boundary core: neighbours in the order, revisions, suffixes, letters, a longer-digit version and one pair of equal
# versions spelled differently (1.0 / 1.00)
CORE = ["1", "1-r1", "1-r2", "1-r10", "1.0", "1.0-r1", "1.00", "1.1", "1.10", "1.0.1", "2", "10", "1_alpha1", "1_p1",
        "1a", "0.9"]

USE_CHOICES = ["x", "-x", "x(+)", "x(-)", "-x(+)", "-x(-)", "y", "-y", "x,y", "x,-y", "-x,y(+)", "x(+),-y(-)",
               "-x(-),-y", "-x,-y(+)"]


def split(fv):
    return ref.split_fullver(fv)


def join(v, r):
    return v + ("-r" + r if r != "" else "")


_P_SUFFIXES = ["_alpha", "_alpha1", "_p", "_p1", "_rc1", ".0", ".1", "0", "1", "9", "99", "999", "a"]


_perturb_cache = {}


def perturb(fv):
    """Sorted list of the valid versions one small edit away from fv (memoised)."""
    res = _perturb_cache.get(fv)
    if res is None:
        res = sorted(_perturb(fv))
        if len(_perturb_cache) < 200000:
            _perturb_cache[fv] = res
    return res


def _perturb(fv):
    """Valid versions one small edit away from fv: the edits the implementation reasons about
    (append _alpha/_p, append digits, revision +-1 / digits appended to the revision, shorter prefix, next/previous
    last number)."""
    v, r = split(fv)
    out = set()

    def add(v2, r2):
        if ref.valid_version(v2) and (r2 == "" or r2.isdigit()):
            out.add(join(v2, r2))

    for r2 in ("", "1", "2"):
        add(v, r2)
    if r != "":
        add(v, str(int(r) + 1))
        if int(r) > 0:
            add(v, str(int(r) - 1))
        for d in ("0", "1", "9", "00", "99", "999"):
            add(v, r + d)
    for suf in _P_SUFFIXES:
        add(v + suf, "")
        add(v + suf, r)
    m = re.match(r"^(.*?)(_[a-z]+\d*)$", v)
    if m:
        add(m.group(1), "")
        add(m.group(1), r)
    m = re.match(r"^(.*\d)[a-z]$", v)
    if m:
        add(m.group(1), "")
    m = re.match(r"^(.*)\.\d+$", v)
    if m:
        add(m.group(1), "")
    m = re.match(r"^(.*?)(\d+)([a-z]?(?:_.*)?)$", v)
    if m:
        n = int(m.group(2))
        add(m.group(1) + str(n + 1) + m.group(3), "")
        add(m.group(1) + str(n + 1), "")
        if n > 0:
            add(m.group(1) + str(n - 1) + m.group(3), "")
            add(m.group(1) + str(n - 1), "")
    return out


_closure_cache = {}


def closure(fv, depth=2):
    """fv and everything reachable by at most `depth` perturbations."""
    k = (fv, depth)
    if k not in _closure_cache:
        seen = {fv}
        frontier = {fv}
        for _ in range(depth):
            nxt = set()
            for x in frontier:
                nxt.update(perturb(x))
            frontier = nxt - seen
            seen |= nxt
        _closure_cache[k] = seen
    return _closure_cache[k]


def widen(rng, endpoints, n):
    """n further versions around the endpoints: random perturbation chains of length 3-5 and random small edits."""
    out = set()
    endpoints = [e for e in endpoints if e] or ["1"]
    tries = 0
    while len(out) < n and tries < n * 4:
        tries += 1
        fv = rng.choice(endpoints)
        if rng.random() < 0.35:
            for _ in range(rng.choice([3, 4, 5])):
                c = perturb(fv)
                if not c:
                    break
                fv = rng.choice(c)
        else:
            v, r = split(fv)
            for _ in range(rng.choice([1, 2, 3])):
                v, r = gv.mutate_version(rng, v, r)
            fv = join(v, r)
        out.add(fv)
    return sorted(out)


# hostile spellings: explicit -r0 / zero-padded revisions, leading zeros, suffix number 0 vs none
HOSTILE = ["1-r0", "1-r01", "1.0-r0", "01", "1_alpha", "1_alpha0", "1_p", "1_p0", "0", "00", "1.01", "1.010", "1.0.0"]


def shard_pool(rng, n_random):
    """CORE plus two hostile spellings plus n_random versions derived from core members by small edits (so that
    they interact with them)."""
    pool = list(CORE) + rng.sample(HOSTILE, 2)
    n_random += 2
    seen = set(pool)
    tries = 0
    while len(pool) < len(CORE) + n_random and tries < 500:
        tries += 1
        base = rng.choice(CORE)
        if rng.random() < 0.5:
            fv = rng.choice(perturb(base))
            if rng.random() < 0.4:
                fv = rng.choice(perturb(fv))
        else:
            v, r = split(base)
            for _ in range(rng.choice([1, 1, 2])):
                v, r = gv.mutate_version(rng, v, r)
            fv = join(v, r)
        if fv not in seen and len(fv) <= 14:
            seen.add(fv)
            pool.append(fv)
    return pool


def valid_spec(s):
    if s["op"] == "~" and s["ver"] is not None and "-r" in s["ver"]:
        return False  # PMS: ~ takes no revision
    return True


def render(s):
    if s["op"] == "=*":
        t = "=%s-%s*" % (s["key"], s["ver"])
    elif s["op"]:
        t = "%s%s-%s" % (s["op"], s["key"], s["ver"])
    else:
        t = s["key"]
    t = (s.get("blocks") or "") + t
    slot, sub, sop = s.get("slot"), s.get("subslot"), s.get("slotop")
    if slot is not None:
        t += ":" + slot
        if sub is not None:
            t += "/" + sub
        if sop == "=":
            t += "="
    elif sop:
        t += ":" + sop
    if s.get("repo"):
        t += "::" + s["repo"]
    if s.get("use"):
        t += "[" + s["use"] + "]"
    return t


def base_spec(op, ver, key="cat/pkg"):
    return {"key": key, "op": op, "ver": ver if op else None, "slot": None, "subslot": None, "slotop": None,
            "repo": None, "use": None, "blocks": ""}


def version_only(s):
    return base_spec(s["op"], s["ver"], s["key"])


def extras_only(s, keep_use=True):
    t = dict(s, op="", ver=None, blocks="")
    if not keep_use:
        t["use"] = None
    return t


def decorate(rng, s):
    """Random slot / sub-slot / slot operator / repository / USE-dep / blocker decorations."""
    s = dict(s)
    r = rng.random()
    if r < 0.45:
        s["slot"] = rng.choice(["0", "1"])
        if rng.random() < 0.45:
            s["subslot"] = rng.choice(["0", "1"])
        if rng.random() < 0.2:
            s["slotop"] = "="
    elif r < 0.55:
        s["slotop"] = rng.choice(["=", "*"])
    if rng.random() < 0.35:
        s["repo"] = rng.choice(["a", "b"])
    if rng.random() < 0.55:
        s["use"] = rng.choice(USE_CHOICES)
    if rng.random() < 0.15:
        s["blocks"] = rng.choice(["!", "!!"])
    return s


def attr_universe():
    """All attribute combinations a witness package may carry (use is always a subset of iuse)."""
    out = []
    for slot in ("0", "1"):
        for sub in ("0", "1"):
            for repo in ("a", "b"):
                for xs in range(3):
                    for ys in range(3):
                        iuse = [f for f, st in (("x", xs), ("y", ys)) if st]
                        use = [f for f, st in (("x", xs), ("y", ys)) if st == 2]
                        out.append({"slot": slot, "subslot": sub, "repo": repo, "iuse": iuse, "use": use})
    return out


def parse_use(tokens):
    """'x(+),-y' -> {flag: (enabled, default)} with default in '+', '-', ''."""
    out = {}
    for tok in (tokens or "").split(","):
        if not tok:
            continue
        enabled = not tok.startswith("-")
        tok = tok.lstrip("-")
        default = ""
        if tok.endswith("(+)") or tok.endswith("(-)"):
            default = tok[-2]
            tok = tok[:-3]
        out[tok] = (enabled, default)
    return out
