"""Generators for C45: GLSA advisories (as plain dicts + XML rendering) and installed-package universes.

Pure Python, no pkgcore.  The dict shapes are the ones documented in vt/ref/c45_glsa.py.
"""

from xml.sax.saxutils import escape, quoteattr

from . import versions as gv

NAMES = ["a/b", "a/bc", "a/b-c", "ab/b", "dev-x/b+", "a/b_d"]
ARCHES = ["x86", "amd64", "arm64", "ppc"]
SLOTS = ["1", "2"]
PLAIN = ["lt", "le", "eq", "ge", "gt"]
RFORMS = ["rlt", "rle", "rge", "rgt"]

TEMPLATE = """<?xml version="1.0" encoding="UTF-8"?>
<!DOCTYPE glsa SYSTEM "https://www.gentoo.org/dtd/glsa.dtd">
<glsa id="%(id)s">
  <title>generated advisory %(id)s</title>
  <synopsis>generated</synopsis>
  <product type="ebuild">generated</product>
  <announced>2020-01-01</announced>
  <revised count="1">2020-01-01</revised>
  <access>remote</access>
  <affected>
%(body)s
  </affected>
  <background><p>none</p></background>
  <description><p>none</p></description>
  <impact type="normal"><p>none</p></impact>
  <workaround><p>none</p></workaround>
  <resolution><p>none</p></resolution>
  <references/>
</glsa>
"""


# --------------------------------------------------------------------------------------------------------------
# XML

def render_range(tag, rng):
    attrs = " range=%s" % quoteattr(rng.get("pad_op", "") + rng["op"])
    if rng.get("slot"):
        attrs += " slot=%s" % quoteattr(rng["slot"])
    pad = rng.get("pad", "")
    return "      <%s%s>%s%s%s</%s>" % (tag, attrs, pad, escape(rng["ver"]), pad, tag)


def render_node(node):
    attrs = " name=%s auto=\"yes\"" % quoteattr(node["name"])
    if node.get("arch") is not None:
        attrs += " arch=%s" % quoteattr(node["arch"])
    lines = ["    <package%s>" % attrs]
    # the DTD lists unaffected before vulnerable; both orders occur in the wild
    if node.get("vuln_first"):
        lines += [render_range("vulnerable", r) for r in node["vulnerable"]]
        lines += [render_range("unaffected", r) for r in node["unaffected"]]
    else:
        lines += [render_range("unaffected", r) for r in node["unaffected"]]
        lines += [render_range("vulnerable", r) for r in node["vulnerable"]]
    lines.append("    </package>")
    return "\n".join(lines)


def render_file(glsa_id, nodes):
    return TEMPLATE % {"id": glsa_id, "body": "\n".join(render_node(n) for n in nodes)}


def file_name(glsa_id):
    return "glsa-%s.xml" % glsa_id


# --------------------------------------------------------------------------------------------------------------
# advisories

def anchors(rng):
    """2-3 base versions the ranges of one scenario are built around."""
    out = []
    hand = [("1", ""), ("2", ""), ("1.2", ""), ("1.2.3", ""), ("10", ""), ("1.10", ""), ("1.0", ""), ("2.4.37", ""),
            ("1_p1", ""), ("1.2_rc1", ""), ("1.2a", ""), ("0.9", "")]
    for _ in range(rng.choice([2, 2, 3])):
        if rng.random() < 0.6:
            out.append(rng.choice(hand))
        else:
            v, _r = gv.random_version(rng, small=True)
            out.append((v, ""))
    return out


def endpoint(rng, anc, want_rev=None):
    """A range end point near one of the anchors; (version, revision-text)."""
    v, _ = rng.choice(anc)
    roll = rng.random()
    if want_rev is None:
        want_rev = roll < 0.35
    r = rng.choice(["1", "2", "3", "0", "10"]) if want_rev else ""
    if rng.random() < 0.15:
        v, _r = gv.mutate_version(rng, v, "")
    return v, r


def random_range(rng, anc, allow_unspecified=True):
    kind = rng.random()
    slot = "" if rng.random() < 0.6 else rng.choice(SLOTS)
    if kind < 0.45:
        op = rng.choice(PLAIN)
        v, r = endpoint(rng, anc)
        ver = gv.fullver(v, r)
        if op == "eq" and rng.random() < 0.3:
            ver += "*"
    elif kind < 0.55:
        op = "eq"
        v, r = endpoint(rng, anc, want_rev=rng.random() < 0.2)
        # globs are usually written on a shortened version
        if rng.random() < 0.5 and "." in v and "_" not in v and not v[-1].isalpha():
            v = v.rsplit(".", 1)[0]
        ver = gv.fullver(v, r) + "*"
    else:
        op = rng.choice(RFORMS)
        v, r = endpoint(rng, anc, want_rev=rng.random() < 0.6)
        if op == "rlt" and r == "" and not (allow_unspecified and rng.random() < 0.3):
            r = rng.choice(["1", "2"])
        ver = gv.fullver(v, r)
    if allow_unspecified and op != "eq" and rng.random() < 0.02:
        ver += "*"
    out = {"op": op, "ver": ver, "slot": slot}
    if rng.random() < 0.08:
        out["pad"] = rng.choice([" ", "\n        ", "\t"])
    return out


def classic_node(rng, anc, name):
    """The shape real advisories have: everything below the fix is vulnerable, the fix and later are unaffected, older
    branches got a revision bump (rge) or a branch glob."""
    v, r = endpoint(rng, anc)
    fix = gv.fullver(v, r)
    node = {"name": name, "arch": rng.choice([None, "*", "*", "x86", "x86 amd64"]),
            "unaffected": [{"op": "ge", "ver": fix, "slot": ""}],
            "vulnerable": [{"op": "lt", "ver": fix, "slot": ""}]}
    for _ in range(rng.choice([0, 1, 1, 2])):
        v2, r2 = endpoint(rng, anc)
        if rng.random() < 0.5:
            node["unaffected"].append({"op": "rge", "ver": gv.fullver(v2, r2 or rng.choice(["", "1", "2"])), "slot": ""})
        else:
            node["unaffected"].append({"op": "eq", "ver": v2 + "*", "slot": rng.choice(["", "", "1"])})
    if rng.random() < 0.3:
        s = rng.choice(SLOTS)
        for r_ in node["unaffected"] + node["vulnerable"]:
            if rng.random() < 0.7:
                r_["slot"] = s
    return node


def random_node(rng, anc, name, allow_unspecified=True):
    if rng.random() < 0.35:
        return classic_node(rng, anc, name)
    node = {"name": name,
            "arch": rng.choice([None, "*", "*", "x86", "amd64 arm64", " x86  ppc ", "ppc"]),
            "vulnerable": [random_range(rng, anc, allow_unspecified) for _ in range(rng.choice([1, 1, 2, 3]))],
            "unaffected": [random_range(rng, anc, allow_unspecified) for _ in range(rng.choice([0, 1, 1, 2, 3]))]}
    if rng.random() < 0.3:
        node["vuln_first"] = True
    if rng.random() < 0.05 and node["unaffected"]:
        # contradictory advisory: the same range listed on both sides (the statement still decides: unaffected wins)
        node["vulnerable"].append(dict(rng.choice(node["unaffected"])))
    return node


def scenario(rng, index):
    """One directory of advisories + the versions it is built around."""
    anc = anchors(rng)
    names = [NAMES[0]] + rng.sample(NAMES[1:], rng.choice([1, 2]))
    files = {}
    for f in range(rng.choice([1, 1, 2, 3])):
        gid = "%04d%02d-%02d" % (2000 + index % 20, 1 + (index // 20) % 12, f + 1)
        nodes = []
        for _ in range(rng.choice([1, 1, 2, 3])):
            nodes.append(random_node(rng, anc, rng.choice(names[:2] if rng.random() < 0.85 else names)))
        files[gid] = nodes
    return {"anchors": anc, "names": names, "files": files}


# --------------------------------------------------------------------------------------------------------------
# installed packages

def nearby_versions(rng, anc, files):
    """Versions around every range end point: the end point itself, revision +-, .0, digit-append, letters, suffixes."""
    import re

    from ..ref import pms_version as pv

    bases = {(v, "") for v, _ in anc}
    for nodes in files.values():
        for node in nodes:
            for r in node["vulnerable"] + node["unaffected"]:
                text = r["ver"][:-1] if r["ver"].endswith("*") else r["ver"]
                v, rev = pv.split_fullver(text)
                if pv.valid_version(v) and pv.valid_revision(rev):
                    bases.add((v, rev))
    out = set()
    for v, rev in bases:
        out.add((v, rev))
        out.add((v, ""))
        if rng.random() < 0.5:
            out.add((v, "0"))
        for x in ("1", "2", "3", "10", "11"):
            if rng.random() < 0.5:
                out.add((v, x))
        if rev:
            out.add((v, str(int(rev) + 1)))
            out.add((v, str(max(int(rev) - 1, 0))))
            out.add((v, rev + "0"))
        m = re.match(r"^([\d.]+)([a-z]?)((?:_[a-z]+\d*)*)$", v)
        nums, letter, suff = m.group(1), m.group(2), m.group(3)
        r2 = rng.choice(["", "", "1"])
        if not letter and not suff:
            for tail in (".0", ".1", "0", "1", "a", "_p1", "_rc1", "_alpha", ".00", ".10"):
                if rng.random() < 0.6:
                    out.add((nums + tail, r2))
        elif suff:
            out.add((nums + letter, r2))
            out.add((v + "0", r2))
            out.add((v + "_p1", r2))
        else:
            out.add((nums, r2))
        comps = nums.split(".")
        if len(comps) > 1:
            out.add((".".join(comps[:-1]), r2))
        # one step below / above on the last component
        last = comps[-1]
        if last.isdigit() and not last.startswith("0"):
            out.add((".".join(comps[:-1] + [str(int(last) + 1)]), ""))
            if int(last) > 0:
                out.add((".".join(comps[:-1] + [str(int(last) - 1)]), rng.choice(["", "5"])))
    out = [(v, r) for v, r in out if pv.valid_version(v)]
    out.sort()
    return out


def random_keywords(rng):
    roll = rng.random()
    if roll < 0.15:
        return []
    kws = []
    for a in ARCHES:
        x = rng.random()
        if x < 0.35:
            kws.append(a)
        elif x < 0.5:
            kws.append("~" + a)
        elif x < 0.55:
            kws.append("-" + a)
    return kws


def universe(rng, scen, cap):
    """Installed packages: [{name, ver, rev, slot, keywords}].  Names = the advisory names + near misses."""
    vers = nearby_versions(rng, scen["anchors"], scen["files"])
    if len(vers) > cap:
        vers = rng.sample(vers, cap)
        vers.sort()
    pkgs = []
    main = scen["names"][:2]
    for name in scen["names"]:
        mine = vers if name in main else rng.sample(vers, min(len(vers), 4))
        for v, r in mine:
            pkgs.append({"name": name, "ver": v, "rev": r, "slot": rng.choice(["0"] + SLOTS * 2),
                         "keywords": random_keywords(rng)})
    return pkgs
