"""One-child fault driver on top of vt.fault (shared by C29 and C30; vt/fault.py itself is not modified).

A *case* is any object with
    roots            list of directories whose mutations are fault points
    restore()        put the directories back into the pre-operation state
    fn()             -> callable running the real operation once (returns a JSON-able dict)
    record(tag)      copy the observable on-disk state somewhere outside `roots`, under the name `tag`

run_driver(fault, [(i, case), ...], want_state, want_eio) runs, in ONE child of vt.fault.run_injected and for every case:
  pass 1   the operation without a fault; after every numbered operation b with want_state(i, b): case.record(str(b));
           at the end case.record("final")
  pass 2+  for every k with want_eio(i, k, ops): restore, re-arm the child's injector to mode="eio" at k, run the operation
           again (pkgcore's error handling runs), case.record("eio-<k>")
and returns run_injected's result whose "result" is
  {str(i): {"ret": fn's return value, "ops": [[k, name, detail]...], "audit_unnumbered": n,
            "eio": {str(k): {"status", "exc", "injected", "same_prefix", "audit_unnumbered"}}}  |  {"error": traceback}}.

Why recorded boundary states are crash states: vt.fault's crash-after(b) / crash-before(b+1) end the process with os._exit
at that boundary: data still buffered in user space is lost, everything already handed to the kernel stays.  A copy taken
at the same boundary from inside the live process sees exactly what the kernel has, i.e. what a post-mortem reader would
see.  Callers re-check a sample of recorded states against real os._exit runs (mismatch => inconclusive).

Why one child: in this sandbox the first run of an operation in a forked child costs seconds of copy-on-write page faults
(~1 ms each); one child per fault point (2-4 per operation) does not fit any time budget.

The operation numbering is the base class's; the subclass only adds the recording hook and is bound to
vt.fault.Injector for the duration of the call.
"""

import gc
import traceback

_INJ = []


def extended_injector(fault):
    """vt.fault.Injector + the one write path pkgcore uses that the base class does not see:
    bz2.BZ2File(path, "w") (snakeoil compress_handle -> binpkg tarball) opens its file through
    `bz2._builtin_open`, a name bound to the original builtins.open at import time.  Re-binding it to the
    interposed open makes the tarball's open/write/close numbered operations like any other file."""
    orig = fault.Injector
    if getattr(orig, "_c29_extended", False):
        return orig

    class Extended(orig):
        _c29_extended = True

        def install(self):
            orig.install(self)
            import builtins
            import bz2

            if hasattr(bz2, "_builtin_open"):
                bz2._builtin_open = builtins.open

    return Extended


def run_injected(fault, fn, mode, k, roots, timeout=120):
    """vt.fault.run_injected with the extended injector bound for the duration of the call."""
    orig = fault.Injector
    fault.Injector = extended_injector(fault)
    try:
        return fault.run_injected(fn, mode, k, roots=roots, timeout=timeout)
    finally:
        fault.Injector = orig


def run_driver(fault, cases, want_state, want_eio, timeout=600):
    orig_injector = fault.Injector
    base = extended_injector(fault)
    cur = {}

    class Recorder(base):
        def __init__(self, *a, **kw):
            base.__init__(self, *a, **kw)
            _INJ[:] = [self]

        def op(self, name, detail, perform, auditable=True, torn=None):
            if not self.active or self.in_op:
                return perform()
            try:
                return base.op(self, name, detail, perform, auditable=auditable, torn=torn)
            finally:
                if cur.get("recording") and want_state(cur["i"], self.n):
                    self.active = False
                    try:
                        cur["case"].record(str(self.n))
                    finally:
                        self.active = True

    def arm(inj, mode, k):
        inj.mode, inj.k, inj.n, inj.ops, inj.injected = mode, k, 0, [], False
        inj.fd_paths.clear()
        return inj.audit_seen, inj.numbered_auditable

    def unnumbered(inj, a0, n0):
        return max(0, (inj.audit_seen - a0) - (inj.numbered_auditable - n0))

    def one(inj, i, case):
        op_fn = case.fn()
        inj.active = False
        case.restore()
        a0, n0 = arm(inj, "count", 0)
        cur.update(i=i, case=case, recording=True)
        inj.active = True
        try:
            ret = op_fn()
        finally:
            inj.active = False
            cur["recording"] = False
        case.record("final")
        ops = list(inj.ops)
        out = {"ret": ret, "ops": ops, "eio": {}, "audit_unnumbered": unnumbered(inj, a0, n0)}
        for k in range(1, len(ops) + 1):
            if not want_eio(i, k, ops):
                continue
            case.restore()
            gc.collect()  # finalizers of the previous pass must not become operations of this one
            a0, n0 = arm(inj, "eio", k)
            inj.active = True
            st, exc = "done", None
            try:
                op_fn()
            except BaseException as e:  # noqa: BLE001 - whatever the code lets escape is the outcome of this fault
                st, exc = "raised", repr(e)[:300]
            inj.active = False
            case.record("eio-%d" % k)
            out["eio"][str(k)] = {"status": st, "exc": exc, "injected": inj.injected, "same_prefix": inj.ops[:k] == ops[:k],
                                  "audit_unnumbered": unnumbered(inj, a0, n0)}
        return out

    def driver():
        inj = _INJ[0]
        res = {}
        for i, case in cases:
            try:
                res[str(i)] = one(inj, i, case)
            except BaseException:  # noqa: BLE001
                inj.active = False
                res[str(i)] = {"error": traceback.format_exc()[-1500:]}
        arm(inj, "count", 0)
        inj.audit_seen = inj.numbered_auditable = 0
        return res

    roots = []
    for _, case in cases:
        roots.extend(case.roots)
    fault.Injector = Recorder
    try:
        return fault.run_injected(driver, "count", 0, roots=roots, timeout=timeout)
    finally:
        fault.Injector = orig_injector
