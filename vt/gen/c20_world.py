"""Scratch filesystem worlds for the merge-engine properties (C20, C21).

A *plan* is a plain JSON-able dict that fully describes one engine run:

    {"style":  "chroot" | "nested",          # offset "/" inside a chroot child  |  offset = <scratch>/root
     "mode":   "install" | "uninstall" | "replace",
     "live":   {rel: ent},                   # the live root before the run (physical layout, no entry below a symlink)
     "old":    {rel: ent} | None,            # image the old package's contents are scanned from
     "new":    {rel: ent} | None,            # image of the package being merged
     "triggers": ["merge", "unmerge", "base_protect", "cfg_install", "cfg_uninstall"],
     "extra_protects": [...], "extra_disables": [...],     # ConfigProtectInstall arguments
     "snap_after": ["post_merge"]}           # hooks after which the live root is snapshotted

    ent = {"t": "f", "d": "<text content>", "m": 0o644}
        | {"t": "d", "m": 0o755}
        | {"t": "l", "to": "<target>"}       # "@R@" in a target = absolute prefix of the live root ("" in a chroot)
        | {"t": "p"}                          # fifo

Layout on disk: <base>/root is the live root; <base>/root/.vt/{old,new,tmp} hold the images and the engine's
tempdir (so that they are reachable from inside the chroot); snapshots leave `.vt` out.

Safety: directory symlinks that are *traversed* are always relative; absolute targets always stay inside the scratch
root in both styles, so even a misbehaving engine cannot leave the scratch directory (nested) / the chroot.
"""

import json
import os
import shutil
import traceback

from .. import fssnap

HOOKS = {
    "install": ("sanity_check", "pre_merge", "merge", "post_merge", "final"),
    "uninstall": ("sanity_check", "pre_unmerge", "unmerge", "post_unmerge", "final"),
    # order used by pkgcore.operations.domain.replace
    "replace": ("sanity_check", "pre_merge", "merge", "post_merge", "pre_unmerge", "unmerge", "post_unmerge", "final"),
}
MTIME = 1_500_000_000
PRIVATE = ".vt"


# ---------------------------------------------------------------------------------------------------------
# materialisation
# ---------------------------------------------------------------------------------------------------------
def _write_entry(path, ent, rprefix):
    t = ent["t"]
    if t == "d":
        os.mkdir(path)
        os.chmod(path, ent.get("m", 0o755))
    elif t == "f":
        with open(path, "w", encoding="utf-8") as f:
            f.write(ent.get("d", ""))
        os.chmod(path, ent.get("m", 0o644))
    elif t == "l":
        os.symlink(ent["to"].replace("@R@", rprefix), path)
    elif t == "p":
        os.mkfifo(path)
        os.chmod(path, ent.get("m", 0o644))
    else:
        raise ValueError("unknown entry type %r" % (t,))
    if t != "l":
        mt = ent.get("mt", MTIME)
        os.utime(path, (mt, mt))


def materialize_tree(top, spec, rprefix):
    """Create `spec` ({rel: ent}, physical layout) under directory `top` (created)."""
    os.makedirs(top, exist_ok=True)
    for rel in sorted(spec, key=lambda r: (r.count("/"), r)):
        p = os.path.join(top, rel)
        parent = os.path.dirname(p)
        if not os.path.isdir(parent) or os.path.islink(parent):
            # the generator guarantees physical layouts; a missing parent is a plain directory
            if os.path.islink(parent):
                raise ValueError("entry %r lies below a symlink" % (rel,))
            os.makedirs(parent, exist_ok=True)
        _write_entry(p, spec[rel], rprefix)
    # directory mtimes last (creating children changed them)
    for rel in sorted(spec, key=lambda r: -r.count("/")):
        if spec[rel]["t"] == "d":
            mt = spec[rel].get("mt", MTIME)
            os.utime(os.path.join(top, rel), (mt, mt))


def root_prefix(plan, base):
    return "" if plan["style"] == "chroot" else os.path.join(base, "root")


def build(base, plan):
    """Materialise the plan under `base` (must not exist or be empty). Returns the live root path."""
    root = os.path.join(base, "root")
    rp = root_prefix(plan, base)
    materialize_tree(root, plan["live"], rp)
    priv = os.path.join(root, PRIVATE)
    os.makedirs(os.path.join(priv, "tmp"), exist_ok=True)
    for k in ("old", "new"):
        if plan.get(k) is not None:
            materialize_tree(os.path.join(priv, k), plan[k], rp)
    return root


def snap_root(root):
    s = fssnap.snap(root)
    return {p: _plain(e) for p, e in s.items() if p != PRIVATE and not p.startswith(PRIVATE + "/")}


def _plain(e):
    e = dict(e)
    e.pop("ino", None)
    e.pop("nlink", None)
    return e


# ---------------------------------------------------------------------------------------------------------
# the engine run (works in-process for the nested style, in a chroot child for the "/" style)
# ---------------------------------------------------------------------------------------------------------
class _Recorder:
    """Observer output sink; keeps every message."""

    def __init__(self):
        self.msgs = []

    def _add(self, level, msg, args, kwds):
        try:
            if args:
                msg = msg % args
        except Exception:
            pass
        self.msgs.append([level, str(msg)[:2000]])

    def warn(self, msg, *a, **k):
        self._add("warn", msg, a, k)

    def error(self, msg, *a, **k):
        self._add("error", msg, a, k)

    def info(self, msg, *a, **k):
        self._add("info", msg, a, k)

    def debug(self, msg, *a, **k):
        self._add("debug", msg, a, k)

    def write(self, msg, *a, **k):
        self._add("write", msg, a, k)

    def flush(self):
        pass


class _Pkg:
    def __init__(self, contents, label):
        self.contents = contents
        self.label = label

    def __str__(self):
        return "stub-pkg:" + self.label


def _kind(x):
    for k, a in (("f", "is_reg"), ("d", "is_dir"), ("l", "is_sym"), ("p", "is_fifo"), ("c", "is_dev")):
        if getattr(x, a, False):
            return k
    return "?"


def _single_cpu_checksums():
    """snakeoil hashes a file with one thread per checksum type when cpu_count() > 1 (about twenty thread starts
    per compared file, ~1 s in this sandbox); behave like a single-CPU machine.  pkgcore itself is untouched."""
    try:
        from snakeoil.chksum import defaults as chk_defaults

        chk_defaults.cpu_count = lambda: 1
    except Exception:
        pass


class _HookObserver:
    """mixin for repo_observer: marks trigger boundaries in the recorded message stream."""

    def trigger_start(self, hook, trigger):
        self._output.msgs.append(["trigger_start", "%s:%s" % (hook, getattr(trigger, "label", "?"))])

    def trigger_end(self, hook, trigger):
        self._output.msgs.append(["trigger_end", "%s:%s" % (hook, getattr(trigger, "label", "?"))])


def execute(plan, R):
    """Run the engine described by `plan`.  `R` = absolute prefix of the live root as seen by this process
    ("" when chrooted).  Returns a JSON-able result dict."""
    from pkgcore.ebuild import triggers as etriggers
    from pkgcore.fs import livefs
    from pkgcore.merge import triggers as mtriggers
    from pkgcore.merge.engine import MergeEngine
    from pkgcore.operations import observer as observer_mod

    _single_cpu_checksums()
    res = {"exc": None, "failed_hook": None, "msgs": [], "merged": None, "snaps": {}, "hooks_done": [],
           "csets": {}}
    rec = _Recorder()
    try:
        offset = R or "/"
        priv = R + "/" + PRIVATE
        pk = {}
        for k in ("old", "new"):
            if plan.get(k) is not None:
                img = priv + "/" + k
                pk[k] = _Pkg(livefs.scan(img, offset=img), k)
        obs = type("recording_repo_observer", (_HookObserver, observer_mod.repo_observer), {})(rec)
        tmp = priv + "/tmp"
        mode = plan["mode"]
        if mode == "install":
            e = MergeEngine.install(tmp, pk["new"], offset=offset, observer=obs, disable_plugins=True)
        elif mode == "uninstall":
            e = MergeEngine.uninstall(tmp, pk["old"], offset=offset, observer=obs, disable_plugins=True)
        else:
            e = MergeEngine.replace(tmp, pk["old"], pk["new"], offset=offset, observer=obs, disable_plugins=True)
        for name in plan["triggers"]:
            if name == "merge":
                t = mtriggers.merge()
            elif name == "unmerge":
                t = mtriggers.unmerge()
            elif name == "base_protect":
                t = mtriggers.BaseSystemUnmergeProtection()
            elif name == "cfg_install":
                t = etriggers.ConfigProtectInstall(tuple(plan.get("extra_protects", ())),
                                                   tuple(plan.get("extra_disables", ())))
            elif name == "cfg_uninstall":
                t = etriggers.ConfigProtectUninstall()
            else:
                raise ValueError("unknown trigger %r" % (name,))
            t.register(e)
        for h in HOOKS[mode]:
            try:
                getattr(e, h)()
            except Exception as exc:
                res["exc"] = "%s: %s" % (type(exc).__name__, exc)
                res["exc_type"] = type(exc).__name__
                res["exc_tb"] = traceback.format_exc()[-1500:]
                res["failed_hook"] = h
                break
            res["hooks_done"].append(h)
            if h in plan.get("snap_after", ()):
                res["snaps"][h] = snap_root(R or "/")
            if h == "post_merge":
                res["merged"] = sorted([x.location, _kind(x)] for x in e.get_merged_cset())
            if h in ("pre_unmerge", "unmerge"):
                # what the engine is going to remove (after this hook's triggers edited it), offset stripped
                key = "uninstall" if h == "unmerge" else "uninstall_pre"
                try:
                    un = e.csets["uninstall"]
                    strip = len(R)
                    res["csets"][key] = sorted([x.location[strip:] or "/", _kind(x)] for x in un)
                except Exception as exc:  # observation only
                    res["csets"][key + "_error"] = repr(exc)
    except Exception as exc:
        res["exc"] = "harness/setup: %s: %s" % (type(exc).__name__, exc)
        res["exc_type"] = type(exc).__name__
        res["exc_tb"] = traceback.format_exc()[-1500:]
        res["failed_hook"] = "setup"
    res["msgs"] = rec.msgs[:400]
    return res


_warm = False


def warm_up(scratch):
    """Import everything the engine needs lazily (checksum handlers, ...) before any chroot."""
    global _warm
    if _warm:
        return
    base = os.path.join(scratch, "c20warm-%d" % os.getpid())
    plan = {"style": "nested", "mode": "replace",
            "live": {"etc": {"t": "d"}, "etc/a": {"t": "f", "d": "x"}, "etc/env.d": {"t": "d"},
                     "etc/env.d/10x": {"t": "f", "d": 'CONFIG_PROTECT="/etc"\nCOLLISION_IGNORE="/nowhere/*"\n'},
                     "etc/._cfg0000_a": {"t": "f", "d": "z"}},
            "old": {"etc": {"t": "d"}, "etc/a": {"t": "f", "d": "x"}, "etc/l": {"t": "l", "to": "a"}},
            "new": {"etc": {"t": "d"}, "etc/a": {"t": "f", "d": "y"}, "etc/b": {"t": "f", "d": "y"}},
            "triggers": ["merge", "unmerge", "base_protect", "cfg_install", "cfg_uninstall"],
            "snap_after": ["post_merge"]}
    try:
        root = build(base, plan)
        execute(plan, root)
        traceback.format_exc()
        import linecache  # noqa: F401  (used by traceback inside the chroot)
    finally:
        shutil.rmtree(base, ignore_errors=True)
    _warm = True


def _clear_children(d):
    for n in os.listdir(d):
        p = os.path.join(d, n)
        if os.path.isdir(p) and not os.path.islink(p):
            shutil.rmtree(p)
        else:
            os.unlink(p)


class Jail:
    """A long-lived helper process chrooted into <dir>/root; runs plans with offset "/".

    (One process per shard instead of a fork per scenario: forking the worker for every run costs ~1.5 s of
    copy-on-write faults in this sandbox.)"""

    def __init__(self, scratch):
        import subprocess
        import sys

        self.dir = os.path.join(scratch, "c20jail-%d" % os.getpid())
        self.root = os.path.join(self.dir, "root")
        shutil.rmtree(self.dir, ignore_errors=True)
        os.makedirs(self.root)
        top = os.path.dirname(os.path.dirname(os.path.dirname(os.path.abspath(__file__))))
        pp = [x for x in os.environ.get("PYTHONPATH", "").split(":") if x]
        if top not in pp:
            pp.append(top)
        env = dict(os.environ, PYTHONPATH=":".join(pp), PYTHONDONTWRITEBYTECODE="1")
        self.proc = subprocess.Popen([sys.executable, "-m", "vt.gen.c20_world", "--serve", self.root, scratch],
                                     stdin=subprocess.PIPE, stdout=subprocess.PIPE, cwd=top, env=env)
        line = self.proc.stdout.readline()
        if line.strip() != b"ready":
            self.close()
            raise RuntimeError("chroot helper did not start: %r" % (line[:200],))

    def run(self, plan):
        self.proc.stdin.write(json.dumps(plan).encode("utf-8") + b"\n")
        self.proc.stdin.flush()
        line = self.proc.stdout.readline()
        if not line:
            raise RuntimeError("chroot helper died")
        return json.loads(line.decode("utf-8"))

    def close(self):
        try:
            self.proc.stdin.close()
        except Exception:
            pass
        try:
            self.proc.wait(timeout=5)
        except Exception:
            try:
                self.proc.kill()
                self.proc.wait(timeout=5)
            except Exception:
                pass
        shutil.rmtree(self.dir, ignore_errors=True)


_jail = [None]


def get_jail(scratch):
    if _jail[0] is None or _jail[0].proc.poll() is not None:
        _jail[0] = Jail(scratch)
    return _jail[0]


def close_jail():
    if _jail[0] is not None:
        _jail[0].close()
        _jail[0] = None


def run_plan(plan, base, scratch=None):
    """Materialise `plan`, run it, return (before, result, after).

    nested style: under `base` (left on disk, caller removes it); chroot style: inside the shard's jail."""
    if plan["style"] == "nested":
        root = build(base, plan)
        before = snap_root(root)
        res = execute(plan, root)
        after = snap_root(root)
        return before, res, after
    jail = get_jail(scratch or os.path.dirname(base))
    _clear_children(jail.root)
    build(jail.dir, plan)
    before = snap_root(jail.root)
    try:
        res = jail.run(plan)
    except (RuntimeError, ValueError, OSError) as e:
        close_jail()
        res = {"exc": "chroot helper failure: %s" % e, "exc_type": "ChildFailure", "failed_hook": "setup", "msgs": [],
               "merged": None, "snaps": {}, "hooks_done": [], "csets": {}}
        return before, res, snap_root(jail.root) if os.path.isdir(jail.root) else {}
    after = snap_root(jail.root)
    _clear_children(jail.root)
    return before, res, after


def _serve(root, scratch):
    import sys

    out = os.fdopen(os.dup(1), "wb")
    os.dup2(2, 1)
    sys.stdout = sys.stderr
    warm_up(scratch)
    os.chroot(root)
    os.chdir("/")
    out.write(b"ready\n")
    out.flush()
    inp = os.fdopen(0, "rb")
    while True:
        line = inp.readline()
        if not line:
            break
        try:
            plan = json.loads(line.decode("utf-8"))
            res = execute(plan, "")
        except BaseException:
            res = {"exc": "helper failure", "exc_type": "ChildFailure", "failed_hook": "setup",
                   "exc_tb": traceback.format_exc()[-1500:], "msgs": [], "merged": None, "snaps": {},
                   "hooks_done": [], "csets": {}}
        out.write(json.dumps(res).encode("utf-8") + b"\n")
        out.flush()
    os._exit(0)


# ---------------------------------------------------------------------------------------------------------
# path helpers for the oracles (independent of pkgcore)
# ---------------------------------------------------------------------------------------------------------
def resolve_parent(snapshot, rel, depth=0):
    """Physical path of listed path `rel` in `snapshot`: symlinks in the *parent* chain are resolved
    (relative targets only), the last component is not.  Returns None when the chain leaves the tree,
    uses an absolute target, loops, or passes through a non-directory."""
    parts = [p for p in rel.split("/") if p]
    if not parts:
        return ""
    cur = []
    comps = parts[:-1]
    budget = 40
    i = 0
    while i < len(comps):
        c = comps[i]
        i += 1
        if c == ".":
            continue
        if c == "..":
            if not cur:
                return None
            cur.pop()
            continue
        cand = "/".join(cur + [c])
        e = snapshot.get(cand)
        if e is None:
            # nonexistent parent: the path does not exist; keep it literal
            cur.append(c)
            continue
        if e["type"] == "link":
            budget -= 1
            if budget < 0:
                return None
            tgt = e["target"]
            if tgt.startswith("/"):
                return None
            comps = [p for p in tgt.split("/") if p] + comps[i:]
            i = 0
            continue
        if e["type"] != "dir":
            return None
        cur.append(c)
    return "/".join(cur + [parts[-1]])


if __name__ == "__main__":
    import sys

    if len(sys.argv) == 4 and sys.argv[1] == "--serve":
        _serve(sys.argv[2], sys.argv[3])
