"""Package universes and query strings for C44 (pure python, no pkgcore)."""

from ..ref import c44_query as ref

# names chosen to be prefixes / suffixes / infixes of one another, with regex-special characters
CATS = ["dev-libs", "dev-lib", "dev", "x-dev-libs", "dev.libs", "devxlibs", "dev-libs+", "sys-apps", "app_s",
        "s", "dev-libs-dev", "Dev-libs", "sys.apps", "sys+apps"]
NAMES = ["foo", "fo", "foo-bar", "foobar", "bar-foo", "foo+", "fooo", "foo_1", "libfoo", "o", "foo-bar-foo",
         "Foo", "foo-foo", "f+o", "bar", "foo+bar", "alsa-lib", "alsa-utils", "alsa"]
VERSIONS = ["1", "1.0", "1.1", "2", "10", "1.10", "1_p1", "1_alpha", "1.0.1", "1a", "0.9", "2.5"]
REVS = ["", "", "", "1", "2", "10"]
SLOTS = ["0", "1", "5", "5.1", "51", "15", "2.1", "a5", "5a", "0.5", "5+", "stable"]
REPOS = ["gentoo", "gen", "overlay", "gentoo-x"]
FLAGS = ["x", "y"]
OPS = ["<", "<=", "=", ">=", ">", "~"]
ALPHA = "abfox15-+._"


def universe(rng, n):
    """n distinct packages over a few categories/names so that globs select proper subsets."""
    cats = rng.sample(CATS, rng.choice([3, 4, 5]))
    names = rng.sample(NAMES, rng.choice([5, 6, 7]))
    out, seen = [], set()
    tries = 0
    while len(out) < n and tries < n * 20:
        tries += 1
        slot = rng.choice(SLOTS)
        p = {
            "category": rng.choice(cats), "package": rng.choice(names),
            "version": rng.choice(VERSIONS), "revision": rng.choice(REVS),
            "slot": slot, "subslot": slot if rng.random() < 0.4 else rng.choice(SLOTS),
            "repo": rng.choice(REPOS),
        }
        iuse = [f for f in FLAGS if rng.random() < 0.7]
        p["iuse"] = iuse
        p["use"] = [f for f in iuse if rng.random() < 0.5]
        k = (p["category"], p["package"], p["version"], p["revision"], p["slot"], p["subslot"], p["repo"])
        if k in seen:
            continue
        seen.add(k)
        out.append(p)
    return out


def globify(rng, value):
    """Turn a concrete field value into a glob that (usually) still matches it: '*' replaces
    random slices at the start / middle / end; sometimes one literal character is altered
    afterwards (near miss)."""
    r = rng.random()
    if r < 0.08:
        return "*"
    s = value
    for _ in range(rng.choice([1, 1, 1, 2, 2, 3])):
        where = rng.choice(["start", "mid", "end", "any"])
        n = len(s)
        if where == "start":
            i, j = 0, rng.randrange(0, n + 1)
        elif where == "end":
            i = rng.randrange(0, n + 1)
            j = n
        else:
            i = rng.randrange(0, n + 1)
            j = min(n, i + rng.choice([0, 0, 1, 2, 3]))
        s = s[:i] + "*" + s[j:]
    while "**" in s:
        s = s.replace("**", "*")
    if rng.random() < 0.2:
        lits = [i for i, c in enumerate(s) if c != "*"]
        if lits:
            i = rng.choice(lits)
            s = s[:i] + rng.choice(ALPHA) + s[i + 1:]
    return s


def random_glob(rng):
    n = rng.choice([1, 2, 3, 4])
    s = "".join(rng.choice(ALPHA + "***") for _ in range(n))
    while "**" in s:
        s = s.replace("**", "*")
    if s[0] in "-.+":
        s = "a" + s
    return s


def field_glob(rng, pool, p_exact=0.35):
    r = rng.random()
    v = rng.choice(pool)
    if r < p_exact:
        return v
    if r < 0.93:
        return globify(rng, v)
    return random_glob(rng)


def _tail(rng, q, uni, glob_slots=True):
    """Optional :slot[/subslot] and ::repo parts."""
    slots = sorted({p["slot"] for p in uni}) or SLOTS
    subs = sorted({p["subslot"] for p in uni}) or SLOTS
    if rng.random() < 0.5:
        q["slot"] = field_glob(rng, slots, 0.45) if glob_slots else rng.choice(slots)
        if rng.random() < 0.45:
            q["subslot"] = field_glob(rng, subs, 0.45) if glob_slots else rng.choice(subs)
    if rng.random() < 0.3:
        q["repo"] = rng.choice(REPOS)
    return q


def query(rng, uni):
    """One structured query (see vt.ref.c44_query) with q['shape'] and q['text']."""
    cats = sorted({p["category"] for p in uni})
    names = sorted({p["package"] for p in uni})
    r = rng.random()
    q = {"op": "", "cat": None, "pkg": None, "ver": None, "slot": None, "subslot": None, "repo": None}
    if r < 0.34:
        q["shape"] = "glob"
        q["cat"] = field_glob(rng, cats)
        q["pkg"] = field_glob(rng, names)
        _tail(rng, q, uni)
    elif r < 0.46:
        q["shape"] = "bare"
        q["pkg"] = field_glob(rng, names, 0.25)
        _tail(rng, q, uni)
    elif r < 0.66:
        q["shape"] = "glob-ver"
        q["op"] = rng.choice(OPS)
        q["cat"] = field_glob(rng, cats)
        q["pkg"] = field_glob(rng, names)
        if "*" not in q["cat"] and "*" not in q["pkg"]:
            if rng.random() < 0.15:
                # operator + plain cat/pkg-ver, the only glob sits in the slot part
                slots = sorted({p["slot"] for p in uni})
                q["slot"] = globify(rng, rng.choice(slots))
                q["ver"] = rng.choice(VERSIONS)
                if rng.random() < 0.3:
                    q["repo"] = rng.choice(REPOS)
                q["text"] = ref.render(q)
                return q
            if rng.random() < 0.5:
                q["cat"] = globify(rng, q["cat"])
            else:
                q["pkg"] = globify(rng, q["pkg"])
        q["ver"] = rng.choice(VERSIONS)
        if rng.random() < 0.08:
            q["ver"] += "-r" + rng.choice(["0", "1", "2"])
        _tail(rng, q, uni)
    elif r < 0.84:
        q["shape"] = "atom"
        q["cat"] = rng.choice(cats)
        q["pkg"] = rng.choice(names)
        if rng.random() < 0.75:
            q["op"] = rng.choice(OPS + ["=*"])
            q["ver"] = rng.choice(VERSIONS)
            if q["op"] != "~" and rng.random() < 0.3:
                q["ver"] += "-r" + rng.choice(["0", "1", "2"])
            if q["op"] == "=*":
                q["op"], q["verglob"] = "=", True
        _tail(rng, q, uni, glob_slots=False)
        if q["slot"] is not None and rng.random() < 0.15:
            q["slotop"] = "="
        if rng.random() < 0.25:
            toks = []
            for f in rng.sample(FLAGS, rng.choice([1, 1, 2])):
                toks.append(rng.choice(["", "-"]) + f + rng.choice(["", "", "(+)", "(-)"]))
            q["use"] = ",".join(toks)
    else:
        q["shape"] = "bare-atom"
        q["pkg"] = rng.choice(names)
        if rng.random() < 0.85:
            q["op"] = rng.choice(OPS + ["=*"])
            q["ver"] = rng.choice(VERSIONS)
            if q["op"] != "~" and rng.random() < 0.3:
                q["ver"] += "-r" + rng.choice(["0", "1", "2"])
            if q["op"] == "=*":
                q["op"], q["verglob"] = "=", True
        _tail(rng, q, uni, glob_slots=False)
    # rarely: shapes the docstring does not define
    if q["shape"] in ("glob", "bare", "glob-ver") and rng.random() < 0.03:
        k = rng.choice(["cat", "pkg"]) if q["cat"] is not None else "pkg"
        if "*" in q[k]:
            q[k] = q[k].replace("*", "**", 1)
    q["text"] = ref.render(q)
    if rng.random() < 0.07:
        q["inner_shape"] = q["shape"]
        q["shape"] = "blocker"
        q["text"] = rng.choice(["!", "!", "!!"]) + q["text"]
    return q
