"""Tree specifications for C25: generation, materialisation on disk, and the contents-set recipe.

A spec is plain JSON:

  {"class": "clean"|"device"|"chain"|"memory",
   "entries": [ {"path": "/usr/lib/x", "type": "dir|file|link|fifo|dev", "mode": int, "uid": int, "gid": int,
                 "mtime_ns": int, "size": int, "seed": int, "hardlink_of": "/path"|null, "target": str,
                 "major": int, "minor": int, "chr": bool}, ... ]      # creation order, parents first
   "record":  {"/usr/lib/x": "/lib/x", ...},    # entry on disk -> location it is RECORDED under (through a symlinked dir)
   "drop":    ["/usr/lib", ...],                # directory entries left out of the written set
   "order":   ["/...", ...],                    # insertion order into the contentsSet (disk paths)
   "compressor": "bz2"|"bzip2"|"xz"|null,       # null = uncompressed through add_contents_to_tarfile/convert_archive
   "parallelize": bool, "regen": bool}
"""

import os
import random
import stat

from ..ref import c25_resolve as rr

NAMES = ["usr", "lib", "lib64", "bin", "share", "doc", "etc", "opt", "var", "x", "y", "z", "a", "b", "c", "foo", "bar",
         "libfoo.so.1", "libfoo.so", "README", "a b", "My Documents", " lead", "trail ", "x -> y", "café",
         "日本語", "файл", "#hash", "q'uote", "tab\tin", "\U0001f600", ".hidden", "~bak",
         "0", "zz", "Aa", "_"]
LONG = ["n" * 101, "long name " * 14, "ü" * 90, "L" * 200]
MODES_F = [0o644, 0o755, 0o600, 0o640, 0o4755, 0o2755, 0o1644, 0o444, 0, 0o777, 0o6711]
MODES_D = [0o755, 0o755, 0o700, 0o1777, 0o2775, 0o750, 0o555, 0o777]
IDS = [0, 0, 0, 1, 250, 1000, 65534, 70000, 2097151, 2097152, 2 ** 31 - 2]
SIZES = [0, 0, 1, 2, 511, 512, 513, 1024, 4096, 10000, 65536, 70001]


def _name(rng):
    if rng.random() < 0.04:
        return rng.choice(LONG)
    n = rng.choice(NAMES)
    if rng.random() < 0.2:
        n += rng.choice(["", "-", ".", " "]) + rng.choice(NAMES)
    return n.replace("/", "_")


def _attrs(rng, kind):
    mode = rng.choice(MODES_D if kind == "dir" else MODES_F) if rng.random() < 0.8 else rng.randrange(0, 0o10000)
    if kind == "dir":
        mode |= 0o700 if rng.random() < 0.9 else 0
    sec = rng.randrange(1, 2 ** 31) if rng.random() < 0.9 else rng.choice([1, 2 ** 31 - 1, 2 ** 31 + 5, 2 ** 32 + 9])
    frac = 0 if rng.random() < 0.4 else rng.randrange(1, 998) * 1000000
    return {"mode": mode, "uid": rng.choice(IDS), "gid": rng.choice(IDS), "mtime_ns": sec * 10 ** 9 + frac}


def tree_spec(rng, klass="clean", big=False):
    ents = {}
    order = []

    def add(e):
        ents[e["path"]] = e
        order.append(e["path"])

    def fresh(parent):
        for _ in range(50):
            p = os.path.join(parent, _name(rng))
            if p not in ents:
                return p
        return os.path.join(parent, "n%d" % len(ents))

    dirs = ["/"]
    for _ in range(rng.choice([1, 2, 3, 4, 6, 8])):
        parent = rng.choice(dirs)
        if parent.count("/") >= 4:
            parent = "/"
        p = fresh(parent)
        add(dict(path=p, type="dir", **_attrs(rng, "dir")))
        dirs.append(p)
    realdirs = [d for d in dirs if d != "/"]
    files = []
    if klass == "memory":
        nfiles = rng.choice([2, 3, 4, 6])
    else:
        nfiles = rng.choice([0, 1, 2, 3, 5, 8, 12])
    for _ in range(nfiles):
        p = fresh(rng.choice(dirs))
        size = rng.choice(SIZES) if rng.random() < 0.8 else rng.randrange(0, 30000)
        if big and rng.random() < 0.1:
            size = rng.randrange(100000, 400000)
        add(dict(path=p, type="file", size=size, seed=rng.randrange(2 ** 32), hardlink_of=None, **_attrs(rng, "file")))
        files.append(p)
    if klass == "memory":
        return _finish(rng, klass, ents, order, {}, [])
    # hard-link groups (links created in other directories, names in any lexical relation to the first one)
    for f in list(files):
        if rng.random() < 0.3:
            for _ in range(rng.choice([1, 1, 2, 3])):
                p = fresh(rng.choice(dirs))
                e = dict(ents[f], path=p, hardlink_of=f)
                add(e)
                files.append(p)
    # symlinks
    links = []
    nlinks = rng.choice([0, 1, 2, 3, 5]) if klass != "chain" else rng.choice([3, 4, 5])
    for i in range(nlinks):
        p = fresh(rng.choice(dirs))
        r = rng.random()
        if klass == "chain" and i == 0 and realdirs:
            tgt_path = rng.choice(realdirs)
        elif klass == "chain" and i in (1, 2) and links:
            tgt_path = links[-1]
        elif r < 0.45 and realdirs:
            tgt_path = rng.choice(realdirs)
        elif r < 0.65 and files:
            tgt_path = rng.choice(files)
        elif r < 0.8 and links:
            tgt_path = rng.choice(links)
        else:
            tgt_path = None
        if tgt_path is None:
            target = rng.choice(["nonexistent", "../dangling", "/no/such/place", "x y z"])
        elif rng.random() < 0.3:
            target = tgt_path  # absolute (relative to the package root)
        else:
            target = os.path.relpath(tgt_path, os.path.dirname(p))
            if rng.random() < 0.1:
                target = "./" + target
            if rng.random() < 0.08 and ents.get(tgt_path, {}).get("type") == "dir":
                target += "/"
        a = _attrs(rng, "link")
        add(dict(path=p, type="link", target=target, uid=a["uid"], gid=a["gid"], mtime_ns=a["mtime_ns"], mode=0o777))
        links.append(p)
    for _ in range(rng.choice([0, 0, 1, 2])):
        add(dict(path=fresh(rng.choice(dirs)), type="fifo", **_attrs(rng, "fifo")))
    if klass == "device":
        for _ in range(rng.choice([1, 2])):
            a = _attrs(rng, "dev")
            add(dict(path=fresh(rng.choice(dirs)), type="dev", major=rng.choice([1, 4, 8, 10, 200]),
                     minor=rng.choice([0, 3, 5, 64, 255]), chr=rng.random() < 0.6, **a))
    # entries recorded through symlinked directories
    record = {}
    link_targets = {p: ents[p]["target"] for p in links}
    try:
        real = rr.real_link_map(link_targets)
    except rr.Cycle:
        real = {}
    want_hops = 2 if klass == "chain" else 1
    cands = []
    for lp in links:
        try:
            d, hops = rr.resolve(lp + "/x", real)
        except rr.Cycle:
            continue
        d = os.path.dirname(d)
        if ents.get(d, {}).get("type") == "dir" and d != "/":
            cands.append((lp, d, hops))
    rng.shuffle(cands)
    for lp, d, hops in cands:
        if klass != "chain" and hops != 1:
            continue
        if klass == "chain" and hops < want_hops and rng.random() < 0.7:
            continue
        for q in list(ents):
            if q.startswith(d + "/") and q not in record and rng.random() < 0.5:
                if q == lp or (lp + "/").startswith(q + "/"):
                    continue
                rec = lp + q[len(d):]
                if rec in ents or rec in record.values():
                    continue
                record[q] = rec
    drop = []
    if rng.random() < 0.2:
        for d in realdirs:
            if rng.random() < 0.4:
                drop.append(d)
    return _finish(rng, klass, ents, order, record, drop)


def _finish(rng, klass, ents, order, record, drop):
    ins = list(order)
    rng.shuffle(ins)
    comp = rng.choice(["bz2"] * 5 + ["bzip2"] * 2 + [None] * 4 + ["xz"])
    return {"class": klass, "entries": [ents[p] for p in order], "record": record, "drop": sorted(drop), "order": ins,
            "compressor": comp, "parallelize": rng.random() < 0.5, "regen": klass != "memory" and rng.random() < 0.3}


def file_bytes(e):
    return random.Random(e["seed"]).randbytes(e["size"])


def materialise(spec, root):
    """Create the tree under `root` (which must not exist).  Ownership, modes and times are applied last."""
    os.makedirs(root)
    os.chmod(root, 0o755)

    def real(p):
        return root + p

    for e in spec["entries"]:
        p = real(e["path"])
        t = e["type"]
        if t == "dir":
            os.mkdir(p, 0o700)
        elif t == "file":
            if e.get("hardlink_of"):
                os.link(real(e["hardlink_of"]), p)
            else:
                with open(p, "wb") as f:
                    f.write(file_bytes(e))
        elif t == "link":
            os.symlink(e["target"], p)
        elif t == "fifo":
            os.mkfifo(p, 0o600)
        elif t == "dev":
            os.mknod(p, (stat.S_IFCHR if e["chr"] else stat.S_IFBLK) | 0o600, os.makedev(e["major"], e["minor"]))
        else:
            raise ValueError(t)
    for e in spec["entries"]:
        if e["type"] == "file" and e.get("hardlink_of"):
            continue
        p = real(e["path"])
        os.lchown(p, e["uid"], e["gid"])
        if e["type"] != "link":
            os.chmod(p, e["mode"])
    for e in sorted(spec["entries"], key=lambda e: -e["path"].count("/")):
        if e["type"] == "file" and e.get("hardlink_of"):
            continue
        os.utime(real(e["path"]), ns=(e["mtime_ns"], e["mtime_ns"]), follow_symlinks=False)


def features(spec):
    ents = spec["entries"]
    f = set()
    if any(e["type"] == "file" and e.get("hardlink_of") for e in ents):
        f.add("hardlinks")
    if spec["record"]:
        f.add("recorded-through-symlink")
    if any(e["type"] == "fifo" for e in ents):
        f.add("fifo")
    if any(e["type"] == "dev" for e in ents):
        f.add("device")
    if any(e["type"] == "link" for e in ents):
        f.add("symlink")
    if spec["drop"]:
        f.add("dirs-left-out")
    if any(e["type"] == "file" and e["size"] == 0 for e in ents):
        f.add("zero-byte-file")
    return f
