"""C07 generator: JSON-able *recipes* for restrictions, and look-alike edits of recipes.  No pkgcore import.

A recipe is a list whose first element is a tag; vt/props/C07.py turns it into the real pkgcore object.

value restrictions (judged on a value universe)
  ["StrExact", exact, case_sensitive, negate, route]          route 0: keywords, 1: positional (same meaning)
  ["StrGlob", glob, case_sensitive, prefix, negate]
  ["StrRegex", regex, case_sensitive, match, negate]
  ["Contain", [vals], all, negate, argroute]                  argroute "str" (single value) | "tuple" | "frozenset"
  ["Equality", data, negate]
  ["VerMatch", op, ver, rev, negate]                          restricts._VersionMatch; rev None | digits ("" = Revision(""))
  ["UseDefault", if_missing, [vals], negate]                  restricts._UseDepDefaultContainment
  ["VBool", cls, negate, [children]]                          values.{And,Or}Restriction / JustOne / AtMostOne (value type)
  ["Flatten", child, negate, route]  ["Func", name, negate, route]  ["StrConv", child]  ["AnyMatch", child, negate]
package restrictions (judged on a package universe)
  ["PkgR", attr, child, negate]                               packages.PackageRestriction
  ["VersionMatch", op, ver, rev, negate, route]               route "kw": negate=..., "pos": 4th positional argument
  ["SlotDep"|"SubSlotDep"|"CategoryDep"|"PackageDep"|"RepositoryDep", value, negate]
  ["StaticUseDep", [false_use], [true_use]]   ["UseDepDefault", if_missing, [false_use], [true_use]]
  ["Atom", fields]                                            fields as in vt/gen/c02_pairs.py
  ["PBool", cls, negate, [children]]
  ["Cond", flag, cneg, [payload]]                             packages.Conditional("use", ContainmentMatch(flag, negate=cneg), payload)
dependency sets (no match(); judged on hash, on member conjunction and through the REQUIRED_USE compiler)
  ["DepSet", "atoms", [Atom children]]      ["DepSet", "requse", [Contain(single flag) | VBool | ReqCond children]]
  ["ReqCond", flag, cneg, [children]]       "flag? ( ... )" / "!flag? ( ... )" inside REQUIRED_USE
  (DepSets are rendered to a string and parsed with DepSet.parse the way ebuild_src does)
"""

import copy

from . import c02_pairs as g2
from . import versions as gv

FLAGS = ["x", "y", "z"]
STRS = ["a", "b", "p", "q", "0", "1", "r1", "r2", "Foo", "foo", "FOO", "fo", "1.0"]
VERS = ["1", "1.0", "1.00", "01", "1.1", "1.01", "1.010", "2", "1_alpha", "1_alpha0", "1_p1", "1a", "0.5"]
REVS = [None, "", "0", "00", "1", "01", "2"]
VOPS = ["<", "<=", "=", ">=", ">", "~"]
COMPLEMENT = {"<": ">=", ">=": "<", "<=": ">", ">": "<="}
PKG_ATTR_VALUES = {"category": ["a", "b"], "package": ["p", "q"], "slot": ["0", "1"], "subslot": ["0", "1", "2"],
                   "repo.repo_id": ["r1", "r2"], "fullver": ["1", "1.0", "1.0-r1", "2"]}


# ---------------------------------------------------------------- random recipes
def r_strexact(rng):
    return ["StrExact", rng.choice(STRS), rng.random() < 0.7, rng.random() < 0.3, rng.randrange(2)]


def r_strglob(rng):
    return ["StrGlob", rng.choice(STRS)[: rng.randrange(1, 3)], rng.random() < 0.7, rng.random() < 0.7, rng.random() < 0.3]


def r_strregex(rng):
    return ["StrRegex", rng.choice(["^f", "o+", "^1\\.", "[ab]$", "fo", "^FOO$"]), rng.random() < 0.7, rng.random() < 0.5,
            rng.random() < 0.3]


def r_contain(rng, single=False):
    n = 1 if single else rng.choice([1, 1, 2, 3])
    vals = rng.sample(FLAGS, n)
    route = rng.choice(["str", "tuple", "frozenset"]) if n == 1 else rng.choice(["tuple", "frozenset"])
    return ["Contain", vals, rng.random() < 0.5, rng.random() < 0.4, route]


def r_equality(rng):
    return ["Equality", rng.choice(STRS + [1, 0]), rng.random() < 0.3]


def r_vermatch(rng):
    op = rng.choice(VOPS)
    rev = None if op == "~" and rng.random() < 0.7 else rng.choice(REVS)
    return ["VerMatch", op, rng.choice(VERS), rev, rng.random() < 0.4]


def r_usedefault(rng):
    return ["UseDefault", rng.random() < 0.5, rng.sample(FLAGS, rng.choice([1, 1, 2])), rng.random() < 0.5]


def r_strvalue(rng):
    return rng.choice([r_strexact, r_strexact, r_strglob, r_strregex, r_equality])(rng)


def r_vbool(rng, leaf, depth=0):
    n = rng.choice([2, 2, 3])
    kids = [r_vbool(rng, leaf, depth + 1) if depth < 1 and rng.random() < 0.25 else leaf(rng) for _ in range(n)]
    return ["VBool", rng.choice(["And", "Or", "And", "Or", "JustOne", "AtMostOne"]), rng.random() < 0.3, kids]


def r_value(rng):
    """-> (recipe, universe kind)"""
    c = rng.random()
    if c < 0.22:
        return r_vermatch(rng), "ver"
    if c < 0.36:
        return r_usedefault(rng), "usepair"
    if c < 0.5:
        return r_strvalue(rng), "str"
    if c < 0.6:
        return r_contain(rng), "coll"
    if c < 0.68:
        return r_vbool(rng, r_vermatch), "ver"
    if c < 0.74:
        return r_vbool(rng, r_usedefault), "usepair"
    if c < 0.8:
        return r_vbool(rng, r_strvalue), "str"
    if c < 0.86:
        return r_vbool(rng, r_contain), "coll"
    if c < 0.9:
        return ["Flatten", r_contain(rng), rng.random() < 0.3, rng.randrange(2)], "coll"
    if c < 0.94:
        return ["Func", rng.choice(["len", "bool"]), rng.random() < 0.3, rng.randrange(2)], "coll"
    if c < 0.97:
        return ["StrConv", r_strexact(rng)], "str"
    return ["AnyMatch", r_strexact(rng), rng.random() < 0.3], "coll"


def r_pkgr(rng):
    attr = rng.choice(list(PKG_ATTR_VALUES) + ["use", "use"])
    if attr == "use":
        child = r_contain(rng)
    else:
        v = rng.choice(PKG_ATTR_VALUES[attr])
        child = rng.choice([
            ["StrExact", v, True, rng.random() < 0.3, rng.randrange(2)],
            ["StrExact", v, True, rng.random() < 0.3, rng.randrange(2)],
            ["StrGlob", v[:1], True, True, rng.random() < 0.3],
        ])
    return ["PkgR", attr, child, rng.random() < 0.35]


def r_versionmatch(rng):
    op = rng.choice(VOPS)
    rev = None if op == "~" and rng.random() < 0.7 else rng.choice(REVS)
    return ["VersionMatch", op, rng.choice(VERS), rev, rng.random() < 0.4, rng.choice(["kw", "pos"])]


def r_dep(rng):
    tag = rng.choice(["SlotDep", "SubSlotDep", "CategoryDep", "PackageDep", "RepositoryDep"])
    attr = {"SlotDep": "slot", "SubSlotDep": "subslot", "CategoryDep": "category", "PackageDep": "package",
            "RepositoryDep": "repo.repo_id"}[tag]
    return [tag, rng.choice(PKG_ATTR_VALUES[attr]), rng.random() < 0.3]


def r_usedeps(rng):
    fl = rng.sample(FLAGS, rng.choice([1, 2, 2, 3]))
    k = rng.randrange(len(fl) + 1)
    false_use, true_use = fl[:k], fl[k:]
    if rng.random() < 0.35:
        return ["StaticUseDep", false_use, true_use]
    return ["UseDepDefault", rng.random() < 0.5, false_use, true_use]


def r_atom(rng, static_use=False):
    f = g2.random_atom(rng)
    if f["cat"] not in ("a", "b"):  # keep atoms inside the package universe of C07
        f["cat"] = "a"
    if f["pkg"] not in ("p", "q"):
        f["pkg"] = "p"
    if f.get("ver") is not None and rng.random() < 0.7:
        f["ver"] = rng.choice(VERS)
    if static_use and f.get("use"):
        f["use"] = [t for t in f["use"] if t[-1] not in "?="] or None
    return ["Atom", f]


def r_pleaf(rng):
    c = rng.random()
    if c < 0.3:
        return r_atom(rng)
    if c < 0.5:
        return r_pkgr(rng)
    if c < 0.68:
        return r_versionmatch(rng)
    if c < 0.82:
        return r_dep(rng)
    return r_usedeps(rng)


def r_pbool(rng, depth=0):
    n = rng.choice([2, 2, 3])
    kids = [r_pbool(rng, depth + 1) if depth < 1 and rng.random() < 0.25 else r_pleaf(rng) for _ in range(n)]
    return ["PBool", rng.choice(["And", "Or", "And", "Or", "JustOne", "AtMostOne"]), rng.random() < 0.3, kids]


def r_cond(rng):
    return ["Cond", rng.choice(FLAGS), rng.random() < 0.4, [r_atom(rng, True) for _ in range(rng.choice([1, 2]))]]


def r_requse_node(rng, depth=0):
    c = rng.random()
    if depth >= 2 or c < 0.5:
        return ["Contain", [rng.choice(FLAGS + ["w"])], False, rng.random() < 0.4, "str"]
    if c < 0.8:
        kids = _distinct(rng, lambda: r_requse_node(rng, depth + 1), rng.choice([2, 2, 3]))
        return ["VBool", rng.choice(["Or", "JustOne", "AtMostOne", "And"]), False, kids]
    kids = _distinct(rng, lambda: r_requse_node(rng, depth + 1), rng.choice([1, 2]))
    return ["ReqCond", rng.choice(FLAGS), rng.random() < 0.4, kids]


def _distinct(rng, make, n):
    out = []
    for _ in range(n * 4):
        k = make()
        if k not in out:
            out.append(k)
        if len(out) == n:
            break
    if len(out) < 2 and n >= 2:
        # groups need two distinct members (the parser collapses single-member groups)
        out.append(["Contain", ["v"], False, False, "str"])
    return out


def r_depset(rng):
    if rng.random() < 0.5:
        return ["DepSet", "atoms", _distinct(rng, lambda: r_atom(rng, True), rng.choice([2, 3, 4]))]
    return ["DepSet", "requse", _distinct(rng, lambda: r_requse_node(rng), rng.choice([2, 2, 3]))]


def random_recipe(rng):
    """-> (recipe, universe kind)"""
    c = rng.random()
    if c < 0.4:
        return r_value(rng)
    if c < 0.75:
        return r_pleaf(rng), "pkg"
    if c < 0.87:
        return r_pbool(rng), "pkg"
    if c < 0.9:
        return r_cond(rng), "pkg"
    return r_depset(rng), "depset"


# ---------------------------------------------------------------- look-alike edits
CHILD_SLOTS = {"VBool": 3, "PBool": 3, "Cond": 3, "ReqCond": 3}  # DepSet members are only edited from the top
LIST_SLOT = dict(CHILD_SLOTS, DepSet=2)
SINGLE_CHILD = {"Flatten": 1, "StrConv": 1, "AnyMatch": 1, "PkgR": 2}


def nodes(recipe, path=()):
    """All (path, node) of a recipe tree; a path is a tuple of list indices."""
    yield path, recipe
    tag = recipe[0]
    if tag in CHILD_SLOTS:
        i = CHILD_SLOTS[tag]
        for k, ch in enumerate(recipe[i]):
            yield from nodes(ch, path + (i, k))
    elif tag in SINGLE_CHILD:
        i = SINGLE_CHILD[tag]
        yield from nodes(recipe[i], path + (i,))


def _get(recipe, path):
    for i in path:
        recipe = recipe[i]
    return recipe


def _respell_rev(rng, rev):
    zero = [None, "", "0", "00"]
    if rev in zero:
        return rng.choice([x for x in zero if x != rev])
    return rev[1:] if rev.startswith("0") else "0" + rev


def _swapcase(s):
    t = s.swapcase()
    return t if t != s else s


def edits_for(node):
    tag = node[0]
    e = ["identical"]
    if tag == "StrExact":
        e += ["route", "negate", "case-flag", "case-respell", "value-change"]
    elif tag == "StrGlob":
        e += ["negate", "case-flag", "prefix", "case-respell", "value-change"]
    elif tag == "StrRegex":
        e += ["negate", "case-flag", "match-flag", "value-change"]
    elif tag == "Contain":
        e += ["negate", "all", "argroute", "vals-reorder", "to-usedefault", "value-change"]
    elif tag == "Equality":
        e += ["negate", "value-change"]
    elif tag in ("VerMatch", "VersionMatch"):
        e += ["negate", "negate", "op-complement", "op-complement", "rev-respell", "rev-respell", "ver-respell", "to-tilde",
              "value-change", "rev-change", "op-change"]
        if tag == "VersionMatch":
            e += ["route"]
    elif tag in ("UseDefault", "UseDepDefault"):
        e += ["if-missing", "if-missing", "value-change"]
        if tag == "UseDefault":
            e += ["negate"]
    elif tag in ("VBool", "PBool"):
        e += ["negate", "permute", "dup-child", "class"]
    elif tag in ("Flatten", "Func"):
        e += ["route", "negate"]
    elif tag == "AnyMatch":
        e += ["negate"]
    elif tag == "PkgR":
        e += ["negate", "negate-move", "attr-change"]
    elif tag in ("SlotDep", "SubSlotDep", "CategoryDep", "PackageDep", "RepositoryDep"):
        e += ["negate", "value-change", "dep-class"]
    elif tag == "StaticUseDep":
        e += ["swap-lists", "value-change"]
    elif tag == "Atom":
        e += ["atom:" + x for x in ("use-reorder", "blocker-strength", "ver-respelled", "rev-respelled", "use-default",
                                    "use-default", "subslot", "slotop", "negate_vers", "use-token", "slot", "repo",
                                    "blocker", "op", "ver-mutated", "cat", "pkg", "use-dup")]
    elif tag in ("Cond", "ReqCond"):
        e += ["cneg", "permute"]
    elif tag == "DepSet":
        e += ["permute", "permute", "dup-child", "drop-member"]
    return e


def apply_edit(rng, recipe, path, edit):
    """-> edited deep copy of recipe (may equal the original when the edit does not apply)."""
    new = copy.deepcopy(recipe)
    n = _get(new, path)
    tag = n[0]
    if edit == "identical":
        return new
    if edit == "negate":
        i = {"StrExact": 3, "StrGlob": 4, "StrRegex": 4, "Contain": 3, "Equality": 2, "VerMatch": 4, "VersionMatch": 4,
             "UseDefault": 3, "VBool": 2, "PBool": 2, "Flatten": 2, "Func": 2, "AnyMatch": 2, "PkgR": 3, "SlotDep": 2,
             "SubSlotDep": 2, "CategoryDep": 2, "PackageDep": 2, "RepositoryDep": 2}[tag]
        n[i] = not n[i]
    elif edit == "route":
        if tag == "VersionMatch":
            n[5] = "pos" if n[5] == "kw" else "kw"
        else:
            i = {"StrExact": 4, "Flatten": 3, "Func": 3}[tag]
            n[i] = 1 - n[i]
    elif edit == "case-flag":
        n[2] = not n[2]
    elif edit == "case-respell":
        n[1] = _swapcase(n[1])
        n[2] = False
        # the base must be case-insensitive too for this to be a look-alike
        b = _get(recipe, path)
        b[2] = False
    elif edit == "prefix":
        n[3] = not n[3]
    elif edit == "match-flag":
        n[3] = not n[3]
    elif edit == "all":
        n[2] = not n[2]
    elif edit == "argroute":
        n[4] = rng.choice([x for x in (["str"] if len(n[1]) == 1 else []) + ["tuple", "frozenset"] if x != n[4]])
    elif edit == "vals-reorder":
        n[1] = list(reversed(n[1]))
        if n[4] == "str":
            n[4] = "tuple"
    elif edit == "to-usedefault":
        # same flags as a USE-default containment (restricts._UseDepDefaultContainment is a ContainmentMatch subclass)
        b = _get(recipe, path)
        b[2] = True
        n[:] = ["UseDefault", rng.random() < 0.5, list(b[1]), b[3]]
    elif edit == "value-change":
        if tag in ("StrExact", "StrGlob", "Equality"):
            n[1] = rng.choice([x for x in STRS if x != n[1]])
        elif tag == "StrRegex":
            n[1] = rng.choice([x for x in ("^f", "o+", "^1\\.", "[ab]$", "fo", "^FOO$") if x != n[1]])
        elif tag == "Contain":
            n[1] = [rng.choice([f for f in FLAGS if f != n[1][0]])] + n[1][1:]
            n[1] = sorted(set(n[1]), key=n[1].index)
            if len(n[1]) > 1 and n[4] == "str":
                n[4] = "tuple"
        elif tag in ("VerMatch", "VersionMatch"):
            n[2] = rng.choice([x for x in VERS if x != n[2]])
        elif tag == "UseDefault":
            n[2] = [rng.choice([f for f in FLAGS if f not in n[2]] or ["w"])] + n[2][1:]
        elif tag == "UseDepDefault":
            i = 2 if n[2] else 3
            n[i] = [rng.choice([f for f in FLAGS if f not in n[2] + n[3]] or ["w"])] + n[i][1:]
        elif tag == "StaticUseDep":
            i = 1 if n[1] else 2
            n[i] = [rng.choice([f for f in FLAGS if f not in n[1] + n[2]] or ["w"])] + n[i][1:]
        else:  # the *Dep wrappers
            attr = {"SlotDep": "slot", "SubSlotDep": "subslot", "CategoryDep": "category", "PackageDep": "package",
                    "RepositoryDep": "repo.repo_id"}[tag]
            n[1] = rng.choice([x for x in PKG_ATTR_VALUES[attr] if x != n[1]])
    elif edit == "rev-change":
        n[3] = rng.choice([x for x in ("1", "2", "3", None) if (int(x or 0) != int(n[3] or 0))])
    elif edit == "op-change":
        n[1] = rng.choice([x for x in VOPS if x != n[1]])
    elif edit == "attr-change":
        n[1] = rng.choice([x for x in list(PKG_ATTR_VALUES) + ["use"] if x != n[1]])
    elif edit == "dep-class":
        n[0] = rng.choice([x for x in ("SlotDep", "SubSlotDep", "CategoryDep", "PackageDep", "RepositoryDep") if x != tag])
    elif edit == "op-complement":
        if n[1] in COMPLEMENT:
            n[1] = COMPLEMENT[n[1]]
            n[4] = not n[4]
        else:
            n[4] = not n[4]
    elif edit == "rev-respell":
        if n[1] == "~":
            n[3] = rng.choice([x for x in (None, "", "0") if x != n[3]]) if n[3] in (None, "", "0", "00") else n[3]
        else:
            n[3] = _respell_rev(rng, n[3])
    elif edit == "ver-respell":
        n[2] = g2.respell_version(rng, n[2])
    elif edit == "to-tilde":
        n[1] = "~"
        b = _get(recipe, path)
        b[1] = "~"
        n[4] = not b[4]
    elif edit == "if-missing":
        n[1] = not n[1]
    elif edit == "permute":
        i = LIST_SLOT[tag]
        if len(n[i]) > 1:
            k = list(n[i])
            for _ in range(8):
                rng.shuffle(k)
                if k != n[i]:
                    break
            n[i] = k
    elif edit == "dup-child":
        i = LIST_SLOT[tag]
        n[i] = n[i] + [copy.deepcopy(rng.choice(n[i]))]
    elif edit == "drop-member":
        if len(n[2]) > 2:
            n[2] = n[2][:-1]
    elif edit == "class":
        n[1] = rng.choice([x for x in ("And", "Or", "JustOne", "AtMostOne") if x != n[1]])
    elif edit == "negate-move":
        child = n[2]
        ci = {"StrExact": 3, "StrGlob": 4, "Contain": 3}.get(child[0])
        if ci is not None:
            n[3] = not n[3]
            child[ci] = not child[ci]
    elif edit == "swap-lists":
        n[1], n[2] = n[2], n[1]
    elif edit == "cneg":
        n[2] = not n[2]
    elif edit.startswith("atom:"):
        base = _get(recipe, path)
        f, _lab = g2.edit_atom(rng, base[1], edit[5:])
        n[1] = f
    else:
        raise ValueError(edit)
    return new


def lookalike(rng, recipe):
    """-> (variant recipe, label).  `recipe` itself may be adjusted in place so that the edit applies."""
    allnodes = list(nodes(recipe))
    path, node = rng.choice(allnodes)
    edit = rng.choice(edits_for(node))
    return apply_edit(rng, recipe, path, edit), node[0] + ":" + edit
