"""Random REQUIRED_USE trees over <=5 flags (||, ^^, ??, flag?, !flag?, ( ), negated leaves; nesting <=3)."""

FLAGS = ["a", "b", "c", "d", "e"]


def gen_tree(rng, flags, max_depth=3, max_leaves=6):
    state = {"left": rng.randint(1, max_leaves)}

    def leaf():
        state["left"] -= 1
        return ["tok", ("!" if rng.random() < 0.3 else "") + rng.choice(flags)]

    def nodes(depth):
        out = []
        n = rng.choice([1, 2, 2, 3]) if depth else rng.choice([1, 1, 2, 2, 3])
        for _ in range(n):
            if state["left"] <= 0 and out:
                break
            if depth >= max_depth or rng.random() < 0.4:
                out.append(leaf())
                continue
            k = rng.choice(["cond", "cond", "any", "any", "xor", "xor", "amo", "amo", "all"])
            if k == "cond":
                out.append(["cond", rng.choice(flags), rng.random() < 0.35, nodes(depth + 1)])
            else:
                ch = nodes(depth + 1)
                if len(ch) < 2 and rng.random() < 0.85:
                    ch.append(leaf())
                out.append([k, ch])
        if not out:
            out.append(leaf())
        return out

    return nodes(0)


def subset(rng, items, p):
    return [x for x in items if rng.random() < p]
