"""C11 history generator: programs over a small register file of ChunkedDataDict / PayloadDict instances.

A program is a list of JSON-able steps:
    {"op": "new",      "v": i, "kls": "C"|"P"}
    {"op": "bare",     "v": i, "neg": [...], "pos": [...]}      add_bare_global
    {"op": "glob",     "v": i, "e": entry}                      add_global(item)       (entry r is "*" or "c/*")
    {"op": "add",      "v": i, "e": entry}                      add(item)              (any r)
    {"op": "stream",   "v": i, "es": [entry, ...]}              update_from_stream(items)
    {"op": "merge",    "v": i, "w": j}                          v.merge(w)
    {"op": "freeze",   "v": i}
    {"op": "clone",    "v": i, "to": k, "unfreeze": bool}       k = v.clone(unfreeze=...)
    {"op": "optimize", "v": i, "cache": null|"s"}               optimize(cache=None | the program-wide shared dict)
    {"op": "render",   "v": i}                                  render_to_dict() (must not change anything)

Supported-usage preconditions (tracked by `State`, enforced by `validate`):
  * a frozen instance is never mutated (bare/glob/add/stream/merge-into);
  * an instance that went through optimize() is never mutated either (its lists became tuples: mutating it raises
    AttributeError, a crash and not a wrong flag set) -- mutation continues on a clone;
  * merge only between instances of the same class;
  * PayloadDict entries never use PREFIX_* wildcards (its token payloads only know -flag and -*).
"""

FLAGS = ["a", "b", "c", "foo_x", "foo_y", "bar_z"]
PKGS = [
    {"cpv": "c/p-1", "slot": "1"},
    {"cpv": "c/p-2", "slot": "2"},
    {"cpv": "c/p-3", "slot": "1"},
    {"cpv": "c/q-1", "slot": "1"},
    {"cpv": "d/z-1", "slot": "0"},  # key never named by any entry
]
GLOBAL_R = ["*", "*", "*", "*", "c/*"]
SPECIFIC_R = ["c/p", "c/p", "=c/p-1", "=c/p-2", "c/p:1", "c/q", "=c/q-1", "c/p:2"]
MAX_REGS = 4
MUTATORS = ("bare", "glob", "add", "stream", "merge")


class State:
    """Abstract (shadow) state of the register file: which registers exist, class, frozen, optimized."""

    def __init__(self):
        self.kls = {}
        self.frozen = {}
        self.sealed = {}

    def copy(self):
        s = State()
        s.kls, s.frozen, s.sealed = dict(self.kls), dict(self.frozen), dict(self.sealed)
        return s

    def mutable(self, v):
        return v in self.kls and not self.frozen[v] and not self.sealed[v]

    def ok(self, st):
        """Is `st` a supported step in this state?"""
        op = st["op"]
        v = st["v"]
        if op == "new":
            return v not in self.kls and st["kls"] in ("C", "P")
        if v not in self.kls:
            return False
        if op in ("bare", "glob", "add", "stream"):
            if not self.mutable(v):
                return False
            es = st["es"] if op == "stream" else [st.get("e") or {"r": "*", "neg": st["neg"], "pos": st["pos"]}]
            for e in es:
                if not e["neg"] and not e["pos"]:
                    return False
                if set(e["neg"]) & set(e["pos"]):
                    return False
                if self.kls[v] == "P" and any(n.endswith("_*") for n in e["neg"]):
                    return False
                if op == "glob" and e["r"] not in ("*", "c/*"):
                    return False
            return True
        if op == "merge":
            w = st["w"]
            return w in self.kls and w != v and self.mutable(v) and self.kls[v] == self.kls[w]
        if op == "clone":
            return st["to"] not in self.kls
        if op in ("freeze", "optimize", "render"):
            return True
        return False

    def apply(self, st):
        op, v = st["op"], st["v"]
        if op == "new":
            self.kls[v], self.frozen[v], self.sealed[v] = st["kls"], False, False
        elif op == "freeze":
            self.frozen[v] = True
        elif op == "optimize":
            self.sealed[v] = True
        elif op == "clone":
            k = st["to"]
            self.kls[k] = self.kls[v]
            if self.frozen[v] and not st["unfreeze"]:
                self.frozen[k], self.sealed[k] = True, self.sealed[v]
            else:
                self.frozen[k], self.sealed[k] = False, False


def validate(prog):
    s = State()
    for st in prog:
        if not s.ok(st):
            return False
        s.apply(st)
    return True


def gen_entry(rng, rs, kls):
    r = rng.choice(rs)
    flags = FLAGS[:]
    rng.shuffle(flags)
    k = rng.choice([1, 1, 2, 2, 3])
    picked = flags[:k]
    neg, pos = [], []
    for f in picked:
        (neg if rng.random() < 0.45 else pos).append(f)
    x = rng.random()
    if x < 0.18:
        neg.insert(0, "*")
    elif x < 0.30 and kls == "C":
        pre = rng.choice(["foo_*", "foo_*", "bar_*"])
        neg.append(pre)
    return {"r": r, "neg": neg, "pos": pos}


def gen_program(rng, max_steps=12, p_payload=0.15):
    """Random valid program."""
    s = State()
    prog = []
    kls = "P" if rng.random() < p_payload else "C"

    def emit(st):
        assert s.ok(st), st
        s.apply(st)
        prog.append(st)

    emit({"op": "new", "v": 0, "kls": kls})
    n = rng.randint(3, max_steps)
    tries = 0
    while len(prog) < n and tries < 200:
        tries += 1
        regs = sorted(s.kls)
        v = rng.choice(regs)
        x = rng.random()
        mut = s.mutable(v)
        if x < 0.10 and len(regs) < MAX_REGS:
            st = {"op": "new", "v": len(regs), "kls": kls}
        elif x < 0.22 and mut:
            e = gen_entry(rng, ["*"], kls)
            st = {"op": "bare", "v": v, "neg": e["neg"], "pos": e["pos"]}
        elif x < 0.32 and mut:
            st = {"op": "glob", "v": v, "e": gen_entry(rng, GLOBAL_R, kls)}
        elif x < 0.52 and mut:
            st = {"op": "add", "v": v, "e": gen_entry(rng, SPECIFIC_R + ["*"], kls)}
        elif x < 0.62 and mut:
            es = [gen_entry(rng, SPECIFIC_R + GLOBAL_R, kls) for _ in range(rng.randint(1, 3))]
            st = {"op": "stream", "v": v, "es": es}
        elif x < 0.72 and mut and len(regs) > 1:
            w = rng.choice([r for r in regs if r != v])
            st = {"op": "merge", "v": v, "w": w}
        elif x < 0.78:
            st = {"op": "freeze", "v": v}
        elif x < 0.90 and len(regs) < MAX_REGS:
            st = {"op": "clone", "v": v, "to": len(regs), "unfreeze": rng.random() < 0.5}
        elif x < 0.97:
            st = {"op": "optimize", "v": v, "cache": rng.choice([None, "s"])}
        else:
            st = {"op": "render", "v": v}
        if s.ok(st):
            emit(st)
    return prog


def entries_of(st):
    op = st["op"]
    if op == "bare":
        return [{"r": "*", "neg": st["neg"], "pos": st["pos"]}]
    if op in ("glob", "add"):
        return [st["e"]]
    if op == "stream":
        return list(st["es"])
    return []


def shadow_logs(prog):
    """Ordered entry log per register after the whole program (merge = concatenation, clone = copy)."""
    logs = {}
    for st in prog:
        op, v = st["op"], st["v"]
        if op == "new":
            logs[v] = []
        elif op == "merge":
            logs[v] = logs[v] + logs[st["w"]]
        elif op == "clone":
            logs[st["to"]] = list(logs[v])
        else:
            logs[v] = logs[v] + entries_of(st)
    return logs


def _variants(st):
    """Simpler versions of one step (fewer entries / fewer flags / simpler op)."""
    op = st["op"]
    if op == "stream":
        es = st["es"]
        if len(es) > 1:
            for i in range(len(es)):
                yield dict(st, es=es[:i] + es[i + 1:])
        if len(es) == 1:
            yield {"op": "add", "v": st["v"], "e": es[0]}
        for i, e in enumerate(es):
            for e2 in _entry_variants(e):
                yield dict(st, es=es[:i] + [e2] + es[i + 1:])
    elif op in ("glob", "add"):
        for e2 in _entry_variants(st["e"]):
            yield dict(st, e=e2)
        if op == "glob" and st["e"]["r"] == "*":
            yield {"op": "bare", "v": st["v"], "neg": st["e"]["neg"], "pos": st["e"]["pos"]}
        if op == "add" and st["e"]["r"] == "*":
            yield {"op": "bare", "v": st["v"], "neg": st["e"]["neg"], "pos": st["e"]["pos"]}
    elif op == "bare":
        for e2 in _entry_variants({"r": "*", "neg": st["neg"], "pos": st["pos"]}):
            yield dict(st, neg=e2["neg"], pos=e2["pos"])
    elif op == "optimize" and st["cache"] is not None:
        yield dict(st, cache=None)
    elif op == "clone":
        yield {"op": "new", "v": st["to"], "kls": "C"}
        yield {"op": "new", "v": st["to"], "kls": "P"}
        if st["unfreeze"]:
            yield dict(st, unfreeze=False)


def _entry_variants(e):
    for i in range(len(e["neg"])):
        yield dict(e, neg=e["neg"][:i] + e["neg"][i + 1:])
    for i in range(len(e["pos"])):
        yield dict(e, pos=e["pos"][:i] + e["pos"][i + 1:])


def minimise(prog, pre, fails, max_runs=1500):
    """Greedy delta debugging: delete steps, simplify steps, shrink pre, while fails(prog, pre) stays True."""
    runs = [0]

    def test(p, q):
        if runs[0] >= max_runs or not validate(p):
            return False
        runs[0] += 1
        return fails(p, q)

    prog = list(prog)
    pre = list(pre)
    changed = True
    while changed and runs[0] < max_runs:
        changed = False
        i = len(prog) - 1
        while i >= 0:
            cand = prog[:i] + prog[i + 1:]
            if test(cand, pre):
                prog = cand
                changed = True
            i -= 1
        for i in range(len(prog)):
            again = True
            while again:
                again = False
                for v in _variants(prog[i]):
                    cand = prog[:i] + [v] + prog[i + 1:]
                    if test(cand, pre):
                        prog = cand
                        changed = again = True
                        break
        for i in range(len(pre) - 1, -1, -1):
            cand = pre[:i] + pre[i + 1:]
            if test(prog, cand):
                pre = cand
                changed = True
    return prog, pre
