"""C28 generators: package directory specs (see vt/ref/c28_manifest.py for the spec format) and mutations."""

import copy

from ..ref import c28_manifest as ref

CHF_SETS = [["size", "blake2b", "sha512"], ["size", "blake2b"], ["size", "sha256", "sha512", "rmd160"], ["size", "md5"],
            ["size", "sha1", "sha3_256", "blake2s"], ["size", "sha3_512"], ["size"]]
DIST_CHF_SETS = [["size", "blake2b", "sha512"], ["size", "blake2b"], ["size", "sha256"], ["size", "md5", "sha1", "rmd160"], ["size"]]
HEXBITS = {"blake2b": 512, "blake2s": 256, "md5": 128, "rmd160": 160, "sha1": 160, "sha256": 256, "sha3_256": 256,
           "sha3_512": 512, "sha512": 512}
# names chosen so that byte order, case-folded order, locale order and length order all disagree
BASENAMES = ["a", "B", "b", "Z", "_x", "-dash", "+plus", "0", "10", "9", "a.patch", "A.patch", "a-b", "a_b", "ab", "a.b", "é", "zz",
             "Manifest.bak", "manifest", "Manifest~", ".hidden", ".keep", "README", "ChangeLog", "metadata.xml", "x.ebuild.orig",
             "日本", "files.txt", "cvs", "CVS.txt", ".svnignore", "ebuild", "~", "a" * 60, "fix-1.2.patch", "fix-1.10.patch"]
SUBDIRS = ["sub", "Sub", "a", "b-dir", "x.d", "deep/er", "deep/er/still", "é", "_"]
SIZES = [0, 0, 1, 2, 5, 17, 100, 4095, 4096, 8191, 8192, 8193, 65536]
BIG_SIZES = [131071, 131072, 131073, 262145]
VERS = ["0", "1", "1.0", "1.0-r1", "2.4.2", "10", "9", "1.10", "1.9", "0_pre1", "9999"]


def content(rng, allow_big=False):
    r = rng.random()
    if r < 0.35:
        return ["lit", rng.choice(["", "EAPI=8\n", "p\n", "# é\n", "x", "\n", "a b\tc\n", "\x00\x01"])]
    size = rng.choice(BIG_SIZES) if allow_big and r > 0.97 else rng.choice(SIZES) if r < 0.8 else rng.randrange(0, 3000)
    return ["rnd", rng.randrange(1 << 30), size]


def dist_entry(rng, name, chfs):
    ck = {}
    for c in chfs:
        if c == "size":
            ck[c] = rng.choice([0, 1, 7, 1024, 7853169, (1 << 31) + 5, (1 << 40) + 1])
        else:
            bits = HEXBITS[c]
            ck[c] = rng.choice([0, 1, 0xAB, (1 << bits) - 1, 1 << (bits - 1), 1 << (bits - 5)]) if rng.random() < 0.5 else rng.getrandbits(bits)
    return {"filename": name, "chksums": ck}


def spec(rng, big=False, thin=None):
    pn = rng.choice(["pkg", "foo-bar", "x", "Pkg_9", "libfoo+"])
    r = rng.random()
    thin = r < 0.3 if thin is None else thin
    files, excluded, symlinks = {}, {}, {}
    for v in rng.sample(VERS, rng.randrange(1, 6)):
        files["%s-%s.ebuild" % (pn, v)] = content(rng)
    if rng.random() < 0.8:
        files["metadata.xml"] = content(rng)
    for n in rng.sample(BASENAMES, rng.choice([0, 0, 1, 2, 4, 8] if not big else [20])):
        files[n] = content(rng, allow_big=True)
    naux = rng.choice([0, 1, 2, 3, 6, 12] if not big else [30])
    for _ in range(naux):
        d = rng.choice(["", "", ""] + SUBDIRS)
        n = rng.choice(BASENAMES + ["%s-%s.ebuild" % (pn, rng.choice(VERS))])
        rel = "files/" + (d + "/" if d else "") + n
        if not any(rel.startswith(o + "/") or o.startswith(rel + "/") for o in files):
            files[rel] = content(rng, allow_big=True)
    # version-control droppings that a Manifest must not cover
    if rng.random() < 0.4:
        for base in rng.sample(["CVS", ".svn", "files/CVS", "files/.svn", "files/sub/CVS", "files/deep/er/.svn"], rng.randrange(1, 3)):
            if not any(o == base or o.startswith(base + "/") for o in files):
                for n in rng.sample(["Entries", "Root", "entries", "a.patch", "x/y"], rng.randrange(1, 3)):
                    excluded[base + "/" + n] = content(rng)
    if rng.random() < 0.2:
        symlinks[rng.choice(["link.ebuild", "files/lnk", "lnk", "files/dangling"])] = rng.choice(["metadata.xml", "/nonexistent", "files"])
    symlinks = {k: v for k, v in symlinks.items() if k not in files}
    chfs = list(rng.choice(CHF_SETS))
    dchfs = list(rng.choice(DIST_CHF_SETS))
    ndist = rng.choice([0, 1, 2, 3, 5] if not thin else [0, 1, 2, 3, 5, 8])
    if big:
        ndist = 12
    names = set()
    while len(names) < ndist:
        names.add(rng.choice([pn, "Python", "a", "Z", "é", "z_"]) + "-" + rng.choice(VERS) + rng.choice([".tar.gz", ".tar.xz", ".zip", ".patch.bz2", ""]))
    dist = [dist_entry(rng, n, dchfs) for n in sorted(names)]
    rng.shuffle(dist)
    return {"pn": pn, "files": files, "excluded": excluded, "symlinks": symlinks, "dist": dist, "chfs": chfs, "thin": thin}


def mutate(rng, sp):
    """-> (mutation, new_spec). The mutation changes what the Manifest has to say (for thin specs: the distfiles)."""
    for _ in range(20):
        mut, new = _mutate_once(rng, sp)
        if ref.expected_maps(new) != ref.expected_maps(sp):
            return mut, new
    raise RuntimeError("no effective mutation found")


def _mutate_once(rng, sp):
    new = copy.deepcopy(sp)
    kinds = ["dist-change", "dist-add"] if sp["thin"] else ["same-size", "rewrite", "add", "remove", "dist-change", "dist-add"]
    if sp["thin"] and len(sp["dist"]) > 1:
        kinds.append("dist-remove")
    for _ in range(50):
        kind = rng.choice(kinds)
        if kind == "same-size":
            cands = [k for k, c in new["files"].items() if c[0] == "rnd" and c[2] > 0]
            if not cands:
                continue
            k = rng.choice(sorted(cands))
            new["files"][k] = ["rnd", new["files"][k][1] + 1, new["files"][k][2]]
            return ["write", k, new["files"][k]], new
        if kind == "rewrite":
            k = rng.choice(sorted(new["files"]))
            c = content(rng)
            if c == new["files"][k]:
                continue
            new["files"][k] = c
            return ["write", k, c], new
        if kind == "add":
            k = rng.choice(["new-file", "files/new.patch", "%s-77.ebuild" % sp["pn"], "files/sub/new"])
            if k in new["files"] or any(o.startswith(k + "/") or k.startswith(o + "/") for o in new["files"]):
                continue
            new["files"][k] = content(rng)
            return ["write", k, new["files"][k]], new
        if kind == "remove":
            if len(new["files"]) < 2:
                continue
            k = rng.choice(sorted(new["files"]))
            del new["files"][k]
            return ["remove", k], new
        if kind == "dist-change":
            if not new["dist"]:
                continue
            i = rng.randrange(len(new["dist"]))
            ck = new["dist"][i]["chksums"]
            c = rng.choice(sorted(ck))
            ck[c] = ck[c] + 1 if c == "size" or ck[c] == 0 else ck[c] - 1
            return ["dist-set", new["dist"]], new
        if kind == "dist-add":
            n = "added-%d.tar" % rng.randrange(1000)
            chfs = sorted(new["dist"][0]["chksums"]) if new["dist"] else ["size", "blake2b"]
            new["dist"].append(dist_entry(rng, n, chfs))
            return ["dist-set", new["dist"]], new
        if kind == "dist-remove":
            new["dist"].pop(rng.randrange(len(new["dist"])))
            return ["dist-set", new["dist"]], new
    raise RuntimeError("no mutation applicable")
