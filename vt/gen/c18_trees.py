"""Scenario generator + materialiser for the merge properties (C18, C19).

A scenario is a JSON-able dict

    {"src":  [entry, ...]      paths relative to <W>/src   (the package image that is scanned and merged)
     "pre":  [entry, ...]      paths relative to <W>       ("root/..." = the live root, "outside/..." = neighbours)
     "mode": "offset" | "offset-slash" | "no-offset"
     "drop": [src dir paths left out of the contents set (=> 'missing parent directories')]
     "root_missing": bool      the offset directory itself does not exist yet
     "tags": [str]}            what the generator put in on purpose (evidence only)

entry = {"p": path, "t": "dir"|"file"|"link"|"fifo"|"dev", "mode", "uid", "gid", "mt" (ns)}
        file: "seed", "size", optional "hl" (hard-link group: same inode as the first entry of that group)
        link: "target" ("@W@" stands for the absolute scenario directory)
        dev:  "major", "minor" (character device)

Nothing in here imports pkgcore.
"""

import hashlib
import os
import stat

DIRNAMES = ["usr", "lib", "etc", "d1", "d sp", "ünï", ".hid", "a#b", "bin", "share", "lib64", "-x", "sp end "]
FILENAMES = ["f1", "f 2", "π.txt", "-dash", "x~", ".dot", "g#h", "h", "lib.so.1", "Ω", "tab\tname",
             "nl\nname", "q'uote", "star*", "f1#newer", "UPPER", "semi;colon", "back\\slash", "trail ", " lead"]
SIZES_SMALL = [0, 1, 2, 7, 100, 511, 4096, 5000]
SIZES_BIG = [32767, 32768, 32769, 65537, 120000, 200000]
FILE_MODES = [0o644, 0o755, 0o600, 0o444, 0o640, 0o4755, 0o2755, 0o4711, 0o664, 0o400, 0o711, 0o6755]
DIR_MODES = [0o755, 0o700, 0o750, 0o711, 0o1777, 0o2755, 0o775, 0o555]
IDS = [0, 0, 0, 1, 2, 250, 1000, 65534]
T0 = 946684800  # 2000-01-01


def data_bytes(seed, size):
    if size == 0:
        return b""
    return hashlib.shake_128(b"c18:%d" % seed).digest(size)


def _meta(rng, kind):
    if kind == "dir":
        mode = rng.choice(DIR_MODES)
    elif kind == "link":
        mode = 0o777
    else:
        mode = rng.choice(FILE_MODES)
    uid = rng.choice(IDS)
    gid = rng.choice(IDS)
    mt = rng.randrange(T0, T0 + 700_000_000) * 1_000_000_000
    r = rng.random()
    if r < 0.25:
        mt += rng.randrange(1, 999_999_999)  # sub-second part
    elif r < 0.30:
        mt = rng.choice([0, 1, 2_000_000_000]) * 1_000_000_000  # epoch / far future
    return {"mode": mode, "uid": uid, "gid": gid, "mt": mt}


def _size(rng, big_ok=True):
    if big_ok and rng.random() < 0.12:
        return rng.choice(SIZES_BIG)
    if rng.random() < 0.3:
        return rng.randrange(0, 3000)
    return rng.choice(SIZES_SMALL)


class _Seq:
    def __init__(self, rng):
        self.rng = rng
        self.n = rng.randrange(1, 1 << 30)

    def __call__(self):
        self.n += 1
        return self.n


def _join(a, b):
    if not b:
        return a
    return b if not a else a + "/" + b


def _rel(frm_dir, to):
    """relative path from directory frm_dir to path `to` (both relative to the same base)."""
    return os.path.relpath("/" + to, "/" + frm_dir) if frm_dir else to


def gen_src(rng, seq, nmin=2, nmax=9, big_ok=True, dev_ok=True):
    ents = []
    dirs = []
    used = set()
    for _ in range(rng.randint(1, 5)):
        parent = rng.choice([""] + dirs)
        if parent.count("/") >= 2:
            parent = ""
        name = rng.choice(DIRNAMES)
        p = _join(parent, name)
        if p in used:
            continue
        used.add(p)
        dirs.append(p)
        ents.append(dict(_meta(rng, "dir"), p=p, t="dir"))
    files = []
    hl = 0
    for _ in range(rng.randint(nmin, nmax)):
        parent = rng.choice(dirs + dirs + [""])
        name = rng.choice(FILENAMES)
        p = _join(parent, name)
        if p in used:
            continue
        used.add(p)
        r = rng.random()
        if r < 0.48 or (r < 0.62 and not files):
            e = dict(_meta(rng, "file"), p=p, t="file", seed=seq(), size=_size(rng, big_ok))
            files.append(e)
        elif r < 0.62:
            first = rng.choice(files)
            if "hl" not in first:
                hl += 1
                first["hl"] = hl
            e = dict(first, p=p)
            files.append(e)
        elif r < 0.86:
            k = rng.random()
            if k < 0.3 and files:
                tgt = _rel(parent, rng.choice(files)["p"])
            elif k < 0.55 and dirs:
                tgt = _rel(parent, rng.choice(dirs))
            elif k < 0.7:
                tgt = "no/such target"
            elif k < 0.8:
                tgt = "/etc/hostname"
            elif k < 0.9:
                tgt = "@W@/outside/odir"
            else:
                tgt = rng.choice(["..", ".", "../..", "a//b/./c", "x" * 200])
            e = dict(_meta(rng, "link"), p=p, t="link", target=tgt)
        elif r < 0.96 or not dev_ok:
            e = dict(_meta(rng, "fifo"), p=p, t="fifo")
        else:
            e = dict(_meta(rng, "file"), p=p, t="dev", major=1, minor=rng.choice([3, 5, 7]))
        ents.append(e)
    if not files:
        p = _join(rng.choice(dirs + [""]), "only")
        if p not in used:
            ents.append(dict(_meta(rng, "file"), p=p, t="file", seed=seq(), size=_size(rng, big_ok)))
    return ents


def _dangling_target(rng, rp, n):
    """Target of a symlink that resolves to nothing: relative/absolute x inside/outside the live root."""
    k = rng.randrange(5)
    if k == 0:
        return "gone-%d" % n                                   # relative, next to the link
    if k == 1:
        return "no such dir/x-%d" % n                          # relative, missing directory
    if k == 2:
        return "@W@/root/absent-%d" % n                        # absolute, inside the root
    if k == 3:
        return "@W@/outside/missing-%d" % n                    # absolute, outside the root
    return _rel(os.path.dirname(rp), "outside/missing-%d" % n)  # relative, outside the root


def _alias_candidates(srcdirs, p, dirlike):
    return [d for d in srcdirs if d != p and not d.startswith(p + "/") and not p.startswith(d + "/") and d in dirlike]


def gen_pre(rng, seq, src, p_pre=0.5, residue=False, alias=False, clash_ok=True, big_ok=True):
    """Pre-existing state of <W>: root/... counterparts of src entries + unrelated neighbours."""
    pre = [{"p": "outside", "t": "dir", "mode": 0o755, "uid": 0, "gid": 0, "mt": T0 * 10**9},
           {"p": "outside/odir", "t": "dir", "mode": 0o751, "uid": 1, "gid": 2, "mt": (T0 + 5) * 10**9},
           dict(_meta(rng, "file"), p="outside/ofile", t="file", seed=seq(), size=_size(rng, False)),
           {"p": "root", "t": "dir", "mode": 0o755, "uid": 0, "gid": 0, "mt": (T0 + 9) * 10**9}]
    tags = set()
    dirlike = {""}      # src dir paths whose root counterpart is a directory or a symlink to one
    srcdirs = [e["p"] for e in src if e["t"] == "dir"]
    nout = [0]

    def outside_file():
        nout[0] += 1
        e = dict(_meta(rng, "file"), p="outside/peer%d" % nout[0], t="file", seed=seq(), size=_size(rng, False))
        pre.append(e)
        return e

    def unrelated(parent_rootrel):
        if rng.random() < 0.5:
            nout[0] += 1
            pre.append(dict(_meta(rng, "file"), p=_join(_join("root", parent_rootrel), "unrel%d" % nout[0]), t="file",
                            seed=seq(), size=_size(rng, False)))

    unrelated("")
    for e in src:
        p = e["p"]
        parent = os.path.dirname(p)
        if parent not in dirlike:
            continue
        force = bool(e.get("_force_pre"))
        if rng.random() >= p_pre and not force:
            continue
        rp = "root/" + p
        r = rng.random()
        if e["t"] == "dir":
            if r < 0.55 or not clash_ok and r >= 0.9:
                pre.append(dict(_meta(rng, "dir"), p=rp, t="dir"))
                dirlike.add(p)
                unrelated(p)
                tags.add("pre:dir-same")
            elif alias and r < 0.84 and _alias_candidates(srcdirs, p, dirlike) and rng.random() < 0.7:
                o = rng.choice(_alias_candidates(srcdirs, p, dirlike))
                pre.append(dict(_meta(rng, "link"), p=rp, t="link", target="@W@/root/" + o))
                dirlike.add(p)
                tags.add("pre:dir-alias-of-other-set-dir")
            elif r < 0.68:
                real = rp + ".real"
                pre.append(dict(_meta(rng, "dir"), p=real, t="dir"))
                pre.append(dict(_meta(rng, "link"), p=rp, t="link", target=os.path.basename(real)))
                dirlike.add(p)
                unrelated(p + ".real")
                tags.add("pre:dir-as-symlink-rel")
            elif r < 0.78:
                nout[0] += 1
                real = "outside/real%d" % nout[0]
                pre.append(dict(_meta(rng, "dir"), p=real, t="dir"))
                pre.append(dict(_meta(rng, "link"), p=rp, t="link", target="@W@/" + real))
                dirlike.add(p)
                tags.add("pre:dir-as-symlink-abs")
            elif r < 0.90:
                pre.append(dict(_meta(rng, "link"), p=rp, t="link", target="gone/away"))
                tags.add("pre:dangling-where-dir")
            elif r < 0.95:
                pre.append(dict(_meta(rng, "file"), p=rp, t="file", seed=seq(), size=_size(rng, False)))
                tags.add("pre:file-where-dir")
            else:
                pre.append(dict(_meta(rng, "link"), p=rp, t="link", target="@W@/outside/ofile"))
                tags.add("pre:filelink-where-dir")
        elif e["t"] in ("file", "dev"):
            if r < 0.40:
                sz = rng.choice([0, max(0, e.get("size", 10) // 2), e.get("size", 10) + rng.choice([1, 100, 40000]),
                                 e.get("size", 10), _size(rng, big_ok)])
                pre.append(dict(_meta(rng, "file"), p=rp, t="file", seed=seq(), size=sz))
                tags.add("pre:file-diff")
            elif r < 0.44 and e["t"] == "file":
                pre.append(dict(e, p=rp, hl=None))
                pre[-1].pop("hl")
                tags.add("pre:file-identical")
            elif r < 0.52 and e["t"] == "file":
                # byte-identical data, other owner/mode/mtime (a "nothing to copy" shortcut must still be atomic)
                pre.append(dict(_meta(rng, "file"), p=rp, t="file", seed=e["seed"], size=e["size"]))
                tags.add("pre:file-same-data-other-meta")
            elif r < 0.62:
                peer = outside_file() if rng.random() < 0.5 else None
                if peer is None:
                    nout[0] += 1
                    peer = dict(_meta(rng, "file"), p=_join(os.path.dirname(rp), "hlpeer%d" % nout[0]), t="file",
                                seed=seq(), size=_size(rng, False))
                    pre.append(peer)
                peer["hl"] = "pre%d" % seq()
                pre.append(dict(peer, p=rp))
                tags.add("pre:file-hardlinked-with-unrelated")
            elif r < 0.73:
                pre.append(dict(_meta(rng, "link"), p=rp, t="link",
                                target=rng.choice(["@W@/outside/ofile", _rel(os.path.dirname(rp), "outside/ofile")])))
                tags.add("pre:symlink-where-file")
            elif r < 0.83:
                nout[0] += 1
                pre.append(dict(_meta(rng, "link"), p=rp, t="link", target=_dangling_target(rng, rp, nout[0])))
                tags.add("pre:dangling-symlink")
                tags.add("pre:dangling-where-file")
            elif r < 0.86:
                pre.append(dict(_meta(rng, "link"), p=rp, t="link", target="@W@/outside/odir"))
                tags.add("pre:dirlink-where-file")
            elif r < 0.92 or not clash_ok:
                pre.append(dict(_meta(rng, "fifo"), p=rp, t="fifo"))
                tags.add("pre:fifo-where-file")
            else:
                pre.append(dict(_meta(rng, "dir"), p=rp, t="dir"))
                if rng.random() < 0.5:
                    pre.append(dict(_meta(rng, "file"), p=rp + "/inner", t="file", seed=seq(), size=3))
                tags.add("pre:dir-where-file")
        elif e["t"] == "link":
            if r < 0.15:
                pre.append(dict(_meta(rng, "link"), p=rp, t="link", target=e["target"]))
                tags.add("pre:link-same")
            elif r < 0.30:
                pre.append(dict(_meta(rng, "link"), p=rp, t="link", target=rng.choice(["other", "@W@/outside/ofile", "@W@/outside/odir"])))
                tags.add("pre:link-diff")
            elif r < 0.40:
                nout[0] += 1
                pre.append(dict(_meta(rng, "link"), p=rp, t="link", target=_dangling_target(rng, rp, nout[0])))
                tags.add("pre:dangling-symlink")
                tags.add("pre:dangling-where-symlink")
            elif r < 0.72:
                pre.append(dict(_meta(rng, "file"), p=rp, t="file", seed=seq(), size=_size(rng, False)))
                tags.add("pre:file-where-symlink")
            elif r < 0.80:
                pre.append(dict(_meta(rng, "fifo"), p=rp, t="fifo"))
                tags.add("pre:fifo-where-symlink")
            elif clash_ok:
                pre.append(dict(_meta(rng, "dir"), p=rp, t="dir"))
                tags.add("pre:dir-where-symlink")
        else:  # fifo
            if r < 0.4:
                pre.append(dict(_meta(rng, "fifo"), p=rp, t="fifo"))
                tags.add("pre:fifo-same")
            elif r < 0.8:
                pre.append(dict(_meta(rng, "file"), p=rp, t="file", seed=seq(), size=_size(rng, False)))
                tags.add("pre:file-where-fifo")
            elif r < 0.9:
                pre.append(dict(_meta(rng, "link"), p=rp, t="link", target="@W@/outside/ofile"))
                tags.add("pre:symlink-where-fifo")
            else:
                nout[0] += 1
                pre.append(dict(_meta(rng, "link"), p=rp, t="link", target=_dangling_target(rng, rp, nout[0])))
                tags.add("pre:dangling-symlink")
                tags.add("pre:dangling-where-fifo")
        if residue and e["t"] != "dir" and rng.random() < 0.5 and pre[-1]["p"] == rp and pre[-1]["t"] != "dir":
            k = rng.random()
            np_ = rp + "#new"
            if k < 0.35:
                pre.append(dict(_meta(rng, "file"), p=np_, t="file", seed=seq(), size=e.get("size", 5) + rng.choice([1, 9, 5000])))
                tags.add("residue:larger-file")
            elif k < 0.6:
                pre.append(dict(_meta(rng, "file"), p=np_, t="file", seed=seq(), size=max(0, e.get("size", 5) // 2)))
                tags.add("residue:smaller-file")
            elif k < 0.8:
                pre.append(dict(_meta(rng, "link"), p=np_, t="link", target="@W@/outside/ofile"))
                tags.add("residue:symlink")
            elif k < 0.9:
                pre.append(dict(_meta(rng, "fifo"), p=np_, t="fifo"))
                tags.add("residue:fifo")
            else:
                pre.append(dict(_meta(rng, "dir"), p=np_, t="dir"))
                tags.add("residue:dir")
    return pre, sorted(tags)


def gen_scenario(rng, small=False, residue_p=0.06, alias_p=0.06, clash_ok=True, force_replace=False, big_ok=True):
    seq = _Seq(rng)
    src = gen_src(rng, seq, nmin=2 if small else 2, nmax=6 if small else 10, big_ok=big_ok, dev_ok=not small or True)
    residue = rng.random() < residue_p
    alias = rng.random() < alias_p
    if force_replace:
        # at least one non-directory entry (and its parents) gets a pre-existing counterpart
        cands = [e for e in src if e["t"] != "dir"]
        e = rng.choice(cands)
        e["_force_pre"] = True
        d = os.path.dirname(e["p"])
        while d:
            for x in src:
                if x["p"] == d:
                    x["_force_pre"] = True
            d = os.path.dirname(d)
    pre, tags = gen_pre(rng, seq, src, p_pre=rng.choice([0.3, 0.5, 0.7, 0.9]), residue=residue, alias=alias,
                        clash_ok=clash_ok, big_ok=big_ok)
    for e in src:
        e.pop("_force_pre", None)
    mode = rng.choice(["offset", "offset", "offset-slash", "no-offset"])
    drop = []
    if rng.random() < 0.2:
        drop = [e["p"] for e in src if e["t"] == "dir" and rng.random() < 0.5]
        if drop:
            tags.append("dropped-dir-entries")
    root_missing = False
    if rng.random() < 0.05 and mode != "no-offset":
        pre = [e for e in pre if not (e["p"] == "root" or e["p"].startswith("root/"))]
        root_missing = True
        tags = ["root-missing"] + [t for t in tags if not t.startswith(("pre:", "residue:"))]
    return {"src": src, "pre": pre, "mode": mode, "drop": drop, "root_missing": root_missing, "tags": tags}


# ---------------------------------------------------------------------------------------------- materialise

def _create(base, e, W, first_of_group):
    path = os.path.join(base, e["p"])
    t = e["t"]
    if os.path.lexists(path):
        # two spec paths aliasing one physical path (through a symlinked directory): first one wins
        return False
    if t == "dir":
        os.mkdir(path)
    elif t == "file":
        g = e.get("hl")
        if g is not None and g in first_of_group:
            os.link(first_of_group[g], path)
            return False
        with open(path, "wb") as f:
            f.write(data_bytes(e["seed"], e["size"]))
        if g is not None:
            first_of_group[g] = path
    elif t == "link":
        os.symlink(e["target"].replace("@W@", W), path)
    elif t == "fifo":
        os.mkfifo(path)
    elif t == "dev":
        os.mknod(path, stat.S_IFCHR | 0o600, os.makedev(e["major"], e["minor"]))
    else:
        raise ValueError(t)
    return True


def materialise(entries, base, W):
    """Create `entries` under `base` (must exist).  Entries are ordered parents-first."""
    groups = {}
    made = []
    old = os.umask(0o022)
    try:
        for e in entries:
            d = os.path.dirname(os.path.join(base, e["p"]))
            if not os.path.isdir(d):
                os.makedirs(d)
            if _create(base, e, W, groups):
                made.append(e)
        # metadata afterwards: non-directories first, then directories (deepest first)
        order = [e for e in made if e["t"] != "dir"] + sorted((e for e in made if e["t"] == "dir"),
                                                               key=lambda x: -x["p"].count("/"))
        for e in order:
            path = os.path.join(base, e["p"])
            os.lchown(path, e["uid"], e["gid"])
            if e["t"] != "link":
                os.chmod(path, e["mode"])
        for e in order:
            path = os.path.join(base, e["p"])
            os.utime(path, ns=(e["mt"], e["mt"]), follow_symlinks=False)
    finally:
        os.umask(old)


def build(scen, W):
    """Materialise a scenario in the (new) directory W: W/src, W/root, W/outside."""
    os.makedirs(W)
    os.mkdir(os.path.join(W, "src"))
    materialise(scen["pre"], W, W)
    materialise(scen["src"], os.path.join(W, "src"), W)
    os.utime(os.path.join(W, "src"), ns=(T0 * 10**9, T0 * 10**9))
