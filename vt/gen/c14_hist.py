"""C14 generators: package specifications (USE-conditional metadata as an AST) and history steps.

Package spec (JSON-able):
    {"mode": "direct" | "tree",            # make_wrapper called directly / the real ConfiguredTree.package_class
     "free": [...], "locked_on": [...], "locked_off": [...],   # flag universe
     "initial": [...],                     # enabled flags at construction (includes locked_on)
     "attrs": {"depend": AST, ...}}        # one AST per USE-dependent attribute

AST nodes (lists, JSON-able):
    ["leaf", text]                          atom / licence / restrict token / flag (REQUIRED_USE) / "uri" or "uri -> name"
    ["tleaf", base, flag, form]             transitive USE atom base[flag?] / [!flag?] / [flag=] / [!flag=]   (dependency classes)
    ["cond", flag, negate, [children]]      flag? ( ... )  /  !flag? ( ... )
    ["or" | "xor" | "most" | "all", [children]]      || ( ) / ^^ ( ) / ?? ( ) / ( )

History steps (JSON-able):
    {"op": "enable" | "disable", "attr": name, "vals": [str, ...]}
    {"op": "rollback", "point": int}
    {"op": "commit"} | {"op": "count"}
    {"op": "force", "how": true|false, "restr": R}
        R = {"k": "usedep", "atom": "cat/pkg[a,-b]"}
          | {"k": "contain", "vals": [...], "all": bool, "neg": bool, "pneg": bool}
          | {"k": "and" | "or", "neg": bool, "of": [R, ...]}
"""

DEP_ATTRS = ("depend", "rdepend", "pdepend", "bdepend", "idepend")
ATTR_KEYS = {
    "depend": "DEPEND", "rdepend": "RDEPEND", "pdepend": "PDEPEND", "bdepend": "BDEPEND", "idepend": "IDEPEND",
    "license": "LICENSE", "fetchables": "SRC_URI", "restrict": "RESTRICT", "required_use": "REQUIRED_USE",
}
# attributes read through the wrapper (distfiles shares SRC_URI with fetchables; it is in the real table only)
USE_ATTRS = ("depend", "rdepend", "pdepend", "bdepend", "idepend", "license", "fetchables", "restrict", "required_use")

FREE = ["a", "b", "c", "n"]  # "n" never guards anything: it changes the USE set without changing any attribute
LOCKED_ON = ["lon"]
LOCKED_OFF = ["loff"]
COND_FLAGS = ["a", "a", "a", "b", "b", "b", "c", "c", "lon", "loff"]

ATOMS = ["dev-libs/x", "dev-libs/y", ">=sys-apps/z-1.2", "app-misc/w:2", "virtual/v", "dev-lang/q", "!net-misc/bad", "sys-libs/k"]
LICENSES = ["GPL-2", "MIT", "BSD", "LGPL-2.1", "Apache-2.0"]
RESTRICTS = ["test", "mirror", "strip", "userpriv", "bindist"]
URIS = ["http://h.example/f1.tar", "http://h.example/f2.tar.gz", "http://m.example/d/f3.zip", "https://h.example/f4.patch",
        "http://h.example/g.tar -> g-1.tar", "http://h.example/dl?id=7 -> f7.bin"]
REQ_FLAGS = ["a", "b", "c", "n", "!a", "!b", "lon"]


def _leaf(rng, attr):
    if attr in DEP_ATTRS:
        if rng.random() < 0.2:
            return ["tleaf", rng.choice(["dev-libs/t", "sys-apps/u"]), rng.choice(["a", "b", "c"]),
                    rng.choice(["?", "!?", "=", "!="])]
        return ["leaf", rng.choice(ATOMS)]
    if attr == "license":
        return ["leaf", rng.choice(LICENSES)]
    if attr == "restrict":
        return ["leaf", rng.choice(RESTRICTS)]
    if attr == "fetchables":
        return ["leaf", rng.choice(URIS)]
    return ["leaf", rng.choice(REQ_FLAGS)]


def _group_ops(attr):
    if attr in DEP_ATTRS or attr == "license":
        return ["or", "or", "all"]
    if attr == "required_use":
        return ["or", "xor", "most"]
    return []


def gen_nodes(rng, attr, depth, n):
    out = []
    for _ in range(n):
        r = rng.random()
        ops = _group_ops(attr)
        if depth > 0 and r < 0.45:
            out.append(["cond", rng.choice(COND_FLAGS), rng.random() < 0.3,
                        gen_nodes(rng, attr, depth - 1, rng.choice([1, 1, 2, 3]))])
        elif depth > 0 and ops and r < 0.6:
            op = rng.choice(ops)
            # >= 2 children: single-member groups are collapsed by the parser (not this property's business)
            kids = gen_nodes(rng, attr, depth - 1, rng.choice([2, 2, 3]))
            out.append([op, kids])
        else:
            out.append(_leaf(rng, attr))
    return out


def has_cond(nodes):
    for n in nodes:
        if n[0] in ("cond", "tleaf"):
            return True
        if n[0] in ("or", "xor", "most", "all") and has_cond(n[1]):
            return True
    return False


def gen_attr(rng, attr):
    r = rng.random()
    if r < 0.08:
        return []
    if r < 0.18:
        return gen_nodes(rng, attr, 0, rng.choice([1, 2]))  # no conditionals at all: evaluate_depset returns the raw object
    for _ in range(20):
        nodes = gen_nodes(rng, attr, rng.choice([1, 2, 2, 3]), rng.choice([1, 2, 3, 4]))
        if has_cond(nodes):
            return nodes
    return [["cond", "a", False, [_leaf(rng, attr)]]]


def render(nodes):
    """Dependency-syntax text of an AST (what goes into the metadata dict)."""
    out = []
    for n in nodes:
        k = n[0]
        if k == "leaf":
            out.append(n[1])
        elif k == "tleaf":
            form = {"?": "%s?", "!?": "!%s?", "=": "%s=", "!=": "!%s="}[n[3]] % n[2]
            out.append("%s[%s]" % (n[1], form))
        elif k == "cond":
            out.append("%s%s? ( %s )" % ("!" if n[2] else "", n[1], render(n[3])))
        else:
            out.append("%s( %s )" % ({"or": "|| ", "xor": "^^ ", "most": "?? ", "all": ""}[k], render(n[1])))
    return " ".join(out)


def gen_spec(rng, mode=None):
    mode = mode or rng.choice(["direct", "tree"])
    attrs = {a: gen_attr(rng, a) for a in USE_ATTRS}
    initial = [f for f in FREE if rng.random() < 0.4] + list(LOCKED_ON)
    return {"mode": mode, "free": list(FREE), "locked_on": list(LOCKED_ON), "locked_off": list(LOCKED_OFF),
            "initial": initial, "attrs": attrs}


def _flags(rng, spec, k=None):
    pool = spec["free"] * 4 + spec["locked_on"] + spec["locked_off"]
    k = k or rng.choice([1, 1, 1, 2, 2, 3])
    out = []
    for _ in range(k):
        f = rng.choice(pool)
        if f not in out:
            out.append(f)
    return out


def _leaf_texts(nodes, acc):
    for n in nodes:
        if n[0] == "leaf":
            acc.append(n[1])
        elif n[0] == "cond":
            _leaf_texts(n[3], acc)
        elif n[0] != "tleaf":
            _leaf_texts(n[1], acc)
    return acc


def gen_restr(rng, spec, depth=1):
    r = rng.random()
    if depth > 0 and r < 0.25:
        return {"k": rng.choice(["and", "or"]), "neg": rng.random() < 0.25,
                "of": [gen_restr(rng, spec, depth - 1) for _ in range(rng.choice([2, 2, 3]))]}
    if r < 0.55:
        fl = _flags(rng, spec)
        deps = ",".join(("-" if rng.random() < 0.45 else "") + f for f in fl)
        return {"k": "usedep", "atom": "cat/pkg[%s]" % deps}
    return {"k": "contain", "vals": _flags(rng, spec), "all": rng.random() < 0.5, "neg": rng.random() < 0.4,
            "pneg": rng.random() < 0.2}


def gen_step(rng, spec, count, points):
    """One step, given the observed change count and the list of change counts whose USE set was observed."""
    r = rng.random()
    if r < 0.27:
        return {"op": "enable", "attr": "use", "vals": _flags(rng, spec)}
    if r < 0.54:
        return {"op": "disable", "attr": "use", "vals": _flags(rng, spec)}
    if r < 0.66:
        if points and rng.random() < 0.85:
            return {"op": "rollback", "point": rng.choice(points)}
        return {"op": "rollback", "point": rng.randrange(0, count + 1)}
    if r < 0.76:
        return {"op": "commit"}
    if r < 0.79:
        return {"op": "count"}
    if r < 0.93:
        return {"op": "force", "how": rng.random() < 0.6, "restr": gen_restr(rng, spec)}
    # requests on something other than the configurable: a wrapped attribute's node, or a plain attribute
    op = rng.choice(["enable", "disable"])
    if rng.random() < 0.7:
        attr = rng.choice(["depend", "rdepend", "license", "restrict"])
        leaves = _leaf_texts(spec["attrs"][attr], []) or ["dev-libs/x" if attr.endswith("depend") else "GPL-2"]
        return {"op": op, "attr": attr, "vals": [rng.choice(leaves)]}
    return {"op": op, "attr": "slot", "vals": [rng.choice(["0", "1"])]}


def gen_reads(rng):
    """Which attributes to read after a step (a random subset: the cache state space is only explored when some
    attributes are NOT read at some generations)."""
    r = rng.random()
    if r < 0.15:
        return []
    if r < 0.3:
        return list(USE_ATTRS)
    p = rng.choice([0.2, 0.4, 0.6])
    return [a for a in USE_ATTRS if rng.random() < p]
