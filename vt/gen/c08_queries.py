"""Generators for C08: random in-memory repository contents and random query specs.

Query specs use the spec language of vt/gen/c06_spec.py (built into real restrictions by c06_spec.build)."""

CATS = ["a", "ab", "b", "ba", "dev-a", "dev-b"]
PKGS = ["x", "xy", "y", "r-s", "foo", "a", "ab"]
VERS = ["1", "1.0", "2", "1-r1", "0.5", "10"]

CAT_STRINGS = CATS * 2 + ["dev", "dev-", "-a", "a-", "c", ""]
PKG_STRINGS = PKGS * 2 + ["r", "-s", "fo", "oo", "z", ""]
VER_STRINGS = VERS * 2 + ["1.", "-r1", "0", "3"]
STRINGS = {"category": CAT_STRINGS, "package": PKG_STRINGS, "fullver": VER_STRINGS}


def gen_repo(rng):
    """cpv_dict {category: {package: [versions]}}; occasionally an empty category or a version-less package."""
    d = {}
    for c in rng.sample(CATS, rng.choice([1, 2, 2, 3, 3, 4])):
        if rng.random() < 0.07:
            d[c] = {}
            continue
        pk = {}
        for p in rng.sample(PKGS, rng.choice([1, 2, 2, 3, 4])):
            if rng.random() < 0.04:
                pk[p] = []
            else:
                pk[p] = rng.sample(VERS, rng.choice([1, 1, 2, 3, 4]))
        d[c] = pk
    return d


def _vleaf(rng, attr):
    s = rng.choice(STRINGS[attr])
    neg = rng.random() < 0.25
    r = rng.random()
    if r < 0.45:
        return {"k": "exact", "s": s, "neg": neg}
    if r < 0.65:
        return {"k": "glob", "s": s, "prefix": rng.random() < 0.6, "neg": neg}
    if r < 0.85:
        return {"k": "re", "lit": s, "bol": rng.random() < 0.3, "eol": rng.random() < 0.3,
                "match": rng.random() < 0.4, "neg": neg}
    return {"k": "has", "vals": [s or "a"], "all": False, "neg": neg}


def _vtree(rng, attr, depth):
    if depth <= 0 or rng.random() < 0.55:
        leaf = _vleaf(rng, attr)
        if rng.random() < 0.06:
            leaf = {"k": "vnot", "x": leaf}
        return leaf
    kind = rng.choice(["vand", "vor", "vor", "vor", "vone", "vamo"])
    return {"k": kind, "neg": rng.random() < 0.3,
            "xs": [_vtree(rng, attr, depth - 1) for _ in range(rng.choice([1, 2, 2, 3]))]}


def gen_leaf(rng, cp_only=False):
    r = rng.random()
    if r < 0.14:
        c, p = rng.choice(CATS), rng.choice(PKGS)
        if cp_only or rng.random() < 0.5:
            return {"k": "atom", "s": "%s/%s" % (c, p)}
        return {"k": "atom", "s": "%s%s/%s-%s" % (rng.choice(["=", ">=", "<", "<=", ">", "~"]), c, p, rng.choice(VERS[:3] + ["0.5", "10"]))}
    if r < 0.17:
        return {"k": "const", "val": rng.random() < 0.5}
    attrs = ["category", "category", "category", "package", "package", "package"] + ([] if cp_only else ["fullver"])
    attr = rng.choice(attrs)
    v = _vtree(rng, attr, 2) if rng.random() < 0.15 else _vleaf(rng, attr)
    if rng.random() < 0.03 and not cp_only:
        v = {"k": "vconst", "val": rng.random() < 0.5}
    return {"k": "pr", "attr": attr, "neg": rng.random() < 0.2, "v": v}


def gen_query(rng, depth, cp_only=False, p_leaf=0.1):
    """Random query: leaves over category/package(/fullver), negation at value, package, wrapper and node level."""
    if depth <= 0 or rng.random() < p_leaf:
        leaf = gen_leaf(rng, cp_only)
        if rng.random() < 0.08:
            leaf = {"k": "not", "x": leaf}
        return leaf
    kind = rng.choice(["and", "and", "and", "or", "or", "or", "one", "amo"])
    n = rng.choice([1, 2, 2, 2, 3, 3])
    spec = {"k": kind, "neg": rng.random() < 0.2,
            "xs": [gen_query(rng, depth - 1, cp_only, p_leaf + 0.3) for _ in range(n)]}
    if rng.random() < 0.05:
        spec = {"k": "not", "x": spec}
    return spec


def gen_positive_query(rng, depth, cp_only=False):
    """Negation-free and/or combinations (the shapes candidate pruning is designed for): clauses that constrain
    category and package, only one of them, or neither."""
    if depth <= 0 or rng.random() < 0.25:
        r = rng.random()
        if r < 0.2:
            return {"k": "atom", "s": "%s/%s" % (rng.choice(CATS), rng.choice(PKGS))}
        attr = rng.choice(["category", "category", "package", "package"] + ([] if cp_only else ["fullver"]))
        s = rng.choice(STRINGS[attr])
        r = rng.random()
        if r < 0.6:
            v = {"k": "exact", "s": s, "neg": False}
        elif r < 0.8:
            v = {"k": "glob", "s": s, "prefix": rng.random() < 0.6, "neg": False}
        else:
            v = {"k": "re", "lit": s, "bol": False, "eol": False, "match": rng.random() < 0.5, "neg": False}
        return {"k": "pr", "attr": attr, "neg": False, "v": v}
    kind = rng.choice(["and", "or", "or"])
    return {"k": kind, "neg": False,
            "xs": [gen_positive_query(rng, depth - 1, cp_only) for _ in range(rng.choice([2, 2, 3]))]}


# -- clauses that all name ONE category (the single-candidate shortcut of candidate selection) -------------------
def _pkg_matcher(rng, names):
    """A package-name matcher built around names that occur in the repository: exact, prefix/suffix glob,
    anchored regex alternative, or a value-level negated exact match."""
    n = rng.choice(names)
    r = rng.random()
    if r < 0.3:
        return {"k": "exact", "s": n, "neg": False}
    if r < 0.5:
        return {"k": "glob", "s": n[: rng.choice([1, 1, 2])], "prefix": True, "neg": False}
    if r < 0.6:
        return {"k": "glob", "s": n[-1:], "prefix": False, "neg": False}
    if r < 0.8:
        return {"k": "re", "lit": n[: rng.choice([1, 2, 3])], "bol": True, "eol": False, "match": rng.random() < 0.5, "neg": False}
    return {"k": "exact", "s": n, "neg": True}


def gen_same_category_query(rng, cpv_dict):
    """any-of over clauses that all constrain category AND package and name the same category exactly:
    atoms `c/p`, `category==c && package <matcher>`, or the factored form `category==c && (pkg || pkg)`.
    Names come from the repository so that the clauses really select different packages."""
    cats = [c for c, pk in cpv_dict.items() if pk] or list(cpv_dict) or CATS[:1]
    c = rng.choice(cats)
    names = list(cpv_dict.get(c, {})) or PKGS[:2]
    names = names + [rng.choice(PKGS)]
    cat = {"k": "pr", "attr": "category", "neg": False, "v": {"k": "exact", "s": c, "neg": False}}

    def pkg():
        return {"k": "pr", "attr": "package", "neg": False, "v": _pkg_matcher(rng, names)}

    if rng.random() < 0.3:
        return {"k": "and", "neg": False,
                "xs": [cat, {"k": "or", "neg": False, "xs": [pkg() for _ in range(rng.choice([2, 2, 3]))]}]}
    clauses = []
    for _ in range(rng.choice([2, 2, 3])):
        if rng.random() < 0.4:
            clauses.append({"k": "atom", "s": "%s/%s" % (c, rng.choice(names))})
        else:
            xs = [cat, pkg()]
            if rng.random() < 0.5:
                xs.reverse()
            clauses.append({"k": "and", "neg": False, "xs": xs})
    return {"k": "or", "neg": False, "xs": clauses}


# -- mutation histories ------------------------------------------------------------------------------------------
def gen_mutation(rng, cpv_dict):
    """One notify_add_package / notify_remove_package step respecting the preconditions (add only an absent
    cpv, remove only a present one): ("add"|"remove", category, package, version)."""
    present = [(c, p, v) for c, pk in cpv_dict.items() for p, vs in pk.items() for v in vs]
    r = rng.random()
    if r < 0.3 and present:
        return ("remove",) + rng.choice(present)
    for _ in range(20):
        if r < 0.65 and cpv_dict:
            # a package name that is new to an existing category
            c = rng.choice(list(cpv_dict))
            absent = [p for p in PKGS if p not in cpv_dict[c]]
            if not absent:
                continue
            step = ("add", c, rng.choice(absent), rng.choice(VERS))
        elif r < 0.85 and present:
            # a new version of an existing package
            c, p, _v = rng.choice(present)
            absent = [v for v in VERS if v not in cpv_dict[c][p]]
            if not absent:
                r = 0.5
                continue
            step = ("add", c, p, rng.choice(absent))
        else:
            absent = [c for c in CATS if c not in cpv_dict]
            if not absent:
                r = 0.5
                continue
            step = ("add", rng.choice(absent), rng.choice(PKGS), rng.choice(VERS))
        return step
    return None


# -- equal versions under different spellings ------------------------------------------------------------------------
# Each group lists spellings pkgcore's version comparison treats as the same version (PMS: components after the
# first that start with 0 compare as decimal fractions, a missing revision is -r0, a missing suffix number is 0).
# The groups only steer generation; what matches what is always asked of atom.match itself.
SPELLING_GROUPS = [
    ["1.0", "1.00", "1.0-r0", "1.00-r0", "1.000"],
    ["0.06", "0.060", "0.0600", "0.06-r0"],
    ["1.01", "1.010", "1.01-r0"],
    ["1_alpha", "1_alpha0", "1_alpha-r0"],
    ["2_p", "2_p0", "2_p00"],
    ["3", "3-r0", "3-r00"],
    ["2_rc1", "2_rc01", "2_rc1-r0"],
    ["1.0-r1", "1.00-r1", "1.0-r01"],
]


def gen_spelling_case(rng):
    """Two repositories holding one package whose versions are some spellings of an equal-version group (plus an
    unrelated version), and version-operator atoms spelled in every way of the group - including spellings that are
    NOT stored literally although an equal version is."""
    group = rng.choice(SPELLING_GROUPS)
    other = rng.choice([g for g in SPELLING_GROUPS if g is not group])
    c, p = rng.choice(CATS), rng.choice(PKGS)
    dicts = []
    for _ in range(2):
        stored = rng.sample(group, rng.choice([1, 1, 2, 3]))
        if rng.random() < 0.5:
            stored.append(rng.choice(other))
        d = {c: {p: stored}}
        if rng.random() < 0.5:
            d[c][rng.choice([x for x in PKGS if x != p])] = [rng.choice(group)]
        dicts.append(d)
    atoms = []
    for s in group:
        atoms.append("=%s/%s-%s" % (c, p, s))
        if "-r" not in s:
            atoms.append("~%s/%s-%s" % (c, p, s))
    for op in (">=", "<=", "<", ">"):
        atoms.append("%s%s/%s-%s" % (op, c, p, rng.choice(group)))
    atoms.append("=%s/%s-%s" % (c, p, rng.choice(other)))
    rng.shuffle(atoms)
    return dicts, atoms[: 9], (c, p)
