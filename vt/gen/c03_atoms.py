"""Grammar-directed generator of package dependency specifications, single-edit mutants, and the fake
package factory shared by C03 and C04.  Strings are produced from the PMS grammar, never from pkgcore."""

from . import versions as gv

CATEGORIES = ["cat", "dev-util", "a", "x11-libs", "_c", "A.b+c-d", "virtual", "9cat", "dev_lang.x"]
# tricky tails: version-like chunks inside the name, 'r1'-like chunks, empty chunks, '+'
PACKAGES = ["pkg", "foo-bar", "foo-1a-bar", "foo-r1", "foo-", "foo--bar", "foo+", "g++", "foo_1", "foo-1x1",
            "foo-r", "a-b-r2x", "foo-v1", "foo-01a_pp", "1", "r1", "a-r1-b", "foo-1_alphax", "foo-1_2x", "foo-+bar",
            "foo-1_rc1x", "foo-1-rc", "foo-1A", "foo-10B", "_x", "Foo9", "foo-r10-x", "foo-1-r1x", "foo-1a2"]
SLOTS = ["0", "1", "2.1", "a+b", "_x", "1-2", "A.b", "0.9.8", "stable"]
REPOS = ["gentoo", "a", "my_repo-x", "9", "_r", "Repo-r1x"]
FLAGS = ["x", "y", "z", "foo-bar", "a+b", "x_y", "a@b", "9x", "X", "static-libs", "abi_x86_32", "python_targets_python3_12"]
OPS = ["", "<", "<=", "=", "~", ">=", ">", "=*"]
BLOCKS = ["", "!", "!!"]
SLOT_KINDS = ["none", "slot", "slot/sub", "*", "=", "slot=", "slot/sub="]
USE_KINDS = ["none", "on", "off", "on+", "on-", "off+", "off-", "cond?", "!cond?", "cond=", "!cond=", "cond+?", "multi",
             "multi-neg", "multi-default"]

MUT_CHARS = list("!~<>=*:/[](),+-._@?") + list("0123456789") + list("abrpXZ") + [" ", "\n", "١", "é"]


def version_text(rng, allow_rev=True):
    v, r = gv.random_version(rng, small=rng.random() < 0.8)
    if not allow_rev:
        r = ""
    return gv.fullver(v, r)


def use_body(rng, kind):
    f = lambda: rng.choice(FLAGS)
    if kind == "on":
        return f()
    if kind == "off":
        return "-" + f()
    if kind in ("on+", "on-", "off+", "off-"):
        return ("-" if kind.startswith("off") else "") + f() + "(" + kind[-1] + ")"
    if kind in ("cond?", "!cond?", "cond=", "!cond="):
        return ("!" if kind[0] == "!" else "") + f() + kind[-1]
    if kind == "cond+?":
        return rng.choice(["", "!"]) + f() + rng.choice(["(+)", "(-)"]) + rng.choice("?=")
    if kind == "multi":
        n = rng.randrange(2, 5)
        return ",".join(rng.choice(["", "-"]) + fl for fl in rng.sample(FLAGS, n))
    if kind == "multi-neg":
        n = rng.randrange(2, 4)
        return ",".join("-" + fl for fl in rng.sample(FLAGS, n))
    if kind == "multi-default":
        n = rng.randrange(2, 5)
        return ",".join(rng.choice(["", "-"]) + fl + rng.choice(["", "(+)", "(-)"]) for fl in rng.sample(FLAGS, n))
    raise ValueError(kind)


def build(rng, block, op, slot_kind, repo, use_kind, cat=None, pkg=None, ver=None):
    """One atom of the *full* grammar (all EAPI features + ::repo) with exactly the requested features."""
    cat = cat or rng.choice(CATEGORIES)
    pkg = pkg or rng.choice(PACKAGES)
    s = cat + "/" + pkg
    if op:
        s += "-" + (ver or version_text(rng, allow_rev=(op != "~")))
    if op == "=*":
        s = "=" + s + "*"
    else:
        s = op + s
    s = block + s
    sl, sub = rng.choice(SLOTS), rng.choice(SLOTS)
    if slot_kind == "slot":
        s += ":" + sl
    elif slot_kind == "slot/sub":
        s += ":%s/%s" % (sl, sub)
    elif slot_kind in ("*", "="):
        s += ":" + slot_kind
    elif slot_kind == "slot=":
        s += ":" + sl + "="
    elif slot_kind == "slot/sub=":
        s += ":%s/%s=" % (sl, sub)
    if repo:
        s += "::" + rng.choice(REPOS)
    if use_kind != "none":
        s += "[" + use_body(rng, use_kind) + "]"
    return s


def feature_combos():
    for block in BLOCKS:
        for op in OPS:
            for sk in SLOT_KINDS:
                for repo in (False, True):
                    for uk in USE_KINDS:
                        yield block, op, sk, repo, uk


def random_atom(rng, simple_use=False):
    uk = rng.choice(["none", "none", "on", "off", "on+", "on-", "off+", "off-", "multi", "multi-neg", "multi-default"]
                    if simple_use else USE_KINDS)
    return build(rng, rng.choice(["", "", "", "!", "!!"]), rng.choice(OPS), rng.choice(SLOT_KINDS + ["none", "slot"]),
                 rng.random() < 0.25, uk)


def mutate(rng, s):
    """One single edit: delete, duplicate, insert, replace, or a structured edit (drop the version, drop the
    operator, move a suffix)."""
    n = len(s)
    k = rng.randrange(100)
    if k < 22 and n > 1:
        i = rng.randrange(n)
        return s[:i] + s[i + 1:], "delete"
    if k < 34:
        i = rng.randrange(n)
        return s[:i] + s[i] + s[i:], "duplicate"
    if k < 70:
        i = rng.randrange(n + 1)
        return s[:i] + rng.choice(MUT_CHARS) + s[i:], "insert"
    if k < 88:
        i = rng.randrange(n)
        return s[:i] + rng.choice(MUT_CHARS) + s[i + 1:], "replace"
    if k < 92:
        # drop the operator characters
        t = s.lstrip("!")
        return s[:len(s) - len(t)] + t.lstrip("<>=~"), "drop-operator"
    if k < 96:
        # add an operator to whatever is there
        t = s.lstrip("!")
        return s[:len(s) - len(t)] + rng.choice(["<", "<=", "=", "~", ">=", ">"]) + t.lstrip("<>=~"), "swap-operator"
    # append a version-like / revision-like tail before the first of ':' '[' or the end
    cut = min([i for i in (s.find(":"), s.find("[")) if i != -1] or [n])
    tail = rng.choice(["-1", "-1-r1", "-r1", "-1a", "-1_p1", "-01", "-1.", "-1-r", "-1-r1-r2", "-1-2", "*", "-1*", "-"])
    return s[:cut] + tail + s[cut:], "tail"


def all_single_edits(s, chars=None):
    """Every delete / duplicate / insert at every position (for the exhaustive part)."""
    chars = chars or MUT_CHARS
    seen = set()
    for i in range(len(s)):
        for t in (s[:i] + s[i + 1:], s[:i] + s[i] + s[i:]):
            if t not in seen:
                seen.add(t)
                yield t
    for i in range(len(s) + 1):
        for c in chars:
            t = s[:i] + c + s[i:]
            if t not in seen:
                seen.add(t)
                yield t


# ---------------------------------------------------------------------------------------------------------
# packages

def pkg_dict(category, package, version, revision="", slot="0", subslot=None, repo="", iuse=(), use=()):
    return {"category": category, "package": package, "version": version, "revision": revision, "slot": slot,
            "subslot": slot if subslot is None else subslot, "repo": repo, "iuse": sorted(iuse), "use": sorted(use)}


_repos = {}


def iuse_spelling(d):
    """IUSE entries as an ebuild would spell them: some carry a +/- default prefix (deterministic in d)."""
    n = len(d["iuse"]) + len(d["use"])
    return [("", "+", "-")[(n + i + len(f)) % 3] + f for i, f in enumerate(d["iuse"])]


def make_pkg(d):
    """Real pkgcore fake package (pkgcore.test.misc.FakePkg) configured from a package dict."""
    from pkgcore.test.misc import FakePkg, FakeRepo

    repo = _repos.get(d["repo"])
    if repo is None:
        repo = _repos[d["repo"]] = FakeRepo(repo_id=d["repo"])
    return FakePkg("%s/%s-%s" % (d["category"], d["package"], gv.fullver(d["version"], d["revision"])),
                   eapi="8", slot=d["slot"], subslot=d["subslot"], iuse=iuse_spelling(d), use=d["use"], repo=repo)


def pkg_key(d):
    return "%s/%s-%s:%s/%s::%s iuse=%s use=%s" % (d["category"], d["package"], gv.fullver(d["version"], d["revision"]),
                                                  d["slot"], d["subslot"], d["repo"], ",".join(d["iuse"]),
                                                  ",".join(d["use"]))
