"""C36 generator: the scripted fetch command, the outcome alphabet, configurations and the prefix-tree enumeration."""

import itertools

ACTS = ("none", "empty", "partial", "oversized", "corrupt", "correct", "resume_tail")
RCS = (0, 1)
ALPHABET = tuple((a, rc) for a in ACTS for rc in RCS)   # 14 outcomes per attempt
TARGETS = ("full", "size", "none", "nosize")
PRES = ("absent", "partial", "corrupt", "oversized", "correct", "empty")

SCRIPT = r"""# sourced by the "bash -c" that pkgcore's spawn_bash starts:  . script KIND URI DISTDIR FILE
# bash builtins only (the fetcher runs it with an empty environment)
__ctl='@CTL@'; __good='@GOOD@'; __bad='@BAD@'; __over='@OVER@'; __cut=@CUT@
__kind=$1 __uri=$2 __f="$3/$4"
read -r __i < "$__ctl/counter"; __i=$((__i+1)); printf '%s\n' "$__i" > "$__ctl/counter"
mapfile -t __plan < "$__ctl/plan"
__line=${__plan[__i-1]:-overrun 1}
__act=${__line% *} __rc=${__line#* }
if [[ -e $__f ]]; then __pre="P:$(<"$__f")"; else __pre=A; fi
case $__act in
  none|overrun) ;;
  empty) : > "$__f" ;;
  partial) printf '%s' "${__good:0:__cut}" > "$__f" ;;
  oversized) printf '%s' "$__over" > "$__f" ;;
  corrupt) printf '%s' "$__bad" > "$__f" ;;
  correct) printf '%s' "$__good" > "$__f" ;;
  resume_tail)
    if [[ $__kind == resume && -e $__f ]]; then
      __cur=$(<"$__f"); printf '%s' "${__good:${#__cur}}" >> "$__f"
    else
      printf '%s' "$__good" > "$__f"
    fi ;;
esac
if [[ -e $__f ]]; then __post="P:$(<"$__f")"; else __post=A; fi
printf '%s\t%s\t%s\t%s\t%s\t%s\t%s\n' "$__i" "$__kind" "$__uri" "$__pre" "$__act" "$__rc" "$__post" >> "$__ctl/log"
exit "$__rc"
"""

LETTERS = "abcdefghijklmnopqrstuvwxyzABCDEFGHIJKLMNOPQRSTUVWXYZ0123456789"


def contents(rng, n=48):
    """(good, bad, over, cut): plain ASCII without whitespace so that bash can hold them in variables."""
    good = "".join(rng.choice(LETTERS) for _ in range(n))
    pos = rng.randrange(n)
    bad = good[:pos] + ("#" if good[pos] != "#" else "%") + good[pos + 1:]
    over = good + "".join(rng.choice(LETTERS) for _ in range(rng.randrange(1, 9)))
    cut = rng.randrange(1, n)
    return good, bad, over, cut


CONTENTS = ("rand", "zero", "one", "edge")


def contents_variant(rng, name):
    """Boundary sizes of the intended distfile: zero-length (legal: Manifest entries with size 0 exist; the verified
    file IS the empty file, a same-size corrupt file cannot exist so 'corrupt' writes one stray byte), one byte (the
    only partial prefix is the empty file), and a 48-byte file whose partial prefix is exactly one byte short."""
    if name == "rand":
        return contents(rng)
    if name == "zero":
        return "", "#", "ab", 0
    if name == "one":
        return "x", "#", "xy", 0
    if name == "edge":
        good, bad, over, _cut = contents(rng)
        return good, bad, good + "Z", len(good) - 1
    raise ValueError(name)


def script_text(ctl, good, bad, over, cut):
    return (SCRIPT.replace("@CTL@", ctl).replace("@GOOD@", good).replace("@BAD@", bad)
            .replace("@OVER@", over).replace("@CUT@", str(cut)))


def pre_content(pre, good, bad, over, cut):
    return {"absent": None, "partial": good[:cut], "corrupt": bad, "oversized": over, "correct": good, "empty": ""}[pre]


def configs(tier):
    """Configurations in priority order: dicts T, attempts, uris, pre, resume_distinct, stratum."""
    out = []

    def add(T, n, u, pre, rd, stratum, content="rand"):
        out.append({"T": T, "attempts": n, "uris": u, "pre": pre, "resume_distinct": rd, "stratum": stratum,
                    "content": content})

    top = 2 if tier == "quick" else 3
    # Z: boundary sizes of the intended file, first because they are cheap (almost every outcome ends the run):
    # zero-length target delivered by an attempt / already present, for every target kind that can describe it
    for n in range(1, top + 1):
        for T in ("full", "size", "nosize"):      # without any checksum an empty file is unspecified anyway
            add(T, n, n, "absent", True, "Z:zero-length", "zero")
        add("full", n, n, "correct", True, "Z:zero-length", "zero")
        add("size", n, n, "correct", True, "Z:zero-length", "zero")
        add("full", n, n, "oversized", True, "Z:zero-length", "zero")
    add("full", 3, 2, "absent", True, "Z:zero-length", "zero")
    add("full", 2, 2, "absent", False, "Z:zero-length", "zero")
    # A: every sequence of length n, all target kinds, nothing on disk before, as many URIs as attempts
    for n in range(1, top + 1):
        for T in TARGETS:
            add(T, n, n, "absent", True, "A:n<=%d,absent" % top)
    # Z2: one-byte file (partial prefix = empty file) and a partial that is exactly one byte short
    for content in ("one", "edge"):
        for n in range(1, top + 1):
            add("full", n, n, "absent", True, "Z:%s" % content, content)
        add("full", 2, 2, "partial", True, "Z:%s" % content, content)
        add("size", 2, 2, "absent", True, "Z:%s" % content, content)
    if tier != "quick":
        add("full", 4, 4, "absent", True, "Z:zero-length", "zero")
        add("size", 4, 4, "absent", True, "Z:zero-length", "zero")
        add("full", 4, 4, "absent", True, "Z:one", "one")
    if tier != "quick":
        # E1: the full bound n = 4 for the fully checksummed target
        add("full", 4, 4, "absent", True, "E:n=4,absent")
    # C: URIs run out before the attempts do (sequence length = number of URIs), and one spare URI
    for n, u in ((2, 1), (3, 2), (4, 1), (3, 1), (4, 2), (1, 2), (2, 3)):
        if tier == "quick" and (u > 1 and n > 2):
            continue
        for T in TARGETS:
            add(T, n, u, "absent", True, "C:uris!=attempts")
        add("full", n, u, "partial", True, "C:uris!=attempts")
    # D: the fetch command doubles as the resume command
    for n in range(1, top + 1):
        add("full", n, n, "absent", False, "D:no-resume-command")
        add("full", n, n, "partial", False, "D:no-resume-command")
    # B: pre-existing files
    for n in range(1, top + 1):
        for T in (TARGETS if tier != "quick" else ("full", "none")):
            for pre in PRES[1:]:
                add(T, n, n, pre, True, "B:n<=%d,preexisting" % top)
    if tier != "quick":
        # E2: the full bound n = 4 for the other target kinds, pre-existing files, short / spare URI lists
        for T in TARGETS[1:]:
            add(T, 4, 4, "absent", True, "E:n=4,absent")
        for pre in PRES[1:]:
            add("full", 4, 4, pre, True, "E:n=4,preexisting")
        add("full", 4, 3, "absent", True, "C:uris!=attempts")
        add("full", 4, 5, "absent", True, "C:uris!=attempts")
    return out


def seq_len(cfg):
    return min(cfg["attempts"], cfg["uris"])


def units(cfgs):
    """Work units = (config index, first outcome index); sharded by position in this list."""
    return [(ci, a) for ci, c in enumerate(cfgs) for a in range(len(ALPHABET))]


def walk(first, length, run):
    """Enumerate all index sequences of `length` starting with `first` in lexicographic order, skipping every
    sequence that shares the consumed prefix of an executed one (the script is deterministic, the outcomes after
    the last executed invocation are never seen by anybody).  run(seq) -> number of consumed outcomes.
    Yields (seq, consumed, covered) per executed sequence; covered = sequences this run stands for."""
    m = len(ALPHABET)
    seq = [first] + [0] * (length - 1)
    while True:
        k = run(tuple(seq))
        k_eff = max(1, min(k, length))          # the first element is fixed by the unit
        yield tuple(seq), k, m ** (length - k_eff)
        # next sequence with a different k_eff-prefix
        p = k_eff - 1
        while p >= 1 and seq[p] == m - 1:
            p -= 1
        if p < 1:
            return
        seq[p] += 1
        for q in range(p + 1, length):
            seq[q] = 0


def total_sequences(cfgs):
    return sum(len(ALPHABET) ** seq_len(c) for c in cfgs)


def sample_sequences(rng, length, count):
    for _ in range(count):
        yield tuple(rng.randrange(len(ALPHABET)) for _ in range(length))
