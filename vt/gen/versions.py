"""Version generators shared by C01/C02/C04/C05/C44/C45."""

SUFFIX_NAMES = ["alpha", "beta", "pre", "rc", "p"]
COMPONENTS = ["0", "1", "2", "9", "10", "00", "01", "010", "09", "100", "1000", "001"]
LETTERS = ["", "", "a", "b", "z"]
SUFFIX_NUMS = ["", "0", "1", "01", "2", "10"]
REVS = ["", "0", "00", "1", "01", "2", "10"]


def stratified_pool(rng, n):
    """n versions (ver, rev) covering every boundary class at least once, de-duplicated."""
    out = []
    seen = set()

    def add(v, r):
        if (v, r) not in seen:
            seen.add((v, r))
            out.append((v, r))

    # hand-picked boundary cases first
    for v in ["1", "01", "001", "09", "9", "10", "010", "1.0", "1.00", "1.1", "1.01", "1.010", "1.10", "1.09", "1.9",
              "1.0.0", "1.0.1", "1a", "1b", "1.0a", "1_alpha", "1_alpha0", "1_alpha1", "1_beta", "1_pre", "1_rc", "1_p",
              "1_p0", "1_p1", "1_alpha_p1", "1_p_alpha", "1_rc1_p2", "1.2_pre3_p4", "0", "00", "0.0", "0.00", "0.1", "0.01",
              "0.010", "0.001", "100", "1.100", "1.1000"]:
        for r in ("", "0", "1", "2", "10", "01"):
            add(v, r)
            if len(out) >= n:
                return out
    while len(out) < n:
        add(*random_version(rng, small=True))
    return out


def random_version(rng, small=False):
    ncomp = rng.choice([1, 1, 2, 2, 3] if small else [1, 2, 2, 3, 4, 6])
    comps = []
    for i in range(ncomp):
        if small or rng.random() < 0.6:
            comps.append(rng.choice(COMPONENTS))
        else:
            ln = rng.choice([1, 2, 3, 8, 19, 20, 40])
            first = rng.choice("0123456789")
            comps.append(first + "".join(rng.choice("0123456789") for _ in range(ln - 1)))
    v = ".".join(comps)
    v += rng.choice(LETTERS)
    for _ in range(rng.choice([0, 0, 1, 1, 2] if small else [0, 0, 1, 2, 3, 4])):
        v += "_" + rng.choice(SUFFIX_NAMES) + rng.choice(SUFFIX_NUMS)
    r = rng.choice(REVS) if small or rng.random() < 0.8 else str(rng.randrange(0, 10 ** rng.choice([1, 3, 12])))
    return v, r


def mutate_version(rng, v, r):
    """A small edit of (v, r) that stays syntactically valid."""
    import re

    choice = rng.randrange(9)
    m = re.match(r"^([\d.]+)([a-z]?)((?:_[a-z]+\d*)*)$", v)
    nums, letter, suff = m.group(1), m.group(2), m.group(3)
    comps = nums.split(".")
    if choice == 0:
        i = rng.randrange(len(comps))
        comps[i] = comps[i] + "0"
    elif choice == 1:
        i = rng.randrange(len(comps))
        comps[i] = "0" + comps[i]
    elif choice == 2:
        comps.append(rng.choice(["0", "00", "1", "01"]))
    elif choice == 3 and len(comps) > 1:
        comps.pop()
    elif choice == 4:
        letter = rng.choice(LETTERS)
    elif choice == 5:
        suff += "_" + rng.choice(SUFFIX_NAMES) + rng.choice(SUFFIX_NUMS)
    elif choice == 6 and suff:
        suff = suff[: suff.rindex("_")]
    elif choice == 7:
        r = rng.choice(REVS)
    else:
        i = rng.randrange(len(comps))
        comps[i] = rng.choice(COMPONENTS)
    return ".".join(comps) + letter + suff, r


def fullver(v, r):
    return v + ("-r" + r if r != "" else "")
