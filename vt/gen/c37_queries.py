"""Generators for C37: a universe of model bugs and random search recipes (all randomness from the rng given)."""

PRODUCTS = ("Gentoo Linux", "Gentoo Security", "Portage Development")
COMPONENTS = ("Stabilization", "Keywording", "Current packages", "Eclasses", "Vulnerabilities")
RESOLUTIONS = ("", "", "", "FIXED", "INVALID", "OBSOLETE")
STATUSES = ("UNCONFIRMED", "CONFIRMED", "IN_PROGRESS", "RESOLVED", "VERIFIED")
EMAILS = ("amd64@gentoo.org", "x86@gentoo.org", "m@gentoo.org", "maintainer-needed@gentoo.org", "q@example.com")
KEYWORDS = ("ALLARCHES", "CC-ARCHES", "PMASKED", "SECURITY", "REGRESSION")
FLAG_NAMES = ("sanity-check", "review", "backport")
FLAG_STATUSES = ("+", "-", "?")
# no tag is a substring of another, so "carries the tag" and Bugzilla's substring test coincide
TAGS = ("nattka:skip", "bot:ignore", "qa:todo", "upstream:wait")
ATOMS = tuple("=dev-libs/pkg%d-1.%d" % (i, i % 3) for i in range(12)) + ("dev-libs/plain", "sys-apps/x:2")
IDS = tuple(range(900000, 900040))
WHITEBOARD = ("", "B3 [ebuild]", "A1 [glsa]", "stable?")


def subset(rng, pool, p):
    return [x for x in pool if rng.random() < p]


def bug(rng):
    return {
        "id": rng.choice(IDS),
        "product": rng.choice(PRODUCTS),
        "component": rng.choice(COMPONENTS),
        "resolution": rng.choice(RESOLUTIONS),
        "bug_status": rng.choice(STATUSES),
        "cc": subset(rng, EMAILS, 0.3),
        "assigned_to": rng.choice(EMAILS),
        "keywords": subset(rng, KEYWORDS, 0.35),
        "flags": [n + s for n in FLAG_NAMES for s in FLAG_STATUSES if rng.random() < 0.2],
        "tags": subset(rng, TAGS, 0.3),
        "atoms": subset(rng, ATOMS, 0.25),
        "whiteboard": rng.choice(WHITEBOARD),
    }


def universe(rng, n):
    return [bug(rng) for _ in range(n)]


def some(rng, pool, lo=1, hi=3):
    n = min(len(pool), rng.randint(lo, hi))
    vals = rng.sample(pool, n)
    if rng.random() < 0.1:
        vals.append(vals[0])  # a repeated value
    return vals


def simple_recipe(rng):
    k = rng.randrange(9)
    if k == 0:
        return ["ids", some(rng, IDS, 1, 12)]
    if k == 1:
        return ["product", some(rng, PRODUCTS, 1, 2)]
    if k == 2:
        return ["component", some(rng, COMPONENTS, 1, 3)]
    if k == 3:
        return ["category", some(rng, ("Keywording", "Stabilization"), 1, 2)]
    if k == 4:
        return ["unresolved"]
    if k == 5:
        return ["resolution", some(rng, ("FIXED", "INVALID", "OBSOLETE", "---"), 1, 2)]
    if k == 6:
        return ["status", some(rng, STATUSES, 1, 3)]
    if k == 7:
        return ["cc", some(rng, EMAILS, 1, 2)]
    return ["assigned_to", some(rng, EMAILS, 1, 2)]


CRIT_FIELDS = {
    "keywords": KEYWORDS, "flagtypes.name": tuple(n + s for n in FLAG_NAMES for s in FLAG_STATUSES), "tag": TAGS,
    "cf_stabilisation_atoms": ATOMS, "component": COMPONENTS, "bug_status": STATUSES, "cc": EMAILS,
    "status_whiteboard": ("B3", "glsa", "stable?", "[ebuild]"),
}
CRIT_OPS = ("equals", "notequals", "substring", "notsubstring", "anyexact", "anywords", "allwords", "nowords",
            "anywordssubstr", "allwordssubstr", "nowordssubstr")


def crit(rng):
    field = rng.choice(sorted(CRIT_FIELDS))
    op = rng.choice(CRIT_OPS)
    single = op in ("equals", "notequals", "substring", "notsubstring")
    values = some(rng, CRIT_FIELDS[field], 1, 1 if single else 3)
    if single:
        values = values[:1]
    return ["crit", field, op, values, rng.random() < 0.3, False]


def chart(rng, depth):
    """A Criterion / ChartGroup description built directly (the only way to get negation and AND groups)."""
    if depth <= 0 or rng.random() < 0.5:
        return crit(rng)
    return ["group", rng.choice(("OR", "AND", "OR", "AND_G")), [chart(rng, depth - 1) for _ in range(rng.randint(1, 3))]]


def chart_recipe(rng, depth=2):
    k = rng.randrange(7)
    if k == 0:
        return ["keywords", some(rng, KEYWORDS, 1, 3)]
    if k == 1:
        return ["flag", rng.choice(FLAG_NAMES), some(rng, FLAG_STATUSES, 1, 2)]
    if k == 2:
        return ["without_tags", some(rng, TAGS, 1, 2)]
    if k == 3:
        return ["package_list_any", some(rng, ATOMS, 1, 4)]
    if k == 4:
        return ["chart", chart(rng, depth)]
    if k == 5 and depth > 0:
        return any_of(rng, depth - 1)
    return ["keywords", some(rng, KEYWORDS, 1, 2)]


def any_of(rng, depth, allow_multi=True):
    ops = []
    for _ in range(rng.randint(1, 3)):
        r = rng.random()
        if r < 0.08 and allow_multi:
            # an operand that is itself a conjunction of chart queries
            ops.append(["and", [chart_recipe(rng, depth) for _ in range(rng.randint(2, 3))]])
        else:
            ops.append(chart_recipe(rng, depth))
    return ["any_of", ops]


def query(rng, allow_multi=True):
    n = rng.choice((1, 2, 2, 3, 3, 4, 5))
    parts = []
    for _ in range(n):
        r = rng.random()
        if r < 0.4:
            parts.append(simple_recipe(rng))
        elif r < 0.75:
            parts.append(chart_recipe(rng))
        elif r < 0.9:
            parts.append(any_of(rng, 2, allow_multi))
        elif r < 0.95:
            parts.append(["paged", ["and", [simple_recipe(rng), chart_recipe(rng, 1)]], rng.choice((1, 50, 500)),
                          rng.choice((0, 0, 25, 1000))])
        else:
            parts.append(["order", rng.choice(("bug_id", "changeddate DESC"))])
    if rng.random() < 0.3 and len(parts) > 2:
        # a nested & instead of a flat chain
        parts = [["and", parts[:2]]] + parts[2:]
    rec = parts[0] if len(parts) == 1 else ["and", parts]
    if rng.random() < 0.1:
        rec = ["paged", rec, rng.choice((1, 20, 100)), rng.choice((0, 5, 300))]
    return rec


# ---- batching workload ---------------------------------------------------------------------------------

def long_atom(rng, i):
    base = "=dev-libs/%s%d-%d.%d" % (rng.choice(("pkg", "verylongpackagename", "p", "lib+x_y")), i,
                                     rng.randrange(30), rng.randrange(100))
    if rng.random() < 0.4:
        base += rng.choice(("_p20240101-r3", "_rc1", "-r12", ":0/2", "[weird&=chars]", " with space", "é"))
    return base


def batch_recipe(rng, big):
    """-> recipe with at least one splittable axis (ids and/or a package list), plus riders."""
    parts = []
    kind = rng.choice(("ids", "ids", "pkgs", "pkgs", "both", "both", "custom"))
    big_ids = rng.random() < 0.5
    if kind in ("ids", "both"):
        n = rng.choice((0, 1, 2, 5, 40, 300, 3000 if big else 800))
        if kind == "both" and not big_ids:
            n = min(n, 40)
        start = rng.choice((1, 95, 99990, 900000, 12345678))
        ids = list(range(start, start + n))
        if rng.random() < 0.3:
            rng.shuffle(ids)
        if ids and rng.random() < 0.15:
            ids.insert(rng.randrange(len(ids) + 1), ids[0])  # a duplicate id given directly
        parts.append(["ids", ids])
    if kind in ("pkgs", "both"):
        n = rng.choice((1, 2, 7, 60, 400 if big else 150))
        if kind == "both" and big_ids:
            n = min(n, 7)
        parts.append(["package_list_any", [long_atom(rng, i) for i in range(n)]])
    if kind == "custom":
        n = rng.choice((1, 3, 30, 200))
        field = rng.choice(("cf_stabilisation_atoms", "keywords", "status_whiteboard"))
        parts.append(["chart", ["crit", field, rng.choice(("anywords", "anyexact", "anywordssubstr")),
                                [long_atom(rng, i) for i in range(n)], False, True]])
    for _ in range(rng.choice((0, 1, 2, 3))):
        r = rng.random()
        parts.append(simple_recipe_no_ids(rng) if r < 0.5 else chart_recipe(rng, 1))
    rng.shuffle(parts)
    rec = parts[0] if len(parts) == 1 else ["and", parts]
    if rng.random() < 0.25:
        rec = ["paged", rec, rng.choice((1, 500)), rng.choice((0, 500))]
    return rec


def short_field_axis_recipe(rng):
    """A directly built splittable criterion on a short field name, rendered at slot >= 10 (its values go out as
    v10.. which is longer than the field name)."""
    riders = [["keywords", [rng.choice(KEYWORDS)]] for _ in range(rng.randint(9, 12))]
    n = rng.choice((30, 120, 300))
    crit_ = ["chart", ["crit", "cc", "anyexact", ["u%03d@example.org" % i for i in range(n)], False, True]]
    return ["and", riders + [crit_]]


def simple_recipe_no_ids(rng):
    while True:
        r = simple_recipe(rng)
        if r[0] != "ids":
            return r


def nvalues(recipe):
    if recipe[0] in ("ids", "package_list_any"):
        return len(recipe[1])
    if recipe[0] == "chart" and recipe[1][0] == "crit":
        return len(recipe[1][3])
    if recipe[0] == "and":
        return max(nvalues(x) for x in recipe[1])
    if recipe[0] == "paged":
        return nvalues(recipe[1])
    return 0


def budgets(rng, n=0):
    """-> (base_length, max_length), including budgets smaller than a single value (not for huge lists: one
    batch per value only multiplies work)."""
    r = rng.random()
    if r < 0.15:
        return 0, 6000
    if r < 0.3 and n <= 100:
        return rng.choice((0, 80, 200)), rng.choice((10, 30, 60, 120))
    base = rng.choice((0, 0, 57, 200, 1500, 4000))
    room = (40, 100, 250, 500, 1000, 2500, 6000) if n <= 100 else (500, 1000, 2500, 6000)
    return base, base + rng.choice(room)
