"""Requests for the helpers that are not image installers (eapply, eapply_user, unpack, has_version, best_version,
docompress, dostrip, filter_env) + small trees for fault-injection runs.  No pkgcore imports.

Each request carries its own truth in req["truth"] (written here from the construction of the inputs, never from
the implementation's answer):
    {"expect": "success"|"failure"|None, "why": ..., "payload": str|None,
     "file": {"path": <relative to work>, "content": <text>}   # file content afterwards when the action succeeded
     "exists": [paths relative to work], "sets": {"includes"|"excludes": [...]}}
"""

F_TXT = "one\ntwo\nthree\nfour\n"
GOOD_PATCH = "--- a/f.txt\n+++ b/f.txt\n@@ -1,4 +1,4 @@\n one\n-two\n+TWO\n three\n four\n"
GOOD_PATCH2 = "--- a/f.txt\n+++ b/f.txt\n@@ -2,3 +2,3 @@\n TWO\n-three\n+THREE\n four\n"
BAD_PATCH = "--- a/f.txt\n+++ b/f.txt\n@@ -1,4 +1,4 @@\n uno\n-dos\n+DOS\n tres\n quatro\n"
P0_PATCH = "--- f.txt\n+++ f.txt\n@@ -1,4 +1,4 @@\n one\n two\n three\n-four\n+FOUR\n"

INSTALLED = ["dev-libs/foo-1", "dev-libs/foo-2", "app-misc/bar-3", "sys-apps/baz-10"]

NSRC = 6


def misc_tree():
    """Work tree for the non-install helpers (deterministic)."""
    spec = []

    def f(path, content, mode=0o644):
        spec.append({"path": path, "type": "file", "content": content, "mode": mode})

    def d(path):
        spec.append({"path": path, "type": "dir"})

    for i in range(NSRC):
        d("src%d" % i)
        f("src%d/f.txt" % i, F_TXT)
        d("u%d" % i)
    d("patches")
    f("patches/good.patch", GOOD_PATCH)
    f("patches/bad.patch", BAD_PATCH)
    f("patches/p0.patch", P0_PATCH)
    d("patchdir")
    f("patchdir/01-first.patch", GOOD_PATCH)
    f("patchdir/02-second.diff", GOOD_PATCH2)
    f("patchdir/README", "not a patch\n")
    d("nopatches")
    f("nopatches/notes.txt", "nothing here\n")
    f("env.in", "declare -x FOO=\"bar\"\ndeclare -x KEEP=\"1\"\nmyfunc ()\n{\n    echo hi\n}\n")
    d("../distdir")
    spec.append({"path": "../distdir/a.tar.gz", "type": "tar", "compress": "gz",
                 "members": {"pkg-a/x.txt": "x of a\n", "pkg-a/sub/y.txt": "y of a\n"}})
    spec.append({"path": "../distdir/b.tar", "type": "tar", "compress": "",
                 "members": {"pkg-b/z.txt": "z of b\n"}})
    f("../distdir/corrupt.tar.gz", "this is not gzip data at all\n" * 4)
    f("../distdir/broken.tar", "neither is this a tar archive\n" * 40)
    f("../distdir/empty.tar.gz", "")
    f("../distdir/plain.txt", "just text\n")
    spec.append({"path": "local.tar.gz", "type": "tar", "compress": "gz", "members": {"pkg-l/l.txt": "local\n"}})
    return spec


def gen_misc_request(rng, eapi, work, used):
    """used: dict counting consumed src/u directories (each eapply/unpack gets a fresh one)."""
    e = int(eapi)
    kinds = ["docompress", "dostrip", "has_version", "has_version", "best_version", "best_version", "unpack", "unpack",
             "filter_env", "bad-frame"]
    if e >= 6:
        kinds += ["eapply", "eapply", "eapply", "eapply_user"]
    h = rng.choice(kinds)
    req = {"helper": h, "eapi": str(eapi), "nonfatal": rng.random() < 0.6, "args": [], "raw_options": "", "phase": "install"}
    truth = {"expect": None, "why": ""}
    if h == "bad-frame":
        # requests a correct bash side would not send, or that no helper can honour: they still need one proper reply
        c = rng.choice(["unknown-internal-option", "dosym-three-args", "dostrip-unknown-option", "unparsable-options"])
        if c == "unknown-internal-option":
            req.update(helper="doins", raw_options='--dest="/usr/share/vt" --insoptions="-m0644" --frobnicate=1', args=["env.in"])
        elif c == "dosym-three-args":
            req.update(helper="dosym", args=["a", "/usr/bin/b", "c"])
        elif c == "dostrip-unknown-option":
            req.update(helper="dostrip", args=["--bogus", "/usr/lib/x"])
        else:
            req.update(helper="dodoc", raw_options='--dest="/usr/share/doc/x', args=["env.in"])  # unbalanced quote
        req["truth"] = {"expect": "failure", "why": c}
        return req
    if h in ("docompress", "dostrip"):
        if h == "docompress" and e < 4 or h == "dostrip" and e < 7:
            pass  # the python side does not gate these; the bash side does not define them: still a legal frame
        tg = rng.sample(["/usr/share/doc/x", "/opt/vt", "/usr/lib/debug", "/etc", "relative/path"], rng.randrange(0, 3))
        x = rng.random() < 0.4
        req["args"] = (["-x"] if x else []) + tg
        if tg:
            truth = {"expect": "success", "why": "paths registered", "sets": {"excludes" if x else "includes": tg}}
        else:
            truth = {"expect": "failure", "why": "no path operands"}
    elif h in ("has_version", "best_version"):
        q = rng.choice([
            ("dev-libs/foo", True, "dev-libs/foo-2"), ("=dev-libs/foo-1", True, "dev-libs/foo-1"),
            ("dev-libs/nope", False, ""), (">=app-misc/bar-4", False, ""), ("<sys-apps/baz-11", True, "sys-apps/baz-10"),
            (">=dev-libs/foo-2", True, "dev-libs/foo-2"), ("app-misc/bar", True, "app-misc/bar-3"),
            ("=dev-libs/foo", None, None), ("dev-libs//foo", None, None), ("!!!", None, None)])
        opts = []
        if q[1] is not None:
            if e in (5, 6) and rng.random() < 0.3:
                opts = ["--host-root"]
            elif e >= 7 and rng.random() < 0.4:
                opts = [rng.choice(["-b", "-d", "-r"])]
        req["args"] = opts + [q[0]]
        req["phase"] = "setup"
        if q[1] is None:
            truth = {"expect": "failure", "why": "invalid atom"}
        elif h == "has_version":
            truth = {"expect": "success", "why": "query", "payload": "0" if q[1] else "1"}
        else:
            truth = {"expect": "success", "why": "query", "payload": q[2]}
    elif h == "unpack":
        n = used.setdefault("u", 0)
        if n >= NSRC:
            return None
        used["u"] = n + 1
        req["cwd"] = work + "/u%d" % n
        req["phase"] = "unpack"
        c = rng.choice(["a", "b", "ab", "corrupt", "broken", "missing", "empty", "plain", "local", "a+corrupt"])
        m = {"a": ["a.tar.gz"], "b": ["b.tar"], "ab": ["a.tar.gz", "b.tar"], "corrupt": ["corrupt.tar.gz"],
             "broken": ["broken.tar"], "missing": ["nope.tar.gz"], "empty": ["empty.tar.gz"], "plain": ["plain.txt"],
             "local": ["./../local.tar.gz"], "a+corrupt": ["a.tar.gz", "corrupt.tar.gz"]}
        req["args"] = m[c]
        ex = {"a": ["pkg-a/x.txt", "pkg-a/sub/y.txt"], "b": ["pkg-b/z.txt"], "local": ["pkg-l/l.txt"]}
        ex["ab"] = ex["a"] + ex["b"]
        if c in ex:
            truth = {"expect": "success", "why": "valid archives", "exists": ["u%d/%s" % (n, p) for p in ex[c]]}
        elif c in ("corrupt", "broken", "missing", "a+corrupt"):
            truth = {"expect": "failure", "why": c}
        else:
            truth = {"expect": None, "why": "PMS does not say whether an %s file fails" % c}
    elif h == "eapply":
        n = used.setdefault("src", 0)
        if n >= NSRC:
            return None
        used["src"] = n + 1
        req["cwd"] = work + "/src%d" % n
        req["phase"] = "prepare"
        P = work + "/patches/"
        c = rng.choice(["good", "bad", "dir", "nopatches", "missing", "opt-after", "p0", "good+bad", "dashdash"])
        fpath = "src%d/f.txt" % n
        if c == "good":
            req["args"] = [P + "good.patch"]
            truth = {"expect": "success", "why": c, "file": {"path": fpath, "content": F_TXT.replace("two", "TWO")}}
        elif c == "dashdash":
            req["args"] = ["--", P + "good.patch"]
            truth = {"expect": "success", "why": c, "file": {"path": fpath, "content": F_TXT.replace("two", "TWO")}}
        elif c == "bad":
            req["args"] = [P + "bad.patch"]
            truth = {"expect": "failure", "why": "patch does not apply"}
        elif c == "dir":
            req["args"] = [work + "/patchdir"]
            truth = {"expect": "success", "why": c,
                     "file": {"path": fpath, "content": F_TXT.replace("two", "TWO").replace("three", "THREE")}}
        elif c == "nopatches":
            req["args"] = [work + "/nopatches"]
            truth = {"expect": "failure", "why": "directory without patches"}
        elif c == "missing":
            req["args"] = [P + "not-there.patch"]
            truth = {"expect": "failure", "why": "missing patch file"}
        elif c == "opt-after":
            req["args"] = [P + "good.patch", "-p1"]
            truth = {"expect": "failure", "why": "option after file operands"}
        elif c == "p0":
            req["args"] = ["-p0", P + "p0.patch"]
            truth = {"expect": "success", "why": c, "file": {"path": fpath, "content": F_TXT.replace("four", "FOUR")}}
        elif c == "good+bad":
            req["args"] = [P + "good.patch", P + "bad.patch"]
            truth = {"expect": "failure", "why": "second patch does not apply"}
    elif h == "eapply_user":
        req["phase"] = "prepare"
        if rng.random() < 0.3:
            req["args"] = ["unexpected"]
            truth = {"expect": "failure", "why": "eapply_user takes no arguments"}
        else:
            truth = {"expect": "success", "why": "no user patches", "exists": ["../temp/.user_patches_applied"]}
    elif h == "filter_env":
        out = "env.out.%d" % rng.randrange(10 ** 6)
        c = rng.random()
        if c < 0.7:
            req["args"] = ["-v", "FOO", "-f", "myfunc", work + "/env.in", work + "/" + out]
            truth = {"expect": "success", "why": "filter", "exists": [out]}
        elif c < 0.85:
            req["args"] = [work + "/env.in"]
            truth = {"expect": "failure", "why": "needs two files"}
        else:
            req["args"] = ["-v", "FOO", work + "/no-such-env", work + "/" + out]
            truth = {"expect": "failure", "why": "missing input"}
    req["truth"] = truth
    return req


def small_tree(rng):
    """A handful of entries: for fault-injection runs (one fresh scenario per injected fault)."""
    spec = []

    def f(path):
        spec.append({"path": path, "type": "file", "content": "%s %x\n" % (path, rng.getrandbits(32)), "mode": 0o644,
                     "mtime": 1_500_000_000_000_000_000 + rng.randrange(10 ** 12)})

    for n in ["a.txt", "b.html", "prog", "m.1", "m.de.1", "de.mo", "libx.so"]:
        f(n)
    spec.append({"path": "d", "type": "dir"})
    f("d/one.txt")
    f("d/two.html")
    spec.append({"path": "d/sub", "type": "dir"})
    f("d/sub/three.css")
    if rng.random() < 0.5:
        spec.append({"path": "d/ln", "type": "link", "target": "one.txt"})
    return spec


def gen_fault_request(rng, eapi, scope):
    e = int(eapi)
    c = rng.choice(["doins", "doins-r", "dodoc", "doexe", "dobin", "doman", "domo", "dodir", "keepdir", "dosym",
                    "dolib.so", "doinfo", "dodoc-r", "dohtml-r"])
    sc = dict(scope)
    req = {"helper": c.split("-")[0], "eapi": str(eapi), "scope": sc, "nonfatal": rng.random() < 0.5}
    if c == "doins":
        req["args"] = rng.sample(["a.txt", "b.html", "prog"], rng.randrange(1, 3))
    elif c == "doins-r":
        req["args"] = ["-r", "d"] + (["a.txt"] if rng.random() < 0.5 else [])
    elif c == "dodoc":
        req["args"] = ["a.txt", "b.html"]
    elif c == "dodoc-r":
        req["args"] = ["-r", "d"] if e >= 4 else ["a.txt"]
    elif c == "dohtml-r":
        if e > 6:
            req["helper"] = "dodoc"
            req["args"] = ["b.html"]
        else:
            req["args"] = ["-r", "d", "b.html"]
    elif c in ("doexe", "dobin", "dolib.so"):
        req["args"] = ["prog"] if c != "dolib.so" else ["libx.so"]
        if not sc.get("exedesttree"):
            sc["exedesttree"] = "/opt/vt/bin"
    elif c == "doinfo":
        req["args"] = ["a.txt"]
    elif c == "doman":
        req["args"] = ["m.1", "m.de.1"]
    elif c == "domo":
        req["args"] = ["de.mo"]
    elif c in ("dodir", "keepdir"):
        req["args"] = ["/var/lib/vt", "/a/b/c"][: rng.randrange(1, 3)]
    elif c == "dosym":
        req["args"] = ["../lib/x", "/opt/vt/cur/link"]
    return req
