"""Random unmerge/replace scenarios for C20 (plans for vt/gen/c20_world.py).

All names that are not base-system directories carry a `vt` marker so that they cannot exist on the host
(the nested-offset uninstall engine looks at the host's root, see the known finding)."""

import posixpath

BASE_REAL = ["usr", "usr/bin", "usr/lib", "usr/lib64", "usr/sbin", "etc", "var", "home", "root"]
MERGED = {"bin": "usr/bin", "sbin": "usr/sbin", "lib": "usr/lib", "lib64": "usr/lib64"}
OTHER_DIRS = ["usr/share", "usr/share/vtdoc", "usr/share/vtdoc/html", "opt", "opt/vtapp", "opt/vtapp/plugins",
              "var/lib", "var/lib/vtdata", "etc/vtconf.d", "usr/lib/vtmod", "usr/lib/vtmod/sub", "usr/lib64/vtmod64",
              "usr/bin/vtbindir", "lib/vtfw", "bin/vtsub", "home/vtuser", "root/vtdot", "var/vtcache",
              "var/vtcache/a", "var/vtcache/a/b", "usr/vtlocal", "usr/vtlocal/lib"]


def F(data, mode=0o644):
    return {"t": "f", "d": data, "m": mode}


def D(mode=0o755):
    return {"t": "d", "m": mode}


def L(to):
    return {"t": "l", "to": to}


def parents(rel):
    out = []
    while "/" in rel:
        rel = rel.rsplit("/", 1)[0]
        out.append(rel)
    return out


def phys_of(live, rel):
    """Physical location of `rel` in the spec `live` (relative directory symlinks in the parent chain resolved)."""
    parts = rel.split("/")
    cur = []
    comps = parts[:-1]
    i = 0
    guard = 0
    while i < len(comps):
        c = comps[i]
        i += 1
        if c == "..":
            cur.pop()
            continue
        cand = "/".join(cur + [c])
        e = live.get(cand)
        if e is not None and e["t"] == "l":
            guard += 1
            if guard > 20 or e["to"].startswith("/") or e["to"].startswith("@R@"):
                raise ValueError("unsupported link in parent chain: %s" % cand)
            comps = e["to"].split("/") + comps[i:]
            i = 0
            continue
        cur.append(c)
    return "/".join(cur + [parts[-1]])


def relto(from_dir, target):
    return posixpath.relpath(target, from_dir or ".")


class Gen:
    def __init__(self, rng):
        self.rng = rng
        self.n = 0

    def name(self, prefix, ext=".dat"):
        self.n += 1
        return "vt_%s%d%s" % (prefix, self.n, ext)

    def plan(self, mode=None, style=None):
        rng = self.rng
        mode = mode or rng.choice(["uninstall", "uninstall", "replace", "replace", "replace"])
        style = style or rng.choice(["chroot", "chroot", "nested"])
        merged_usr = rng.random() < 0.55
        live = {}
        for d in BASE_REAL:
            if rng.random() < 0.9 or d in ("usr", "usr/lib", "usr/bin", "etc"):
                live[d] = D()
        for d in list(live):
            for p in parents(d):
                live.setdefault(p, D())
        for k, tgt in MERGED.items():
            if tgt not in live:
                continue
            if merged_usr:
                live[k] = L(tgt)
            elif rng.random() < 0.8:
                live[k] = D()
        # the outside area: only ever referenced by symlinks
        live["vt_outside"] = D()
        live["vt_outside/t_file"] = F("outside file\n")
        live["vt_outside/t_dir"] = D()
        live["vt_outside/t_dir/inner"] = F("inner\n")
        live["vt_outside/t_dir/deep"] = D()
        live["vt_outside/t_dir/deep/leaf"] = F("leaf\n")

        def usable_dirs():
            """directory spellings an image may use (spelling -> physical)."""
            out = {}
            for d in BASE_REAL + list(MERGED) + OTHER_DIRS:
                top = d.split("/")[0]
                if top in MERGED and top not in live:
                    continue
                if top not in live and top not in ("opt",):
                    continue
                out[d] = d
            return out

        spellings = sorted(usable_dirs())

        def alias(rel):
            """another spelling of the same physical path through a merged-usr symlink, if there is one."""
            if not merged_usr:
                return None
            for k, tgt in MERGED.items():
                if rel == k or rel.startswith(k + "/"):
                    return tgt + rel[len(k):]
                if rel.startswith(tgt + "/") and k in live:
                    return k + rel[len(tgt):]
            return None

        def ensure_live_dir(rel):
            """make `rel` (an image directory spelling) exist in the live root, physically."""
            chain = list(reversed(parents(rel))) + [rel]
            for d in chain:
                p = phys_of(live, d)
                e = live.get(p)
                if e is None:
                    live[p] = D()

        def gen_image(tag, ndirs, nfiles, reuse=None):
            img = {}
            dirs = rng.sample(spellings, min(ndirs, len(spellings)))
            for d in dirs:
                img[d] = D()
                for p in parents(d):
                    img[p] = D()
            dl = sorted(img)
            for _ in range(nfiles):
                d = rng.choice(dl)
                r = rng.random()
                if reuse and r < 0.45:
                    # same physical object as an entry of the other image: same spelling or the alias spelling
                    cand = rng.choice(reuse)
                    sp = cand
                    a = alias(cand)
                    if a is not None and rng.random() < 0.6:
                        sp = a
                    ok = True
                    for p in parents(sp):
                        if p in img and img[p]["t"] != "d":
                            ok = False
                    if not ok or sp in img:
                        continue
                    for p in parents(sp):
                        img[p] = D()
                    # the shared object may be of any non-directory type (a .so symlink, a fifo), not only a file
                    k = rng.random()
                    if k < 0.55:
                        img[sp] = F("%s content of %s %d\n" % (tag, sp, rng.randrange(3)),
                                    rng.choice([0o644, 0o755, 0o600]))
                    elif k < 0.9:
                        pdir = phys_of(live, sp).rsplit("/", 1)[0]
                        img[sp] = L(rng.choice([relto(pdir, "vt_outside/t_file"), relto(pdir, "vt_outside/t_dir"),
                                                "vt_does_not_exist", "@R@/vt_outside/t_file"]))
                    else:
                        img[sp] = {"t": "p"}
                    continue
                kind = rng.choices(["f", "l_file", "l_dir", "l_out_rel", "l_out_abs", "l_dangling", "p"],
                                   [10, 2, 2, 2, 2, 1, 1])[0]
                rel = d + "/" + self.name(tag[0] + kind[0] + "_")
                if kind == "f":
                    img[rel] = F("%s %s %d\n" % (tag, rel, rng.randrange(1000)), rng.choice([0o644, 0o755, 0o600, 0o4755]))
                elif kind == "l_file":
                    sib = [x for x in img if img[x]["t"] == "f" and x.rsplit("/", 1)[0] == d]
                    img[rel] = L(rng.choice(sib).rsplit("/", 1)[1] if sib else "vt_nothing")
                elif kind == "l_dir":
                    img[rel] = L(relto(phys_of(live, rel).rsplit("/", 1)[0], rng.choice(["vt_outside/t_dir", "usr", "etc"])))
                elif kind == "l_out_rel":
                    img[rel] = L(relto(phys_of(live, rel).rsplit("/", 1)[0], "vt_outside/t_file"))
                elif kind == "l_out_abs":
                    img[rel] = L("@R@/vt_outside/" + rng.choice(["t_file", "t_dir"]))
                elif kind == "l_dangling":
                    img[rel] = L("vt_does_not_exist")
                else:
                    img[rel] = {"t": "p"}
            return img

        old = gen_image("old", rng.randrange(1, 7), rng.randrange(1, 14))
        # install the old package into the live root (physically), then perturb
        for rel in sorted(old, key=lambda r: (r.count("/"), r)):
            e = old[rel]
            if e["t"] == "d":
                ensure_live_dir(rel)
            else:
                ensure_live_dir(rel.rsplit("/", 1)[0])
                live[phys_of(live, rel)] = dict(e)
        for rel in sorted(old):
            e = old[rel]
            p = phys_of(live, rel)
            r = rng.random()
            if e["t"] == "d":
                p = phys_of(live, rel + "/_").rsplit("/", 1)[0]  # the directory itself, fully resolved
                if r < 0.35:
                    live[p + "/" + self.name("keep_")] = F("unlisted neighbour\n")
                elif r < 0.45:
                    sub = p + "/" + self.name("keepdir_", "")
                    live[sub] = D()
                    if rng.random() < 0.6:
                        live[sub + "/" + self.name("k_")] = F("unlisted deep\n")
                continue
            if p not in live:
                continue
            if r < 0.10:
                del live[p]  # already gone
            elif r < 0.25 and e["t"] == "f":
                live[p] = F("modified by the user %d\n" % rng.randrange(100), 0o640)
            elif r < 0.33:
                # replaced by a symlink since recording: must be unlinked, not followed
                live[p] = L(relto(p.rsplit("/", 1)[0], rng.choice(["vt_outside/t_file", "vt_outside/t_dir"])))
            elif r < 0.37 and e["t"] == "l":
                live[p] = F("was a symlink when recorded\n")
        # unlisted system files
        sysdirs = [d for d in live if live[d]["t"] == "d" and not d.startswith("vt_outside")]
        for _ in range(rng.randrange(2, 9)):
            d = rng.choice(sysdirs)
            if rng.random() < 0.8:
                live[d + "/" + self.name("sys_")] = F("system file %d\n" % rng.randrange(1000))
            else:
                live[d + "/" + self.name("syslink_", "")] = L(relto(d, "vt_outside/t_file"))
        new = None
        if mode == "replace":
            reuse = sorted(r for r in old if old[r]["t"] != "d")
            new = gen_image("new", rng.randrange(1, 6), rng.randrange(1, 12), reuse=reuse)
            # no directory/non-directory conflicts between the new image and the live root
            for rel in sorted(new):
                p = phys_of(live, rel)
                le = live.get(p)
                if le is None:
                    continue
                nd, ld = new[rel]["t"] == "d", le["t"] == "d"
                if nd != ld and not (nd and le["t"] == "l" and p in MERGED):
                    # drop the entry and everything below it
                    for q in [q for q in new if q == rel or q.startswith(rel + "/")]:
                        del new[q]
            # parents of new entries must be directories (or base symlinks) in the live root
            for rel in sorted(new):
                for par in parents(rel):
                    le = live.get(phys_of(live, par))
                    if le is not None and le["t"] not in ("d",) and not (le["t"] == "l" and par in MERGED):
                        new.pop(rel, None)
        return {"style": style, "mode": mode, "live": live, "old": old, "new": new, "merged_usr": merged_usr,
                "triggers": ["merge", "unmerge", "base_protect"] if mode == "replace" else ["unmerge", "base_protect"],
                "snap_after": ["post_merge"] if mode == "replace" else []}
