"""C34 workload generator: random shell definitions (variables + functions) and the bash scripts that make the
system bash define and dump them.  Nothing here knows how pkgcore's filter works.

Safety: function bodies are only ever *defined*, never called; if a faulty filter tears a function apart the second
bash may execute body lines at top level, so fragments use builtins, here-documents and /dev/null only, PATH points
at a non-existent directory and stdin is /dev/null.
"""

import os
import re
import shutil
import subprocess

BASH = shutil.which("bash") or "/bin/bash"

# ------------------------------------------------------------------------------------------------ quoting

def ansi_c(b):
    """bytes -> $'...' word bash decodes to exactly these bytes (octal escapes for everything but alnum)."""
    out = ["$'"]
    for c in b:
        if (48 <= c <= 57) or (65 <= c <= 90) or (97 <= c <= 122):
            out.append(chr(c))
        else:
            out.append("\\%03o" % c)
    out.append("'")
    return "".join(out)


# ------------------------------------------------------------------------------------------------ names

_STEMS = ["foo", "bar", "src", "pkg", "econf", "cfg", "T", "D", "my", "tc", "py", "x"]
_TAILS = ["", "_a", "_b", "1", "_setup", "_dir", "X", "_", "foo", "2b"]
_FSEPS = ["_", "_", "_", "-", ".", ":", "+"]

HARNESS_PREFIX = "__c34"
K_UNICODE_BLANK = "unicode-blank-ends-unquoted-value"
K_ALT = "single-pattern-alternation-not-anchored"


def var_name(rng):
    n = rng.choice(["", "_", "x"]) if rng.random() < 0.2 else ""
    n += rng.choice(_STEMS) + rng.choice(_TAILS)
    if rng.random() < 0.3:
        n += "_" + rng.choice(_STEMS)
    if rng.random() < 0.2:
        n = n.upper()
    if n[0].isdigit():
        n = "_" + n
    return n


_KEYWORD_STEMS = ["function", "declare", "export", "local", "readonly", "typeset"]


def func_name(rng):
    if rng.random() < 0.12:
        # names that begin with a word the scanner treats specially, continued by a character bash allows in function names
        return rng.choice(_KEYWORD_STEMS) + rng.choice(["-", ".", ":", "+", "_", "s", "X"]) + rng.choice(_STEMS) + rng.choice(_TAILS)
    n = rng.choice(_STEMS) + rng.choice(_TAILS)
    if rng.random() < 0.5:
        n += rng.choice(_FSEPS) + rng.choice(_STEMS) + rng.choice(_TAILS)
    if rng.random() < 0.1:
        n = "_" + n
    if n[0].isdigit() or n[0] in "-+.:":
        n = "f" + n
    return n


# ------------------------------------------------------------------------------------------------ values

_SPECIALS = list("}{)(#;&|<>=*?[]~!%$`\"'\\ \t\n") + ["\n}", "\n}\n", " #", "${", "$(", "EOF", "<<EOF", "=(", " () {",
                                                      "x=1", "'\"'", "\\\n", "}\n", "; }", "é", "日本", "\x01", "\x7f",
                                                      "\x1b[0m", "ß", "😀"]
_UNICODE_BLANKS = ["\u2028", "\u00a0", "\u3000", "\u2003", "\u0085"]   # str.isspace() is true, bash sees ordinary characters
_WORDS = ["a", "b", "foo", "bar", "usr", "lib", "-O2", "--prefix=/usr", "1", "42", "z"]


def value(rng, excl=frozenset()):
    v = _value(rng)
    if K_UNICODE_BLANK not in excl and rng.random() < 0.12:
        k = rng.randrange(len(v) + 1)
        v = v[:k] + rng.choice(_UNICODE_BLANKS) + v[k:]
    return v


def _value(rng):
    r = rng.random()
    if r < 0.08:
        return ""
    if r < 0.30:
        return rng.choice(_WORDS)
    if r < 0.45:
        return " ".join(rng.choice(_WORDS) for _ in range(rng.randrange(2, 6)))
    n = rng.randrange(1, 9)
    return "".join(rng.choice(_SPECIALS) if rng.random() < 0.6 else rng.choice(_WORDS) for _ in range(n))


def gen_var(rng, name, excl=frozenset()):
    """-> dict(name, kind, define(bytes-safe str), fmt)"""
    r = rng.random()
    if r < 0.62:
        kind = "scalar"
        v = value(rng, excl)
        attr = rng.choice(["", "", "", "", "export", "declare -i"])
        if attr == "declare -i":
            v = str(rng.randrange(-5, 1000))
        define = "%s=%s" % (name, ansi_c(v.encode("utf-8")))
        if attr == "export":
            define = "export " + define
        elif attr:
            define = "%s %s" % (attr, define)
    elif r < 0.88:
        kind = "indexed"
        vals = [value(rng, excl) for _ in range(rng.randrange(0, 5))]
        if vals and rng.random() < 0.3:   # sparse array
            items = " ".join("[%d]=%s" % (i * rng.randrange(1, 4) + (i * 3), ansi_c(v.encode())) for i, v in enumerate(vals))
        else:
            items = " ".join(ansi_c(v.encode()) for v in vals)
        define = "%s=(%s)" % (name, items)
    else:
        kind = "assoc"
        keys = []
        for _ in range(rng.randrange(0, 4)):
            k = value(rng, excl) or "k"
            if k not in keys and k not in ("@", "*"):
                keys.append(k)
        items = " ".join("[%s]=%s" % (ansi_c(k.encode()), ansi_c(value(rng, excl).encode())) for k in keys)
        define = "declare -A %s=(%s)" % (name, items)
    if kind == "assoc":
        fmt = "p"
    else:
        fmt = rng.choice(["set", "set", "set", "A", "A", "p"])
    return {"name": name, "kind": kind, "define": define, "fmt": fmt}


# ------------------------------------------------------------------------------------------------ function bodies

_V = ["x", "y", "z", "foo_bar", "D", "line"]
_DELIM = ["EOF", "_EOF_", "END", "E-F", "EOT", "eof"]

# simple (single command) fragments.  @V@ = a variable name, @W@ = a harmless word.
SIMPLE = [
    # braces / parens in quotes
    'echo "}"', "echo '}'", 'echo "{"', "echo '{' '}'", 'echo "a } b { c"', "echo $'}\\n{'", "echo \\}", "echo \\{",
    '@V@="}"', "local @V@='{'", 'echo ")" "("', "echo ')'", "echo \\) \\(", 'echo "\\"}"', "echo '\"' '}'",
    'echo "$(echo "}")"', 'echo "$(echo \')\')"', "echo `echo '}'`", 'echo "`echo \\"}\\"`"', "echo $(echo \\))",
    'echo "it\'s }"', "echo 'a\n}\nb'", 'echo "a\n}\nb"', "echo $'it\\'s }'", 'echo "}" \'{\' "}"',
    "echo }", "echo {", "echo {a,b}", "echo {1..3}", "echo a{b,c}d", "echo } {", "echo @W@ };",
    # parameter expansions
    "echo ${@V@//\\}/}", "echo ${@V@:-\\}}", 'echo "${@V@:-"}"}"', "echo ${@V@:-'}'}", "echo ${@V@#\\{}",
    "echo ${@V@%%\\}*}", "echo ${#@V@}", "echo $#", "echo ${@V@##*#}", 'echo "${@V@/\\"/}"', 'echo ${@V@:-$(echo "}")}',
    "echo ${@V@:+${y:-\\}}}", "echo ${@V@[@]}", "echo ${!@V@}", "echo ${@V@^^}", "echo ${@V@:1:2}", "echo ${@V@/\\//\\}}",
    "echo $$ $! $? $- $0", 'echo "$@" "$*"', "echo ${$}", 'echo "${@V@}" ${@V@}text', 'echo "${@V@:-{}"',
    'echo "${@V@:-a b}" "${@V@:="}"}"', "echo ${@V@//\\{/\\(}", 'echo "${@V@%"}"}"', "echo ${@V@/#a/b} ${@V@/%a/b}",
    "echo ${@V@:-\"'\"}", "echo ${@V@:-`echo }`}", 'echo "${#@V@[@]}" "${@V@[*]:1}"',
    "echo ${@V@:-$'}'}", 'echo "${@V@:-$\'}\'}"', "echo ${@V@:-{a,b}}", 'echo "${@V@//"{"/"}"}"',
    # '#' in non-comment positions
    "echo a#b", "echo '#' \"#\"", "echo \\#", "echo $(( 16#ff ))", "echo ${@V@#y} ${@V@##y}", "echo `echo hi # }`",
    "echo \\# }", 'echo " # }"', "echo ' #' {", "echo $# #$ x#", "echo $(echo a#b \\#)",
    # arithmetic
    "(( @V@ >> 1 ))", "(( @V@ << 2 ))", "(( @V@ = y << 3 ))", "echo $(( 1 << 4 ))", "(( @V@ = (y > z) ? y : z ))",
    'let "@V@ <<= 1"', "(( @V@ < y ))", "echo $[ 1 + 2 ]", "@V@=$(( 1 <<2 ))", "(( @V@<<=1 ))", "echo $(( (1+2) * 3 ))",
    "(( @V@ = 1 << 2, y = 2 >> 1 ))", "echo $(( @V@ ? 1 : 0 )) }",
    # [[ ]]
    "[[ $@V@ =~ } ]]", "[[ $@V@ == *}* ]]", "[[ $@V@ =~ ^\\{.*\\}$ ]]", '[[ $@V@ == "(" ]]', "[[ $@V@ < $y ]]",
    "[[ -n $@V@ && $y != \\) ]]", "[[ $@V@ =~ [[:space:]]#.* ]]", "[ \"$@V@\" = '}' ]", "[[ $@V@ == @(a|b) ]]",
    # arrays / assignments inside functions
    'local -a arr=(a "}" \')\' )', 'arr+=("{")', 'arr=( [0]="(" [1]=\'}\' )', 'declare -A m=([k]="}")', "@V@=$y", "@V@=",
    "local @V@=\"$1\" y='}' z", "@V@=( $(echo a b) )", "@V@=${y}${z:-\\}}", "export @V@=$'}'", "@V@+=\\}",
    # redirections / here-strings / process substitution
    "read @V@ <<< \"}\"", "read @V@ <<< '{'", "read @V@ <<<$y", "cat < <(echo \"}\")", "echo hi >&2", "echo hi > /dev/null 2>&1",
    "echo hi &> /dev/null", "read -r @V@ < /dev/null", "cat <(echo a) <(echo \"}\")",
    # misc
    ":", "true", "return 0", "printf '%s\\n' \"$@\"", "eval 'inner_e() { :; }'", "eval \"echo }\"", "@W@ --flag=\"}\" arg",
    "echo hi; echo there", "echo a && echo } || echo {", "! true", "echo a | cat | cat", "echo \"a\" 'b' c\\ d",
    "@V@=1 y=2 echo }", "echo $(echo $(echo \"}\"))", "echo $( ( echo a ) )", "echo \"$( (echo \")\") )\"",
    "time echo }", "echo \"\\${@V@}\" '$(' \"\\$(\"", "echo \\\\}", "echo \"\\\\\"}",
    'echo "$(case $@V@ in a) echo "}" "{" ;; esac)"', 'echo "$(case $@V@ in a) echo "foo bar" ;; esac)"',
    "@V@=$(case $y in a) echo \"foo\" ;; esac)",
    "function_like () ( echo sub )", "echo 'function f() {'", "echo \"f() {\"",
]

HEREDOC = [
    "cat <<@D@\n}\n{\n$@V@ \"\n@D@",
    "cat <<-'@D@'\n\t}\n\t@D@",
    "cat <<'@D@'\n}\nfoo () {\n${\n$(\n@D@",
    "cat <<@D@\n text @D@ not at start\n@D@ trailing\n@D@",
    "cat <<\"@D@\"\n' \" }\n@D@",
    "cat <<@D@ | cat\nhello }\n@D@",
    "cat <<@D@ <<'OTHER'\nfirst }\n@D@\nsecond {\nOTHER",
    "cat > /dev/null <<@D@\nalias char-major-67 coda\n# }\n@D@",
    "@V@=$(cat <<@D@\n}\n@D@\n)",
    "cat <<@D@\n${@V@:-\"}\"}\n$(echo \"}\")\n@D@",
    "cat <<-@D@\n\t\tindented }\n\t@D@",
    "cat <<@D@\n@D@",
    "cat <<@D@\n\n}\n\n@D@",
    "cat <<\\@D@\n$x }\n@D@",
    "while read -r line; do\n echo \"$line\"\ndone <<@D@\n}\n{\n@D@",
    "cat <<@D@ && echo }\nx=1\ny () {\n@D@",
    "cat 0<<@D@\n}\n@D@",
]

CASES = [
    'case $@V@ in\n a) echo 1;;\n "}") echo 2;;\n \\)) ;;\n *) echo "(";;\nesac',
    "case $@V@ in (a|b) :;; esac",
    "case $@V@ in\n a) echo 1;&\n b) echo 2;;&\n \\}) echo 3;;\nesac",
    "case \"$@V@\" in\n '{') echo \"}\" ;;\n \\#*) : ;;\n x\\)y) : ;;\nesac",
    "case ${@V@:-\\}} in\n *\\}*) : ;;\n [a-z]*) echo ${y#\\)} ;;\nesac",
    "case $@V@ in\n a)\n case $y in\n b) echo \"}\";;\n esac;;\nesac",
    "case $@V@ in\nesac",
]

# compound wrappers: {B} = an inner body (already newline-joined commands)
WRAPPERS = [
    "if [[ -n $@V@ ]]; then\n{B}\nfi",
    "if true; then\n{B}\nelse\n{B2}\nfi",
    "if false; then\n{B}\nelif true; then\n{B2}\nfi",
    'for @V@ in a "b }" c; do\n{B}\ndone',
    "for ((i=0; i<3; i++)); do\n{B}\ndone",
    "while false; do\n{B}\ndone",
    "until true; do\n{B}\ndone",
    "{\n{B}\n}",
    "{\n{B}\n} 2>/dev/null",
    "(\n{B}\n)",
    "case $@V@ in\n pat|\\}) \n{B}\n;;\n *)\n{B2}\n;;\nesac",
    "inner_@W@ () {\n{B}\n}",
    "function inner2_@W@ {\n{B}\n}",
    "@V@=$(\n{B}\n)",
    "{\n{B}\n} | while read -r l; do :; done",
    "while read -r l; do\n{B}\ndone < <(echo \"}\")",
    "true && {\n{B}\n}",
    "[[ -n $@V@ ]] || {\n{B}\n}",
]


def _subst(rng, s):
    while "@V@" in s:
        s = s.replace("@V@", rng.choice(_V), 1)
    while "@W@" in s:
        s = s.replace("@W@", rng.choice(["emake", "foo", "die", "einfo", "my_tool"]), 1)
    if "@D@" in s:
        s = s.replace("@D@", rng.choice(_DELIM))
    return s


# ---- recorded defect mechanisms (see known/C34.json) -------------------------------------------------------------
# While the probes of a mechanism still fail on the tree, every (scanning context, fragment) pair that the mechanism's
# RULE covers is kept out of the random workload: otherwise most dumps would re-report the recorded mechanisms in
# unclassifiable mixtures.  The probes themselves are judged and reported on every run; a mechanism whose probes all
# pass is no longer excluded (a fix re-enables the fragments automatically).
#
# scanning contexts: "top"    function body / if / loops / case arms / nested functions / command substitutions
#                    "group"  inside a { ...; } group
#                    "subsh"  inside a ( ... ) subshell
#                    "comsub" directly inside $( ... )
K_BRACE_WORD = "open-brace-word-taken-for-group"
K_PARAM = "param-expansion-ends-at-first-close-brace"
K_MULTI_HEREDOC = "second-here-document-of-a-command-not-skipped"
K_GROUP = "group-and-subshell-bodies-scanned-without-words-or-here-documents"
K_COMSUB_ASSIGN = "assignment-value-runs-past-end-of-command-substitution"
K_CASE_COMSUB = "case-pattern-paren-ends-command-substitution"

_BRACE_WORD = {"echo {", "echo } {", "echo ' #' {", "echo a && echo } || echo {"}
_PARAM = {'echo "${@V@:-"}"}"', "echo ${@V@:-'}'}", 'echo "${@V@:-a b}" "${@V@:="}"}"', 'echo "${@V@%"}"}"',
          "echo ${@V@:-`echo }`}", 'echo "${@V@//"{"/"}"}"', "echo ${@V@:-$'}'}", 'echo "${@V@:-$\'}\'}"'}
_MULTI = {"cat <<@D@ <<'OTHER'\nfirst }\n@D@\nsecond {\nOTHER"}
_CASE_COMSUB = {'echo "$(case $@V@ in a) echo "}" "{" ;; esac)"'}


def _group_inert(tpl):
    """No brace/paren outside plain quoted strings, no here-document: the crude group scanner cannot trip on it."""
    if "<<" in tpl and "<<<" not in tpl and "((" not in tpl and "let " not in tpl:
        return False
    t = re.sub(r"'[^'$`\\]*'", "", tpl)
    t = re.sub(r'"[^"$`\\]*"', "", t)
    return not any(c in t for c in "{}()")


def excluded(tpl, kind, sctx, excl):
    """Is fragment template `tpl` (kind S/H/C) in scanning context `sctx` covered by a mechanism in `excl`?"""
    if K_BRACE_WORD in excl and tpl in _BRACE_WORD:
        return K_BRACE_WORD
    if K_PARAM in excl and tpl in _PARAM:
        return K_PARAM
    if K_MULTI_HEREDOC in excl and tpl in _MULTI:
        return K_MULTI_HEREDOC
    if K_CASE_COMSUB in excl and tpl in _CASE_COMSUB:
        return K_CASE_COMSUB
    if K_GROUP in excl and sctx in ("group", "subsh") and (kind != "S" or not _group_inert(tpl)):
        return K_GROUP
    if K_COMSUB_ASSIGN in excl and sctx == "comsub" and re.match(r"^(@V@|arr)\+?=", tpl):
        return K_COMSUB_ASSIGN
    return None


def _body_ctx(w, sctx):
    if w.startswith("{") or "&& {" in w or "|| {" in w:
        return "group"
    if w.startswith("("):
        return "subsh"
    if w.startswith("@V@=$("):
        return "comsub"
    if "inner" in w and sctx not in ("group", "subsh"):
        return "top"
    return "top" if sctx == "comsub" else sctx


def fragment(rng, depth=0, excl=frozenset(), sctx="top"):
    """-> (source text, set of feature tags)"""
    for _ in range(200):
        r = rng.random()
        if depth < 2 and r < 0.22:
            w = rng.choice(WRAPPERS)
            bctx = _body_ctx(w, sctx)
            if K_GROUP in excl and sctx in ("group", "subsh") and ("inner" in w or "case" in w or "((" in w or "<(" in w
                                                                   or '"b }"' in w):
                continue
            if K_COMSUB_ASSIGN in excl and sctx == "comsub" and w.startswith("@V@="):
                continue
            if (K_GROUP in excl or K_CASE_COMSUB in excl) and sctx in ("group", "subsh") and w.startswith("@V@=$("):
                continue          # a case arm inside $( ) ends it early; inside a group the rest is then mis-scanned
            b1, t1 = body(rng, depth + 1, rng.randrange(1, 4), excl, bctx)
            tags = {"wrap", "ctx:" + bctx} | t1
            if "{B2}" in w:
                b2, t2 = body(rng, depth + 1, rng.randrange(1, 3), excl, bctx)
                tags |= t2
                w = w.replace("{B2}", b2)
            if "inner" in w:
                tags.add("nested-func")
            return _subst(rng, w.replace("{B}", b1)), tags
        if r < 0.40:
            kind, s = "H", rng.choice(HEREDOC)
        elif r < 0.50:
            kind, s = "C", rng.choice(CASES)
        else:
            kind, s = "S", rng.choice(SIMPLE)
        if excl and excluded(s, kind, sctx, excl):
            continue
        tags = set()
        if kind == "H":
            tags.add("heredoc")
        if kind == "C":
            tags.add("case")
        if "${" in s:
            tags.add("param")
        if "}" in s or "{" in s:
            tags.add("brace")
        if "#" in s:
            tags.add("pound")
        if "((" in s or "$[" in s or "let " in s:
            tags.add("arith")
        if "<<<" in s:
            tags.add("herestring")
        return _subst(rng, s), tags
    return ":", set()


def body(rng, depth, n, excl=frozenset(), sctx="top"):
    parts, tags = [], set()
    for _ in range(n):
        s, t = fragment(rng, depth, excl, sctx)
        parts.append(s)
        tags |= t
    return "\n".join(parts), tags


def gen_func(rng, name, nfrag=None, excl=frozenset()):
    if nfrag is None:
        nfrag = rng.choice([1, 1, 2, 2, 3, 4, 6])
    b, tags = body(rng, 0, nfrag, excl)
    style = rng.random()
    if style < 0.8:
        define = "%s () {\n%s\n}" % (name, b)
    elif style < 0.9:
        define = "function %s {\n%s\n}" % (name, b)
    else:
        define = "function %s () {\n%s\n}" % (name, b)
    return {"name": name, "define": define, "tags": sorted(tags), "body": b}


# ------------------------------------------------------------------------------------------------ patterns

def gen_patterns(rng, names, must_keep, whitelist, excl=frozenset()):
    """Pattern specs over `names`: list of (kind, text).  Names in `must_keep` are never removed by the list
    (blacklist: no pattern matches them; whitelist: their exact names are added)."""
    from ..ref import c34_oracle as ref

    names = sorted(set(names))
    specs = []
    if not names:
        return specs
    k = rng.randrange(1, max(2, min(6, len(names) + 1)))
    for _ in range(k):
        n = rng.choice(names)
        r = rng.random()
        if r < 0.55:
            specs.append(("exact", n))
        elif r < 0.70:
            specs.append(("prefix", n[: rng.randrange(1, len(n) + 1)]))
        elif r < 0.82:
            specs.append(("suffix", n[-rng.randrange(1, len(n) + 1):]))
        elif r < 0.90:
            specs.append(("class", "".join(sorted({n[0], rng.choice(names)[0]}))))
        elif r < 0.93:
            specs.append(("exact", n + rng.choice(["x", "_", "1"])))      # near miss: matches nothing (usually)
        elif r < 0.96:
            specs.append(("alt", sorted({n, rng.choice(names), n[:-1] or n})))   # alternation inside ONE pattern
        else:
            specs.append(("contains", n[len(n) // 2:][:2] or n))
    if rng.random() < 0.1:
        specs.append(("exact", ""))   # empty tokens are dropped by the command line parser's csv split
    if whitelist:
        specs.extend(("exact", n) for n in sorted(must_keep))
    else:
        specs = [s for s in specs if not any(ref.spec_matches(s, n) for n in must_keep)]
    if K_ALT in excl and len(ref.effective(specs)) == 1 and specs and any(sp[0] == "alt" for sp in specs):
        specs.append(("exact", "zz_never_" + names[0]))
    rng.shuffle(specs)
    return specs


# ------------------------------------------------------------------------------------------------ bash drivers

def run_bash(script_path, cwd, locale, timeout=300):
    """One bash process per BATCH (process creation dominates the cost on a loaded machine)."""
    env = {"PATH": "/nonexistent-c34", "LC_ALL": locale, "HOME": cwd}
    try:
        p = subprocess.run([BASH, "--norc", "--noprofile", script_path], env=env, cwd=cwd, stdin=subprocess.DEVNULL,
                           stdout=subprocess.PIPE, stderr=subprocess.PIPE, timeout=timeout)
    except subprocess.TimeoutExpired:
        return None, b"", b"timeout"
    return p.returncode, p.stdout, p.stderr


def definitions_text(variables, functions):
    return "\n".join([v["define"] for v in variables] + [f["define"] for f in functions]) + "\n"


def dump_script(marker, cases):
    """Script for the FIRST bash.  `cases` = [(idx, defs_path, variables, functions, want_posix_set)].
    Per case: source the definitions (a syntax error only loses that case), print the `set` listing (plain
    assignments), optionally the posix-mode `set` listing (multi-line single-quoted values), ${name@A} / declare -p
    per variable, declare -f per function, the whole variable state; then undefine everything again."""
    M = marker
    L = ["echo '%s STATE-V BASE'" % M, "declare -p", "echo '%s STATE-END BASE'" % M]
    for idx, path, variables, functions, pset in cases:
        L.append("echo '%s CASE %d'" % (M, idx))
        L.append("source '%s' 2>&1" % path)
        L.append("echo")
        L.append("echo '%s SET %d'" % (M, idx))
        L.append("set")
        if pset:
            L.append("echo '%s PSET %d'" % (M, idx))
            L.append("(set -o posix; set)")
        for v in variables:
            n = v["name"]
            L.append("echo '%s A %d %s'" % (M, idx, n))
            L.append('echo "${%s@A}"' % (n if v["kind"] == "scalar" else n + "[@]"))
            L.append("echo '%s P %d %s'" % (M, idx, n))
            L.append("declare -p %s" % n)
        for f in functions:
            L.append("echo '%s F %d %s'" % (M, idx, f["name"]))
            L.append("declare -f -- '%s'" % f["name"])
        L.append("echo '%s STATE-V ORIG%d'" % (M, idx))
        L.append("declare -p")
        L.append("echo '%s STATE-FL ORIG%d'" % (M, idx))
        L.append("declare -F")
        L.append("echo '%s STATE-END ORIG%d'" % (M, idx))
        if variables:
            L.append("unset -v " + " ".join(v["name"] for v in variables))
        for f in functions:
            L.append("unset -f -- '%s'" % f["name"])
        L.append("echo '%s CASE-END %d'" % (M, idx))
    L.append("echo '%s END'" % M)
    return "\n".join(L) + "\n"


_STATE = """echo '@M@ STATE-V @TAG@'
declare -p
echo '@M@ STATE-FL @TAG@'
declare -F
echo '@M@ STATE-F @TAG@'
declare -f
echo '@M@ STATE-END @TAG@'"""


def source_script(marker, jobs):
    """Script for the SECOND bash.  `jobs` = [(tag, path)]: every file is sourced in its own subshell, what the
    sourcing prints (stdout+stderr) is captured between markers, then the subshell's whole state is printed."""
    L = [_STATE.replace("@M@", marker).replace("@TAG@", "BASE")]
    for tag, path in jobs:
        L.append("(")
        L.append("echo '%s SRC %s'" % (marker, tag))
        L.append("source '%s' 2>&1" % path)
        L.append("echo")
        L.append("echo '%s SRC-END %s'" % (marker, tag))
        L.append(_STATE.replace("@M@", marker).replace("@TAG@", tag))
        L.append(")")
    L.append("echo '%s END'" % marker)
    return "\n".join(L) + "\n"


# ------------------------------------------------------------------------------------------------ probes
# One or more minimal definitions per recorded mechanism, exactly as bash 5.2 prints them (declare -f / set).
SENTINEL_V = {"type": "var", "name": "zz_sentinel", "text": "zz_sentinel=1\n", "passive": False}
SENTINEL_F = {"type": "func", "name": "zz_sentinel_f", "text": "zz_sentinel_f () \n{ \n    :\n}\n", "passive": False}


def _f(name, body):
    return {"type": "func", "name": name, "text": "%s () \n{ \n%s\n}\n" % (name, body), "passive": False}


def _v(name, rest):
    return {"type": "var", "name": name, "text": "%s=%s\n" % (name, rest), "passive": False}


PROBES = {
    K_BRACE_WORD: [_f("p1", "    echo {"), _f("p2", "    echo a && echo } || echo {")],
    K_PARAM: [_f("p3", '    echo "${x:-"}"}"'), _f("p4", "    echo ${x:-'}'}"), _f("p5", "    echo ${x:-`echo }`}")],
    K_MULTI_HEREDOC: [_f("p6", "    cat <<EOF <<'OTHER'\nfirst }\nEOF\nsecond {\nOTHER\n")],
    K_GROUP: [_f("p7", "    { \n        echo }\n    }"), _f("p8", "    { \n        cat <<EOF\n}\nEOF\n\n    }"),
              _f("p9", "    ( cat <<EOF\nit's (\nEOF\n )"), _f("p12", "    { \n        echo ${x//\\}/}\n    }")],
    K_COMSUB_ASSIGN: [_f("p10", "    x=$(y=1)"), _f("p11", '    x=$(y="}")')],
    K_UNICODE_BLANK: [_v("u2", "a\u00a0b"), _v("u3", "\u3000x"), _v("u1", "\u2028")],
    K_CASE_COMSUB: [_f("q1", '    echo "$(case $x in \n    a)\n        echo "}" "{"\n    ;;\nesac)"'),
                    _f("q6", "    { \n        x=$(case $y in \n    a)\n        :\n    ;;\nesac\ncat <<EOF\n}\nEOF\n)\n    }")],
}
# pattern-list probes: (chunks, vspecs, fspecs, vars_whitelist, funcs_whitelist)
_ALT_CHUNKS = [_v("bar", "3"), _v("barx", "4"), _v("foo", "1"), _v("foox", "2")]
PATTERN_PROBES = {
    K_ALT: [(_ALT_CHUNKS, [("alt", ["foo", "bar"])], [], False, False),
            (_ALT_CHUNKS, [("alt", ["foo", "bar"])], [], True, False)],
}


def probe_arrangements():
    """-> [(key, probe id, chunks, vspecs, fspecs, vwl, fwl)]: every probe kept in front of / behind dropped
    sentinels, and dropped in front of kept sentinels."""
    out = []
    sv, sf = SENTINEL_V, SENTINEL_F
    for key, probes in PROBES.items():
        for p in probes:
            drop_s = ([("exact", sv["name"])], [("exact", sf["name"])])
            out.append((key, p["name"] + ":kept-before-dropped", [p, sv, sf], drop_s[0], drop_s[1], False, False))
            out.append((key, p["name"] + ":kept-after-dropped", [sv, sf, p], drop_s[0], drop_s[1], False, False))
            mine = [("exact", p["name"])]
            if p["type"] == "func":
                out.append((key, p["name"] + ":dropped-before-kept", [p, sv, sf], [], mine, False, False))
            else:
                out.append((key, p["name"] + ":dropped-before-kept", [p, sv, sf], mine, [], False, False))
    for key, plist in PATTERN_PROBES.items():
        for i, (chunks, vs, fs, vwl, fwl) in enumerate(plist):
            out.append((key, "pat%d" % i, chunks, vs, fs, vwl, fwl))
    return out
