"""Structured resolver universes for C16: build cycles that can (or cannot) be escaped through an any-of
alternative, one atom referenced from two dependency classes, cycle members installed or not.

Roles (names of vt/gen/c15_problems.py): n0 = app (the target; never mentioned by a dependency),
n1 = lang, n2 = boot (needs lang: the cycle), n3 = boot-bin (the escape), n4 = lib.
Pure data, no pkgcore import.
"""

from . import c15_problems as gp

APP, LANG, BOOT, BOOTBIN, LIB = "n0", "n1", "n2", "n3", "n4"


def atom(name, op="", ver=None, slot=None, blk=""):
    return {"blk": blk, "op": op, "name": name, "ver": ver, "slot": slot}


def pkg(name, ver, deps=None, slot="0"):
    d = {c: [] for c in gp.DEP_CLASSES}
    for k, v in (deps or {}).items():
        d[k] = list(v)
    return {"name": name, "ver": ver, "slot": slot, "deps": d}


def gen_shape(rng):
    source, installed = [], []
    # --- lang: its build needs boot, or boot-bin as the way out of the cycle
    lang_cls = rng.choice(["DEPEND", "DEPEND", "BDEPEND", "RDEPEND"])
    form = rng.choice(["any-boot-first", "any-bin-first", "any-boot-first", "boot-only", "bin-only"])
    if form == "any-boot-first":
        clause = {"any": [atom(BOOT), atom(BOOTBIN)]}
    elif form == "any-bin-first":
        clause = {"any": [atom(BOOTBIN), atom(BOOT)]}
    elif form == "boot-only":
        clause = atom(BOOT)
    else:
        clause = atom(BOOTBIN)
    lang_vers = rng.choice([["1"], ["1"], ["1", "2"]])
    for v in lang_vers:
        deps = {lang_cls: [clause]}
        if len(lang_vers) == 2 and v == "2" and rng.random() < 0.5:
            deps = {lang_cls: [atom(BOOT)]}          # the newer lang has no way out
        source.append(pkg(LANG, v, deps))
    # --- boot closes the cycle
    boot_cls = rng.choice(["DEPEND", "DEPEND", "BDEPEND", "RDEPEND", "PDEPEND"])
    boot_atom = atom(LANG) if rng.random() < 0.7 else atom(LANG, ">=", "1")
    source.append(pkg(BOOT, "1", {boot_cls: [boot_atom]}))
    if rng.random() < 0.8:
        source.append(pkg(BOOTBIN, "1"))
    # --- lib: a second, independent reference to lang
    lib_in = rng.random() < 0.5
    if lib_in:
        ldeps = {}
        if rng.random() < 0.6:
            ldeps[rng.choice(["RDEPEND", "DEPEND", "IDEPEND"])] = [atom(LANG)]
        source.append(pkg(LIB, "1", ldeps))
    # --- app: the top version references lang from one or two classes
    app_vers = rng.choice([["1", "2"], ["1", "2"], ["1", "2", "3"]])
    for i, v in enumerate(app_vers):
        deps = {}
        top = i == len(app_vers) - 1
        if top or rng.random() < 0.3:
            classes = rng.sample(gp.DEP_CLASSES, rng.choice([1, 2, 2]))
            la = atom(LANG) if rng.random() < 0.7 else atom(LANG, ">=", lang_vers[-1] if rng.random() < 0.5 else "1")
            for c in classes:
                deps[c] = [la]
            if lib_in and rng.random() < 0.4:
                deps.setdefault(rng.choice(["RDEPEND", "DEPEND"]), []).append(atom(LIB))
        elif lib_in and rng.random() < 0.3:
            deps["RDEPEND"] = [atom(LIB)]
        source.append(pkg(APP, v, deps))
    rng.shuffle(source)
    # --- installed: cycle members / older app, each now and then
    by = {(s["name"], s["ver"]): s for s in source}
    for name, ver, p in ((BOOT, "1", 0.3), (LANG, "1", 0.25), (BOOTBIN, "1", 0.15), (APP, "1", 0.3), (LIB, "1", 0.2)):
        if (name, ver) in by and rng.random() < p:
            s = by[(name, ver)]
            keep_deps = rng.random() < 0.7
            installed.append(pkg(name, ver, s["deps"] if keep_deps else {}))
    t = atom(APP)
    if rng.random() < 0.2:
        t = atom(APP, ">=", "1")
    return {"source": source, "installed": installed, "targets": [t]}, APP, t
