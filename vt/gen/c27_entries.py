"""C27 generators: cache keys (cpv strings with category depth 0-2) and metadata entry specs."""

from ..ref import c27_cache_model as model

WORDS = ["dev-libs/foo", "virtual/libc", ">=sys-apps/bar-1.2_p3-r1:0/2=[ssl,-gtk]", "!!<x11-libs/qt-5", "||", "(", ")",
         "ssl?", "!gtk?", "amd64", "~x86", "-*", "GPL-2+", "MIT", "test", "mirror://gentoo/a-1.tar.gz", "->",
         "https://example.org/?a=1&b=2", "a=b", "==", "=", "KEY=value", "DEPEND=evil", "_mtime_=0", "_md5_=ff", "\\",
         "'q'", '"dq"', "$(x)", "${PV}", "#c", "100%", "é", "日本語", "☃", "\U0001f600", "a\tb", "x" * 40]
TRICKY = ["", "0", "=", "==x", "a=", "=a", "a  b", "a\tb", "\\n", "x=y=z", "# not a comment", "-", "'", "é=ü", "_eclasses_=a\tb",
          "DESCRIPTION=shadow", "a" * 300]
EDGE_WS = [" lead", "trail ", "\ttab-lead", "trail\t", " ", " ", "x "]
ECLASS_NAMES = ["eutils", "toolchain-funcs", "multilib", "python-r1", "git-r3", "flag-o-matic", "a", "x_y", "qt5-build",
                "kde.org", "Ünïcode", "e+", "cmake-utils", "_under", "9lives"]
ECLASS_DIRS = ["/var/db/repos/gentoo/eclass", "/usr/portage/eclass", "/r/eclass", "/repo with space/eclass", "/é/eclass",
               "/a=b/eclass", "/eclass", "/deep/er/and/deeper/eclass"]
MTIMES = [0, 1, 5, 999999999, 1000000000, 1155996352, 1700000000, 2147483647, 2147483648, 4294967296, 1 << 40]
MD5S = [0, 1, 0xAB, 0xD41D8CD98F00B204E9800998ECF8427E, 1 << 127, (1 << 128) - 1, 0x00000000FFFFFFFF0000000000000000,
        0x0123456789ABCDEF0123456789ABCDEF, 0x0F << 120]
NAME_CHARS = "abcdefghijklmnopqrstuvwxyzABCXYZ0123456789+_-"


def chf_value(rng, layout):
    if layout == "flat":
        return rng.choice(MTIMES) if rng.random() < 0.5 else rng.randrange(0, 1 << 33)
    return rng.choice(MD5S) if rng.random() < 0.5 else rng.getrandbits(rng.choice([8, 64, 120, 124, 128]))


def value(rng, allow_edge_ws=True):
    r = rng.random()
    if r < 0.12:
        return rng.choice(TRICKY)
    if allow_edge_ws and r < 0.16:
        return rng.choice(EDGE_WS)
    return " ".join(rng.choice(WORDS) for _ in range(rng.choice([0, 1, 1, 2, 3, 5, 8])))


def name_token(rng, lo=1, hi=8):
    s = rng.choice("abcdefghijklmnopqrstuvwxyzABC_0123456789")
    return s + "".join(rng.choice(NAME_CHARS) for _ in range(rng.randrange(lo - 1, hi)))


def cache_key(rng):
    """A cpv string with 0-2 category levels (PMS-ish names; never starting with '.' or '-')."""
    depth = rng.choice([0, 1, 1, 1, 1, 2])
    parts = [rng.choice(["dev-libs", "sys-apps", "virtual", "app-misc", "x11"]) if rng.random() < 0.6 else name_token(rng)
             for _ in range(depth)]
    ver = rng.choice(["1", "1.0", "2.4.2", "0_pre20200101", "1.0-r1", "3b", "1.0_p1-r3", "9999"])
    parts.append(name_token(rng).rstrip("-") + "-" + ver)
    return "/".join(parts)


def fresh_key(rng, existing):
    for _ in range(200):
        k = cache_key(rng)
        if not any(model.keys_conflict(k, e) for e in existing):
            return k
    raise RuntimeError("could not generate a non-conflicting key")


def eclasses(rng, layout):
    n = rng.choice([0, 1, 2, 2, 3, 4, 6])
    names = rng.sample(ECLASS_NAMES, n)
    d = {}
    for nm in names:
        path = rng.choice(ECLASS_DIRS) + "/" + nm + ".eclass"
        d[nm] = [path, chf_value(rng, layout)]
    return d


def small_spec(rng, layout, tiny=False):
    """A short entry for the crash enumeration (pkgcore writes entries character by character: one operation each)."""
    vals = {}
    for k in rng.sample(["EAPI", "SLOT", "IUSE", "DEPEND", "KEYWORDS"], 1 if tiny else rng.randrange(1, 3)):
        vals[k] = rng.choice(["8", "0", "a b", "x=y", "é", "", "~x86", "a/b"])
    ecl = None
    if rng.random() < (0.25 if tiny else 0.4):
        nm = rng.choice(["a", "git-r3", "e+"])
        ecl = {nm: ["/r/eclass/" + nm + ".eclass", rng.choice([5, 1700000000]) if layout == "flat" else rng.choice([0xAB, 1 << 127])]}
        vals["INHERIT"] = nm
    chf = rng.choice([0, 7, 1000] if layout == "flat" else [0, 0xAB, 1 << 127]) if tiny else chf_value(rng, layout)
    return {"values": vals, "eclasses": ecl, "chf": chf}


def entry_spec(rng, layout, keys=model.DEFAULT_KEYS, small=False, tiny=False):
    if small:
        return small_spec(rng, layout, tiny)
    pool = [k for k in keys if k != "_eclasses_"]
    vals = {}
    nk = rng.randrange(0, len(pool) + 1)
    for k in rng.sample(pool, min(nk, len(pool))):
        vals[k] = value(rng)
    # keys the cache does not know (must not come back); some look like known ones
    if rng.random() < 0.4:
        for k in rng.sample(["FOO", "depend", "DEPENDS", "X_EXTRA", "_md5", "_mtime", "EAPI ", "USE"], rng.randrange(1, 3)):
            vals[k] = value(rng, allow_edge_ws=False)
    ecl = None
    if rng.random() < 0.7:
        ecl = eclasses(rng, layout)
        if rng.random() < 0.8:
            vals.setdefault("INHERIT", " ".join(ecl))
    return {"values": vals, "eclasses": ecl, "chf": chf_value(rng, layout)}
