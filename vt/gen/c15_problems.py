"""Generator of small resolver problems for C15/C16 (pure data; no pkgcore import).

A problem is a JSON-able dict:

    {"source":    [pkgspec, ...],       # the ebuild repository
     "installed": [pkgspec, ...],       # the livefs repository (at most one package per name and slot)
     "targets":   [atomspec, ...]}

    pkgspec  = {"name": "n2", "ver": "2-r1", "slot": "0",
                "deps": {"DEPEND": [clause, ...], "BDEPEND": ..., "RDEPEND": ..., "IDEPEND": ..., "PDEPEND": ...}}
    clause   = atomspec | {"any": [alt, ...]}
    alt      = atomspec | {"all": [atomspec, ...]}
    atomspec = {"blk": "" | "!" | "!!", "op": "" | "=" | "~" | ">=" | ">" | "<=" | "<", "name": "n1",
                "ver": "2" | None, "slot": "0" | None}

Everything lives in category ``c``.  Strings handed to pkgcore are produced by render_*().
"""

CATEGORY = "c"
NAMES = ["n0", "n1", "n2", "n3", "n4"]
VERSIONS = ["1", "1-r1", "1.5", "2", "2-r2", "3", "10"]
SLOTS = ["0", "1"]
DEP_CLASSES = ["DEPEND", "BDEPEND", "RDEPEND", "IDEPEND", "PDEPEND"]
OPS = ["=", "~", ">=", ">", "<=", "<"]


def key(name):
    return CATEGORY + "/" + name


def cpvstr(spec):
    return "%s/%s-%s" % (CATEGORY, spec["name"], spec["ver"])


def render_atom(a):
    s = a.get("blk", "") + a.get("op", "") + key(a["name"])
    if a.get("op"):
        s += "-" + a["ver"]
    if a.get("slot") is not None:
        s += ":" + a["slot"]
    return s


def render_alt(alt):
    if "all" in alt:
        return "( " + " ".join(render_atom(x) for x in alt["all"]) + " )"
    return render_atom(alt)


def render_clause(c):
    if "any" in c:
        return "|| ( " + " ".join(render_alt(x) for x in c["any"]) + " )"
    return render_atom(c)


def render_deps(clauses):
    return " ".join(render_clause(c) for c in clauses)


def clause_atoms(c):
    if "any" in c:
        for alt in c["any"]:
            if "all" in alt:
                yield from alt["all"]
            else:
                yield alt
    else:
        yield c


def spec_atoms(spec):
    for cls in DEP_CLASSES:
        for c in spec["deps"].get(cls, ()):
            for a in clause_atoms(c):
                yield cls, a


# ----------------------------------------------------------------------------------------------

def gen_atom(rng, universe, blocker=False, plain_bias=0.5, owner=None):
    """universe: {name: [(ver, slot), ...]} of every package that exists anywhere in the problem.
    owner: name of the package the atom is written for (self references are kept rare: 1 in 25)."""
    name = rng.choice(NAMES)
    if name == owner:
        name = rng.choice(NAMES)
    a = {"blk": "", "op": "", "name": name, "ver": None, "slot": None}
    if blocker:
        a["blk"] = rng.choice(["!", "!", "!!"])
    known = universe.get(name) or []
    if rng.random() > plain_bias:
        op = rng.choice(OPS)
        if known and rng.random() < 0.85:
            ver = rng.choice(known)[0]
        else:
            ver = rng.choice(VERSIONS)
        if op == "~":
            ver = ver.split("-r")[0]
        a["op"], a["ver"] = op, ver
    if rng.random() < 0.2:
        if known and rng.random() < 0.8:
            a["slot"] = rng.choice(known)[1]
        else:
            a["slot"] = rng.choice(SLOTS)
    return a


def gen_clause(rng, universe, blocker_rate, owner=None):
    r = rng.random()
    if r < blocker_rate:
        return gen_atom(rng, universe, blocker=True, plain_bias=0.45, owner=owner)
    if r < blocker_rate + 0.25:
        alts = []
        for _ in range(rng.choice([2, 2, 3])):
            if rng.random() < 0.2:
                alts.append({"all": [gen_atom(rng, universe, owner=owner) for _ in range(2)]})
            else:
                alts.append(gen_atom(rng, universe, owner=owner))
        return {"any": alts}
    return gen_atom(rng, universe, owner=owner)


def gen_deps(rng, universe, density, blocker_rate, owner=None):
    deps = {}
    for cls in DEP_CLASSES:
        p = density if cls in ("DEPEND", "RDEPEND") else density * 0.6
        if rng.random() < p:
            deps[cls] = [gen_clause(rng, universe, blocker_rate, owner) for _ in range(rng.choice([1, 1, 1, 2, 2, 3]))]
        else:
            deps[cls] = []
    return deps


def gen_problem(rng, max_pkgs=12):
    # which (name, ver) exist, and the slot of each
    universe = {}
    pool = []
    nnames = rng.choice([2, 3, 3, 4, 5, 5])
    names = rng.sample(NAMES, nnames)
    for name in names:
        vers = rng.sample(VERSIONS, rng.choice([1, 2, 2, 3, 3]))
        multi_slot = rng.random() < 0.35
        for v in vers:
            slot = rng.choice(SLOTS) if multi_slot else "0"
            universe.setdefault(name, []).append((v, slot))
            pool.append((name, v, slot))
    rng.shuffle(pool)
    density = rng.choice([0.15, 0.3, 0.3, 0.45, 0.6])
    blocker_rate = rng.choice([0.0, 0.1, 0.1, 0.2, 0.3])
    source, installed = [], []
    used_slots = set()
    for name, v, slot in pool:
        where = rng.random()
        in_src = where < 0.8
        in_vdb = where > 0.65 or rng.random() < 0.1
        if in_vdb and (name, slot) in used_slots:
            in_vdb = False
            in_src = True
        if in_src and len(source) < max_pkgs:
            source.append({"name": name, "ver": v, "slot": slot,
                           "deps": gen_deps(rng, universe, density, blocker_rate, name)})
        if in_vdb:
            used_slots.add((name, slot))
            if in_src and source and source[-1]["name"] == name and source[-1]["ver"] == v and rng.random() < 0.7:
                deps = {k: list(x) for k, x in source[-1]["deps"].items()}
                # an installed package has no build-time classes left to satisfy in practice, but the
                # vdb records them; keep them
            else:
                deps = gen_deps(rng, universe, density * 0.7, blocker_rate * 0.5, name)
            installed.append({"name": name, "ver": v, "slot": slot, "deps": deps})
    if not source:
        name, v, slot = pool[0]
        source.append({"name": name, "ver": v, "slot": slot, "deps": gen_deps(rng, universe, density, blocker_rate, name)})
    # targets: mostly names that exist in the source repository
    targets = []
    for _ in range(rng.choice([1, 1, 2, 2, 3])):
        spec = rng.choice(source + installed) if rng.random() < 0.9 else None
        if spec is None:
            t = gen_atom(rng, universe)
        else:
            t = {"blk": "", "op": "", "name": spec["name"], "ver": None, "slot": None}
            r = rng.random()
            if r < 0.3:
                t["op"] = rng.choice(OPS)
                t["ver"] = spec["ver"].split("-r")[0] if t["op"] == "~" else spec["ver"]
            elif r < 0.4:
                t["slot"] = spec["slot"]
        if t not in targets:
            targets.append(t)
    return {"source": source, "installed": installed, "targets": targets}


def _a(name, blk="", op="", ver=None, slot=None):
    return {"blk": blk, "op": op, "name": name, "ver": ver, "slot": slot}


def gen_multislot_blocker_problem(rng):
    """Directed family (kept random in every free choice): a package installed in two or three slots at once, newer
    versions of it in the repository, and a target that both depends on one slot of it and carries a blocker
    with a version bound that matches installed members of several slots.  The blocker is reached when one of the
    installed matches is already part of the plan, which is where the resolver has to look at the others."""
    names = rng.sample(NAMES, 4)
    lib, tgt, mid, extra = names
    slots = ["0", "1", "2"][:rng.choice([2, 2, 3])]
    # strictly increasing versions, partitioned over the slots: each slot gets an installed version and maybe
    # a newer one in the repository
    ladder = ["1", "1-r1", "1.5", "2", "2-r2", "3", "10"]
    installed, source = [], []
    picks = sorted(rng.sample(range(len(ladder) - 1), len(slots)))
    rng.shuffle(slots)
    inst_by_slot = {}
    for slot, i in zip(slots, picks):
        inst_by_slot[slot] = ladder[i]
        installed.append({"name": lib, "ver": ladder[i], "slot": slot, "deps": {}})
        if rng.random() < 0.6:
            source.append({"name": lib, "ver": ladder[i], "slot": slot, "deps": {}})
    top = ladder[max(picks) + 1:]
    for slot in slots:
        if rng.random() < 0.75 and top:
            v = rng.choice(top)
            if not any(s["ver"] == v for s in source):
                source.append({"name": lib, "ver": v, "slot": slot, "deps": {}})
    dep_slot = rng.choice(slots)
    bound = rng.choice(ladder[min(picks) + 1:])
    blk = _a(lib, blk=rng.choice(["!", "!", "!!"]), op=rng.choice(["<", "<", "<="]), ver=bound)
    if rng.random() < 0.2:
        blk = _a(lib, blk=rng.choice(["!", "!!"]), slot=rng.choice(slots))
    dep = _a(lib, slot=dep_slot) if rng.random() < 0.8 else _a(lib, op=">=", ver=inst_by_slot[dep_slot], slot=dep_slot)
    deps = {}
    deps.setdefault(rng.choice(DEP_CLASSES[:3]), []).append(dep)
    bcls = rng.choice(DEP_CLASSES)
    carrier = tgt
    if rng.random() < 0.3:
        # the blocker sits one level down, on a package the target pulls in afterwards
        carrier = mid
        deps.setdefault(rng.choice(["RDEPEND", "PDEPEND"]), []).append(_a(mid))
        source.append({"name": mid, "ver": "1", "slot": "0", "deps": {bcls: [blk]}})
    else:
        deps.setdefault(bcls, []).append(blk)
    source.append({"name": tgt, "ver": rng.choice(["1", "2"]), "slot": "0", "deps": deps})
    if rng.random() < 0.3:
        installed.append({"name": extra, "ver": "1", "slot": "0", "deps": {"RDEPEND": [_a(lib, slot=rng.choice(slots))]}})
        source.append({"name": extra, "ver": "1", "slot": "0", "deps": {"RDEPEND": [_a(lib, slot=rng.choice(slots))]}})
    rng.shuffle(source)
    targets = [_a(tgt)]
    if rng.random() < 0.25:
        targets.insert(0, _a(lib, slot=dep_slot))
    return {"source": source, "installed": installed, "targets": targets}


def describe(problem):
    """Compact human-readable rendering for evidence samples."""
    def pk(s):
        d = {k: render_deps(v) for k, v in s["deps"].items() if v}
        return "%s:%s %s" % (cpvstr(s), s["slot"], d)
    return {"source": [pk(s) for s in problem["source"]],
            "installed": [pk(s) for s in problem["installed"]],
            "targets": [render_atom(t) for t in problem["targets"]]}


# ---------------------------------------------------------------------------------------------- shrinking

def _copy(problem):
    import json

    return json.loads(json.dumps(problem))


def _candidates(problem):
    """Yield smaller variants of the problem (one deletion / simplification each)."""
    if len(problem["targets"]) > 1:
        for i in range(len(problem["targets"])):
            q = _copy(problem)
            del q["targets"][i]
            yield q
    for side in ("installed", "source"):
        for i in range(len(problem[side])):
            q = _copy(problem)
            del q[side][i]
            yield q
    for side in ("installed", "source"):
        for i, s in enumerate(problem[side]):
            if any(s["deps"].get(cls) for cls in DEP_CLASSES):
                q = _copy(problem)
                q[side][i]["deps"] = {cls: [] for cls in DEP_CLASSES}
                yield q
            for cls in DEP_CLASSES:
                cl = s["deps"].get(cls) or []
                if len(cl) > 1:
                    q = _copy(problem)
                    q[side][i]["deps"][cls] = []
                    yield q
                for j, c in enumerate(cl):
                    q = _copy(problem)
                    del q[side][i]["deps"][cls][j]
                    yield q
                    if "any" in c:
                        for k, alt in enumerate(c["any"]):
                            q = _copy(problem)
                            if "all" in alt:
                                # the alternative alone, flattened into the clause list
                                q[side][i]["deps"][cls][j:j + 1] = alt["all"]
                            else:
                                q[side][i]["deps"][cls][j] = alt
                            yield q
                            if len(c["any"]) > 1:
                                q = _copy(problem)
                                del q[side][i]["deps"][cls][j]["any"][k]
                                yield q
    # atom simplification
    def atoms_of(q):
        for t in q["targets"]:
            yield t
        for side in ("installed", "source"):
            for s in q[side]:
                for _cls, a in spec_atoms(s):
                    yield a
    n = sum(1 for _ in atoms_of(problem))
    for idx in range(n):
        for what in ("slot", "op", "blk"):
            q = _copy(problem)
            a = list(atoms_of(q))[idx]
            if what == "slot" and a.get("slot") is not None:
                a["slot"] = None
            elif what == "op" and a.get("op"):
                a["op"], a["ver"] = "", None
            elif what == "blk" and a.get("blk") == "!!":
                a["blk"] = "!"
            else:
                continue
            yield q
    # all slots "0" -> nothing to do; try moving a package to slot 0
    for side in ("installed", "source"):
        for i, s in enumerate(problem[side]):
            if s["slot"] != "0":
                q = _copy(problem)
                q[side][i]["slot"] = "0"
                if side == "installed" and sum(1 for x in q[side] if x["name"] == s["name"] and x["slot"] == "0") > 1:
                    continue
                yield q


def size(problem):
    n = len(problem["targets"]) * 2
    for side in ("installed", "source"):
        for s in problem[side]:
            n += 5 + (s["slot"] != "0")
            for _cls, a in spec_atoms(s):
                n += 3 + bool(a.get("slot")) + bool(a.get("op")) + bool(a.get("blk"))
            for cls in DEP_CLASSES:
                for c in s["deps"].get(cls, ()):
                    if "any" in c:
                        n += 2 + sum(1 for alt in c["any"] if "all" in alt)
    return n


def shrink(problem, still_fails, max_tests=400):
    """Greedy deletion (delta debugging light): keep any smaller variant for which still_fails() holds."""
    tests = 0
    cur = problem
    progress = True
    while progress and tests < max_tests:
        progress = False
        for q in _candidates(cur):
            if size(q) >= size(cur):
                continue
            tests += 1
            if tests > max_tests:
                break
            ok = False
            try:
                ok = still_fails(q)
            except Exception:
                ok = False
            if ok:
                cur = q
                progress = True
                break
    return cur
