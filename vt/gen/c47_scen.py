"""C47 workload generator: repository tree specs, tarballs built with Python's tarfile (independent of the
external `tar` the syncer uses), damaged variants, and sync scenarios.

A tree spec is JSON:  {"top": "repo-2", "entries": {relpath: entry}}  with entry one of
    {"t": "d", "mode": 0o755}
    {"t": "f", "mode": 0o644, "text": "..."}            literal content
    {"t": "f", "mode": 0o644, "rand": [seed, size]}     random.Random(seed).randbytes(size)  (incompressible filler)
    {"t": "l", "target": "..."}                         symlink
    {"t": "h", "to": relpath}                           hard link to an earlier regular file of the same archive
Archive order does not depend on the dict order (a witness may come back from JSON with sorted keys): paths sorted
(a directory sorts before its content), hard links after everything else.
"""

import bz2
import gzip
import io
import lzma
import os
import random
import tarfile

COMPRESSIONS = ("gz", "bz2", "xz")


def ordered(tree):
    ent = tree["entries"]
    return [(r, ent[r]) for r in sorted(ent) if ent[r]["t"] != "h"] + [(r, ent[r]) for r in sorted(ent) if ent[r]["t"] == "h"]


def content(e):
    if "text" in e:
        return e["text"].encode("utf-8")
    seed, size = e["rand"]
    return random.Random(seed).randbytes(size)


def build_tar(tree):
    """Uncompressed tar bytes of a tree spec: one top-level directory, GNU format, foreign uid/gid."""
    buf = io.BytesIO()
    top = tree["top"]
    with tarfile.open(fileobj=buf, mode="w", format=tarfile.GNU_FORMAT) as t:
        def info(rel):
            ti = tarfile.TarInfo(top + ("/" + rel if rel else ""))
            ti.uid, ti.gid, ti.uname, ti.gname = 12345, 12345, "nobodyhere", "nobodyhere"
            ti.mtime = 1_500_000_000
            return ti

        ti = info("")
        ti.type, ti.mode = tarfile.DIRTYPE, 0o755
        t.addfile(ti)
        for rel, e in ordered(tree):
            ti = info(rel)
            if e["t"] == "d":
                ti.type, ti.mode = tarfile.DIRTYPE, e["mode"]
                t.addfile(ti)
            elif e["t"] == "l":
                ti.type, ti.linkname, ti.mode = tarfile.SYMTYPE, e["target"], 0o777
                t.addfile(ti)
            elif e["t"] == "h":
                ti.type, ti.linkname = tarfile.LNKTYPE, top + "/" + e["to"]
                ti.mode = tree["entries"][e["to"]]["mode"]
                t.addfile(ti)
            else:
                data = content(e)
                ti.size, ti.mode = len(data), e["mode"]
                t.addfile(ti, io.BytesIO(data))
    return buf.getvalue()


def compress(data, comp):
    if comp == "gz":
        return gzip.compress(data, mtime=0)
    if comp == "bz2":
        return bz2.compress(data)
    if comp == "xz":
        return lzma.compress(data, format=lzma.FORMAT_XZ)
    raise ValueError(comp)


def damage(blob, how):
    """Damaged variants of a compressed tarball.  Every one of them is detectable by the decompressor/tar:
    the compressed stream itself is cut or altered (a tar stream cut at a member boundary and then compressed
    cleanly is indistinguishable from a smaller archive and is not generated)."""
    if how is None:
        return blob
    if how == "truncated":  # the compressed stream stops half way
        return blob[: max(20, len(blob) // 2)]
    if how == "truncated-tail":  # only the last bytes (checksum / end-of-stream) are missing
        return blob[:-6]
    if how == "corrupt":  # bytes in the middle of the compressed stream are overwritten
        mid = len(blob) // 2
        return blob[:mid] + bytes((b ^ 0x5A) for b in blob[mid:mid + 24]) + blob[mid + 24:]
    if how == "html":  # an error page delivered with status 200
        return b"<html><head><title>Maintenance</title></head><body>come back later</body></html>\n"
    if how == "empty":
        return b""
    raise ValueError(how)


def blob_for(tree, comp, how=None):
    return damage(compress(build_tar(tree), comp), how)


def materialise(tree, root):
    """Write a tree spec to disk (used for 'an old tree that was not produced by a sync')."""
    os.makedirs(root, exist_ok=True)
    for rel, e in ordered(tree):
        p = os.path.join(root, rel)
        if e["t"] == "d":
            os.makedirs(p, exist_ok=True)
            os.chmod(p, e["mode"])
        elif e["t"] == "l":
            os.symlink(e["target"], p)
        elif e["t"] == "h":
            os.link(os.path.join(root, e["to"]), p)
        else:
            with open(p, "wb") as f:
                f.write(content(e))
            os.chmod(p, e["mode"])


# ---------------------------------------------------------------------------------------------------------------
# trees

def base_tree(ver, filler=0, seed=0):
    """A small ebuild-repository shaped tree; `filler` bytes of incompressible data control the tarball size
    (the syncer writes the download in max(4096, length // 100) byte blocks: one numbered write per block)."""
    ent = {}
    ent["profiles"] = {"t": "d", "mode": 0o755}
    ent["profiles/repo_name"] = {"t": "f", "mode": 0o644, "text": "c47-test\n"}
    ent["profiles/categories"] = {"t": "f", "mode": 0o644, "text": "app-misc\ndev-libs\n"}
    ent["metadata"] = {"t": "d", "mode": 0o755}
    ent["metadata/layout.conf"] = {"t": "f", "mode": 0o644, "text": "masters =\nthin-manifests = true\n# generation %s\n" % ver}
    ent["metadata/timestamp.chk"] = {"t": "f", "mode": 0o644, "text": "generation %s\n" % ver}
    ent["app-misc"] = {"t": "d", "mode": 0o755}
    ent["app-misc/foo"] = {"t": "d", "mode": 0o755}
    ent["app-misc/foo/foo-%s.ebuild" % ver] = {"t": "f", "mode": 0o644, "text": 'EAPI=8\nSLOT="0"\nDESCRIPTION="foo %s"\n' % ver}
    ent["app-misc/foo/Manifest"] = {"t": "f", "mode": 0o644, "text": "DIST foo-%s.tar.gz 10 BLAKE2B 00\n" % ver}
    ent["scripts"] = {"t": "d", "mode": 0o755}
    ent["scripts/bootstrap.sh"] = {"t": "f", "mode": 0o755, "text": "#!/bin/sh\necho %s\n" % ver}
    ent["current"] = {"t": "l", "target": "app-misc/foo/foo-%s.ebuild" % ver}
    if filler:
        ent["metadata/filler.bin"] = {"t": "f", "mode": 0o644, "rand": [seed * 7919 + len(ver) + filler, filler]}
    return {"top": "repo-%s" % ver, "entries": ent}


def evolve(tree, ver, rng, hostile=False):
    """The next generation of a tree: some paths unchanged, some rewritten, some removed, some added, one path
    changes its type -- so that any mixture of two generations is distinguishable from both."""
    ent = {}
    old = tree["entries"]
    removed_dirs = []
    for rel, e in old.items():
        if any(rel.startswith(d + "/") for d in removed_dirs):
            continue
        e = dict(e)
        if e["t"] == "f" and "text" in e and "generation" in e["text"]:
            e["text"] = e["text"].rsplit("generation", 1)[0] + "generation %s\n" % ver
        elif rel.endswith(".ebuild") or rel == "current" or rel.endswith("/Manifest"):
            continue  # replaced below
        elif rel == "scripts/bootstrap.sh":
            e = {"t": "d", "mode": 0o755}  # file -> directory
        elif rel == "scripts/bootstrap.sh/run":
            continue
        elif e["t"] == "f" and "rand" in e:
            e["rand"] = [e["rand"][0] + 1, e["rand"][1]]
        elif rel.startswith("extra-") and rng.random() < 0.5:
            if e["t"] == "d":
                removed_dirs.append(rel)
            continue
        ent[rel] = e
    if old.get("scripts/bootstrap.sh", {}).get("t") == "f":
        ent["scripts/bootstrap.sh/run"] = {"t": "f", "mode": 0o755, "text": "#!/bin/sh\necho %s\n" % ver}
    elif "scripts/bootstrap.sh" in ent:
        ent.pop("scripts/bootstrap.sh/run", None)
        ent["scripts/bootstrap.sh"] = {"t": "f", "mode": 0o755, "text": "#!/bin/sh\necho %s\n" % ver}
    ent["app-misc/foo/foo-%s.ebuild" % ver] = {"t": "f", "mode": 0o644, "text": 'EAPI=8\nSLOT="0"\nDESCRIPTION="foo %s"\n' % ver}
    ent["app-misc/foo/Manifest"] = {"t": "f", "mode": 0o644, "text": "DIST foo-%s.tar.gz 10 BLAKE2B 00\n" % ver}
    ent["current"] = {"t": "l", "target": "app-misc/foo/foo-%s.ebuild" % ver}
    n = "extra-%s" % ver
    ent[n] = {"t": "d", "mode": 0o755}
    ent[n + "/news.txt"] = {"t": "f", "mode": 0o644, "text": "news of %s\n" % ver}
    if hostile:
        ent[n + "/empty-dir"] = {"t": "d", "mode": 0o755}
        ent[n + "/name with spaces"] = {"t": "f", "mode": 0o644, "text": "spaces %s\n" % ver}
        ent[n + "/café-ü.txt"] = {"t": "f", "mode": 0o644, "text": "unicode %s\n" % ver}
        ent[n + "/dangling"] = {"t": "l", "target": "../no/such/target-%s" % ver}
        ent[n + "/dirlink"] = {"t": "l", "target": "../profiles"}
        ent[n + "/hard"] = {"t": "h", "to": n + "/news.txt"}
        ent[n + "/-dash"] = {"t": "f", "mode": 0o644, "text": "dash\n"}
        ent[n + "/empty-file"] = {"t": "f", "mode": 0o644, "text": ""}
        ent[n + "/deep"] = {"t": "d", "mode": 0o755}
        ent[n + "/deep/er"] = {"t": "d", "mode": 0o755}
        ent[n + "/deep/er/still"] = {"t": "f", "mode": 0o644, "text": "%d\n" % rng.randrange(10 ** 9)}
    # keep directories before their content; a hard link whose target went away becomes a plain file
    fixed = {}
    for rel in ent:
        parts = rel.split("/")
        for i in range(1, len(parts)):
            d = "/".join(parts[:i])
            if d not in fixed:
                fixed[d] = ent.get(d, {"t": "d", "mode": 0o755})
        e = ent[rel]
        if e["t"] == "h" and fixed.get(e["to"], {}).get("t") != "f":
            e = {"t": "f", "mode": 0o644, "text": "was a hard link\n"}
        fixed[rel] = e
    return {"top": "repo-%s" % ver, "entries": fixed}


def tiny_tree(ver, filler=0):
    """Minimal trees for the fixed scenarios (few entries => few cleanup operations => few crash points); consecutive
    generations share one unchanged file, rewrite one, drop one, add one, retarget the link and flip one type."""
    v = int(ver)
    ent = {}
    ent["README"] = {"t": "f", "mode": 0o644, "text": "generation %s\n" % ver}
    ent["d"] = {"t": "d", "mode": 0o755}
    ent["d/keep"] = {"t": "f", "mode": 0o644, "text": "never changes\n"}
    ent["d/only-%s" % ver] = {"t": "f", "mode": 0o755, "text": "#!/bin/sh\necho %s\n" % ver}
    ent["ln"] = {"t": "l", "target": "d/only-%s" % ver}
    if v % 2:
        ent["flip"] = {"t": "f", "mode": 0o644, "text": "a file in odd generations\n"}
    else:
        ent["flip"] = {"t": "d", "mode": 0o755}
    if filler:
        ent["d/filler"] = {"t": "f", "mode": 0o644, "rand": [1000 + v, filler]}
    return {"top": "tiny-%s" % ver, "entries": ent}


def generations(rng, hostile=False, filler=0, seed=0):
    g1 = base_tree("1", filler=filler, seed=seed)
    g2 = evolve(g1, "2", rng, hostile=hostile)
    g3 = evolve(g2, "3", rng, hostile=hostile)
    return g1, g2, g3


# ---------------------------------------------------------------------------------------------------------------
# scenarios
#
# {"name":, "comp":, "old": tree|None, "old_via": "sync"|"plain", "new": tree, "later": tree,
#  "serve": {"behaviour": "ok"|"ignore-cond"|"nolen"|"404"|"500"|"short"|"304", "damage": None|..., "lastmod": bool,
#            "same_etag": bool}}
#
# old_via "sync": the previous tree is installed by a real (un-injected) sync of the old tarball, so it carries the
# syncer's own .etag/.modified; "plain": the previous tree was put there by other means (no .etag).

def crash_scenarios(rng, n, seed=0):
    """Scenarios whose every operation is enumerated as a crash point.  The first three are fixed shapes (update over
    an existing tree; first sync into a missing directory; update whose unpack fails); further ones are drawn."""
    out = []
    out.append({"name": "update-gz", "comp": "gz", "old": tiny_tree("1"), "old_via": "sync", "new": tiny_tree("2", filler=5000),
                "later": tiny_tree("3"), "serve": {"behaviour": "ok", "damage": None, "lastmod": False}})
    h1, h2, h3 = generations(random.Random(2), hostile=True)
    out.append({"name": "initial-xz", "comp": "xz", "old": None, "old_via": None, "new": h2, "later": h3,
                "serve": {"behaviour": "ok", "damage": None, "lastmod": True}})
    out.append({"name": "update-corrupt-bz2", "comp": "bz2", "old": tiny_tree("1"), "old_via": "plain", "new": tiny_tree("2", filler=3000),
                "later": tiny_tree("3"), "serve": {"behaviour": "ok", "damage": "corrupt", "lastmod": False}})
    k = 0
    while len(out) < n:
        k += 1
        hostile = rng.random() < 0.6
        a, b, c = generations(rng, hostile=hostile, filler=rng.choice([0, 0, 3000, 9000]), seed=seed * 100 + k)
        comp = rng.choice(COMPRESSIONS)
        shape = rng.choice(["update", "update", "update", "initial", "update-fails"])
        serve = {"behaviour": rng.choice(["ok", "ok", "ignore-cond", "nolen"]), "damage": None,
                 "lastmod": rng.random() < 0.5}
        sc = {"name": "rnd%d-%s-%s" % (k, shape, comp), "comp": comp, "old": a, "old_via": rng.choice(["sync", "sync", "plain"]),
              "new": b, "later": c, "serve": serve}
        if shape == "initial":
            sc["old"], sc["old_via"] = None, None
        elif shape == "update-fails":
            serve["damage"] = rng.choice(["truncated", "corrupt", "html", "truncated-tail"])
        out.append(sc)
    return out


FAILURES = [
    # (name, behaviour, damage)
    ("http-404", "404", None),
    ("http-500", "500", None),
    ("truncated-blob", "ok", "truncated"),
    ("corrupt-blob", "ok", "corrupt"),
    ("html-page", "ok", "html"),
    ("empty-body", "ok", "empty"),
    ("short-body", "short", None),           # Content-Length of the full tarball, connection closed half way
    ("truncated-tail", "ok", "truncated-tail"),
    ("not-modified-304", "304", None),       # server honours If-None-Match
    ("same-etag-200", "same-etag", None),    # server ignores the conditional headers but sends the cached ETag
    ("short-body-nolen", "short-nolen", None),
]


def failure_scenarios(rng, n, seed=0):
    """Syncs that must not change the previous tree (no crash): failed download, failed unpack, nothing new."""
    out = []
    i = 0
    while len(out) < n:
        name, behaviour, dmg = FAILURES[i % len(FAILURES)]
        rnd = i >= len(FAILURES)
        r = rng if rnd else random.Random(100 + i)
        a, b, c = generations(r, hostile=(i % 2 == 1), filler=(5000 if i % 3 == 0 else 0), seed=seed * 100 + i)
        comp = COMPRESSIONS[i % 3] if not rnd else r.choice(COMPRESSIONS)
        initial = rnd and r.random() < 0.25 and behaviour not in ("304", "same-etag")
        out.append({"name": "fail%d-%s-%s" % (i, name, comp), "comp": comp, "old": None if initial else a,
                    "old_via": None if initial else ("sync" if behaviour in ("304", "same-etag") or i % 4 == 0 else "plain"),
                    "new": b, "later": c,
                    "serve": {"behaviour": behaviour, "damage": dmg, "lastmod": i % 4 == 1}})
        i += 1
    return out
