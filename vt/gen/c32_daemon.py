"""Real-daemon scripts for C32: helper requests issued by the real bash side.

A generated `src_install` body calls install helpers (the helper scripts under data/lib/pkgcore/ebd/helpers, through
`__ebd_ipc_cmd` / `__ebd_read_array` / `__ipc_exit` of ebuild-daemon-lib.bash) inside a real ebuild daemon; the python side
is `pkgcore.ebuild.ebd.run_generic_phase` with the real helper objects of `ebd_ipc` (only the `op` they hang off is the
stub of c32_harness).  After every helper call the script appends `<step>:<exit status>` to ${T}/marks, so the status each
request was answered with is observed *where bash received it*.

Run as a child process (`python -m vt.gen.c32_daemon <scenario.json> <result.json>`): a desynchronised channel can block
both sides for good, the parent kills the process group after a generous wall-clock limit (inconclusive, never a verdict).
"""

import json
import os
import sys

EAPIS = ("5", "6", "7", "8")
PROBE_SLOTS = {"5": "s5", "6": "s6", "7": "s7", "8": "s8"}


def pf(eapi):
    return "helpers-%s" % eapi


# step table: name -> (bash text, expectation, entries)  entries: [(path under image, type, detail)]
def step(kind, n, fk, dk):
    """-> dict(cmd=<bash>, ok=<bool>, entries=[...]) for step `kind` with fresh names derived from n."""
    f = "f%d" % fk
    d = "d%d" % dk
    if kind == "dodir":
        return dict(cmd="dodir /usr/share/vt%d" % n, ok=True, entries=[("usr/share/vt%d" % n, "dir", None)])
    if kind == "doins":
        return dict(pre="insinto /opt/vt%d" % n, cmd="doins %s" % f, ok=True, entries=[("opt/vt%d/%s" % (n, f), "file", f)])
    if kind == "doins-two":
        return dict(pre="insinto /opt/vt%d" % n, cmd="doins %s f0" % f, ok=True,
                    entries=[("opt/vt%d/%s" % (n, f), "file", f), ("opt/vt%d/f0" % n, "file", "f0")])
    if kind == "doins-missing":
        return dict(cmd="doins missing%d" % n, ok=False, entries=[])
    if kind == "doins-missing-odd-name":
        # (a newline inside an argument cannot be framed by the line-based request at all: not generated, see DESIGN)
        return dict(cmd="doins 'no such*file%d \\\\ \\t $x'" % n, ok=False, entries=[])
    if kind == "doins-dir":
        return dict(cmd="doins %s" % d, ok=False, entries=[])
    if kind == "doins-r":
        return dict(pre="insinto /opt/vr%d" % n, cmd="doins -r %s" % d, ok=True,
                    entries=[("opt/vr%d/%s" % (n, d), "dir", None), ("opt/vr%d/%s/in" % (n, d), "file", d + "/in")])
    if kind == "dosym":
        return dict(cmd="dosym /a/b%d /usr/lnk%d" % (n, n), ok=True, entries=[("usr/lnk%d" % n, "link", "/a/b%d" % n)])
    if kind == "dosym-one-arg":
        return dict(cmd="dosym onlyone%d" % n, ok=False, entries=[])
    if kind == "dobin":
        return dict(cmd="dobin %s" % f, ok=True, entries=[("usr/bin/%s" % f, "file", f)])
    if kind == "dobin-missing":
        return dict(cmd="dobin nobin%d" % n, ok=False, entries=[])
    if kind == "dodoc":
        return dict(cmd="dodoc %s" % f, ok=True, entries=[("usr/share/doc/@PF@/%s" % f, "file", f)])
    if kind == "doman":
        return dict(cmd="doman page%d.1" % fk, ok=True, entries=[("usr/share/man/man1/page%d.1" % fk, "file", "page%d.1" % fk)])
    if kind == "doman-nosection":
        return dict(cmd="doman %s" % f, ok=False, entries=[])
    if kind == "keepdir":
        return dict(cmd="keepdir /var/keep%d" % n, ok=True, entries=[("var/keep%d" % n, "dir", None)])
    if kind == "unpack-missing":
        # a command the ebuild sends itself (no helper script in between): the failure path is __ipc_exit's own
        return dict(cmd="unpack nosuch%d.tar" % n, ok=False, entries=[])
    if kind == "unpack-bad-path":
        return dict(cmd="unpack sub/dir%d/x.tar" % n, ok=False, entries=[])
    if kind == "docompress":
        return dict(cmd="docompress /usr/share/vt%d" % n, ok=True, entries=[])
    if kind == "has_version-absent":
        return dict(cmd="has_version cat/nothing%d" % n, ok=None, rc=1, entries=[])
    if kind == "has_version-present":
        return dict(cmd="has_version app-misc/present", ok=None, rc=0, entries=[])
    raise KeyError(kind)


OK_KINDS = ("dodir", "doins", "doins-two", "doins-r", "dosym", "dobin", "dodoc", "doman", "keepdir", "docompress",
            "has_version-absent", "has_version-present")
FAIL_KINDS = ("doins-missing", "doins-missing-odd-name", "doins-dir", "dosym-one-arg", "dobin-missing", "doman-nosection",
              "unpack-missing", "unpack-missing", "unpack-bad-path")
NFILES = 4
NDIRS = 2


def gen_scenario(rng, nsteps):
    """A scenario: EAPI, steps (kind, nonfatal?) ; at most one fatal failing step, which ends the phase."""
    eapi = rng.choice(EAPIS)
    steps = []
    fatal_at = None
    want_fatal = rng.random() < 0.35
    for i in range(nsteps):
        if rng.random() < 0.4:
            kind = rng.choice(FAIL_KINDS)
            nonfatal = True
            if want_fatal and fatal_at is None and i >= 1 and rng.random() < 0.4:
                nonfatal = False
                fatal_at = i
        else:
            kind = rng.choice(OK_KINDS)
            nonfatal = rng.random() < 0.3
        s = step(kind, i, rng.randrange(NFILES), rng.randrange(NDIRS))
        s.update(kind=kind, nonfatal=nonfatal, idx=i)
        steps.append(s)
        if fatal_at is not None:
            # two more steps that must never run
            for j in (i + 1, i + 2):
                k2 = rng.choice(("dodir", "dosym"))
                s2 = step(k2, j, 0, 0)
                s2.update(kind=k2, nonfatal=False, idx=j)
                steps.append(s2)
            break
    return {"eapi": eapi, "steps": steps, "fatal_at": fatal_at}


def body_of(sc):
    lines = ['cd "${WORKDIR}" || die "cd failed"',
             'm() { echo "$1:$2" >> "${T}/marks"; }']
    for s in sc["steps"]:
        if s.get("pre"):
            lines.append(s["pre"])
        lines.append("%s%s; m %d $?" % ("nonfatal " if s["nonfatal"] else "", s["cmd"], s["idx"]))
    lines.append("m done 0")
    return "\n".join(lines) + "\n"


# ---------------------------------------------------------------------------------------------------------
# child

def child(scen_path, out_path):
    import shutil
    import tempfile

    from pkgcore import const
    from pkgcore.ebuild import ebd as ebd_mod
    from pkgcore.ebuild import processor
    from pkgcore.test.misc import FakePkg, FakeRepo

    from .. import ebd as vebd
    from . import c32_harness as hx

    sc = json.load(open(scen_path))
    eapi = sc["eapi"]
    res = {"eapi": eapi}
    registry = vebd.install_trace(monitor=False)
    root = tempfile.mkdtemp(prefix="c32d-", dir=os.environ.get("VT_SCRATCH", "/var/tmp"))
    try:
        repo_path = root + "/repo"
        vebd.make_repo(repo_path, eapi=eapi)
        os.makedirs(repo_path + "/cat/helpers")
        vebd.write(repo_path + "/cat/helpers/%s.ebuild" % pf(eapi), "EAPI=%s\nSLOT=%s\n" % (eapi, PROBE_SLOTS[eapi]))
        repo = vebd.open_repo(repo_path)
        pkg = repo.package_class("cat", "helpers", eapi)
        T, W, D, E = root + "/T", root + "/work", root + "/image", root + "/empty"
        for d in (T, W, D, E):
            os.makedirs(d)
        for k in range(NFILES):
            vebd.write(W + "/f%d" % k, "content of f%d\n" % k)
            vebd.write(W + "/page%d.1" % k, ".TH page%d 1\n" % k)
        for k in range(NDIRS):
            os.makedirs(W + "/d%d" % k)
            vebd.write(W + "/d%d/in" % k, "inside d%d\n" % k)
        vebd.write(T + "/environment", 'S="%s"\nWORKDIR="%s"\nsrc_install() { source "${T}/body.sh"; }\n' % (W, W))
        vebd.write(T + "/body.sh", body_of(sc))
        domain = hx.Domain(FakeRepo([FakePkg("app-misc/present-1")]))
        op = hx.Op(int(eapi), D, env={"ROOT": "/", "EROOT": "/", "BROOT": "/", "SYSROOT": "/", "ESYSROOT": "/", "DISTDIR": E},
                   domain=domain)
        op.pkg.PF = pf(eapi)
        env = processor.expected_ebuild_env(pkg, {}, depends=True)
        eobj = pkg.eapi
        path = (list(const.PATH_FORCED_PREPEND) + list(eobj.helpers.get("global", ())) + list(eobj.helpers.get("src_install", ()))
                + os.environ["PATH"].split(":"))
        env.update({"T": T, "PKGCORE_EMPTYDIR": E, "PATH": ":".join(path), "D": op.ED, "ED": op.ED, "WORKDIR": W, "S": W})
        handlers = dict(op._ipc_helpers)
        handlers["request_bashrcs"] = lambda ebp, *a: ebp.write("end_request")
        try:
            r = ebd_mod.run_generic_phase(pkg, "install", env, False, False, extra_handlers=handlers, tmpdir=T)
            res["phase"] = ["returned", bool(r)]
        except KeyboardInterrupt as e:
            res["phase"] = ["raised", "KeyboardInterrupt", str(e)[:300]]
        except Exception as e:
            res["phase"] = ["raised", type(e).__name__, str(e)[:300]]
        marks = []
        if os.path.exists(T + "/marks"):
            for ln in open(T + "/marks").read().split("\n"):
                if ln:
                    a, _, b = ln.rpartition(":")
                    marks.append([a, b])
        res["marks"] = marks
        image = {}
        for dp, dn, fn in os.walk(D):
            for n in dn + fn:
                p = os.path.join(dp, n)
                rel = os.path.relpath(p, D)
                if os.path.islink(p):
                    image[rel] = ["link", os.readlink(p)]
                elif os.path.isdir(p):
                    image[rel] = ["dir", None]
                else:
                    image[rel] = ["file", open(p, "rb").read().decode("utf-8", "replace")]
        res["image"] = image
        res["sources"] = {}
        for dp, dn, fn in os.walk(W):
            for n in fn:
                p = os.path.join(dp, n)
                res["sources"][os.path.relpath(p, W)] = open(p, "rb").read().decode("utf-8", "replace")
        # the python->daemon / daemon->python line trace of the daemon(s) used
        tr = []
        for t in list(registry):
            tr.extend([k, (p.decode("utf-8", "replace") if isinstance(p, bytes) else p)[:200]] for k, p in t.lines())
        res["trace"] = tr
        # is the channel pkgcore hands out next synchronised?
        try:
            ebp = processor.request_ebuild_processor()
            try:
                keys = ebp.get_keys(pkg, repo.eclass_cache)
                res["probe"] = ["ok", keys.get("SLOT")]
            finally:
                processor.release_ebuild_processor(ebp)
        except BaseException as e:
            res["probe"] = ["raised", type(e).__name__, str(e)[:200]]
    finally:
        try:
            vebd.shutdown_all()
        except BaseException:
            pass
        shutil.rmtree(root, ignore_errors=True)
    with open(out_path, "w") as f:
        json.dump(res, f)


# ---------------------------------------------------------------------------------------------------------
# parent

def run_child(sc, scratch, timeout=150):
    """-> result dict or {"timeout": True} / {"child_error": ...}"""
    import signal
    import subprocess

    os.makedirs(scratch, exist_ok=True)
    sp = os.path.join(scratch, "scen.json")
    op = os.path.join(scratch, "res.json")
    lp = os.path.join(scratch, "child.log")
    if os.path.exists(op):
        os.unlink(op)
    with open(sp, "w") as f:
        json.dump(sc, f)
    env = dict(os.environ)
    env["PYTHONDONTWRITEBYTECODE"] = "1"
    here = os.path.dirname(os.path.dirname(os.path.dirname(os.path.abspath(__file__))))
    with open(lp, "wb") as log:
        p = subprocess.Popen([sys.executable, "-m", "vt.gen.c32_daemon", sp, op], cwd=here, env=env, stdin=subprocess.DEVNULL,
                             stdout=log, stderr=log, start_new_session=True)
        try:
            p.wait(timeout=timeout)
        except subprocess.TimeoutExpired:
            try:
                os.killpg(p.pid, signal.SIGKILL)
            except OSError:
                pass
            p.wait()
            return {"timeout": True}
        finally:
            # daemons are their own process-group leaders: sweep what the child left behind
            try:
                os.killpg(p.pid, signal.SIGKILL)
            except OSError:
                pass
    if not os.path.exists(op):
        tail = open(lp, "rb").read()[-600:].decode("utf-8", "replace")
        return {"child_error": tail}
    return json.load(open(op))


def judge(sc, res):
    """-> list of (rule, detail) violations of C32 visible from the bash side."""
    bad = []
    eapi = sc["eapi"]
    marks = {a: b for a, b in res.get("marks", [])}
    order = [a for a, _ in res.get("marks", [])]
    fatal_at = sc["fatal_at"]
    image = res.get("image", {})
    last_expected = fatal_at if fatal_at is not None else len(sc["steps"])
    # every step before the fatal one was answered, in order, exactly once
    exp_order = [str(s["idx"]) for s in sc["steps"] if s["idx"] < last_expected] + ([] if fatal_at is not None else ["done"])
    if fatal_at is None:
        if order != exp_order:
            bad.append(("daemon-steps-ran", {"expected_marks": exp_order, "got": order}))
    else:
        # the helper process that receives the failure kills the daemon asynchronously: the script may still record the
        # failing step itself (never as a success); what ran before it is fixed
        if order[:len(exp_order)] != exp_order:
            bad.append(("daemon-steps-ran", {"expected_marks": exp_order, "got": order}))
        if marks.get(str(fatal_at)) == "0":
            bad.append(("daemon-failure-seen-as-success", {"step": sc["steps"][fatal_at], "rc": "0"}))
    for s in sc["steps"]:
        i = s["idx"]
        if i >= last_expected:
            # after (or at) the fatal failure nothing may have been installed by later steps
            continue
        rc = marks.get(str(i))
        if rc is None:
            continue
        if s["ok"] is None:
            if rc != str(s["rc"]):
                bad.append(("daemon-status-value", {"step": s, "rc": rc}))
            continue
        if s["ok"] and rc != "0":
            bad.append(("daemon-success-seen-as-failure", {"step": s, "rc": rc}))
        if not s["ok"] and rc == "0":
            bad.append(("daemon-failure-seen-as-success", {"step": s, "rc": rc}))
        if s["ok"] and rc == "0":
            for rel, typ, det in s["entries"]:
                rel = rel.replace("@PF@", pf(eapi))
                got = image.get(rel)
                if got is None:
                    if typ == "file" and any(k.startswith(rel + ".") for k in image):
                        continue  # compressed later by a post-install step: not part of this property
                    bad.append(("daemon-success-but-entry-absent", {"step": s, "entry": rel, "image": sorted(image)[:40]}))
                elif got[0] != typ:
                    bad.append(("daemon-success-but-entry-wrong-type", {"step": s, "entry": rel, "got": got}))
                elif typ == "link" and got[1] != det:
                    bad.append(("daemon-success-but-entry-wrong", {"step": s, "entry": rel, "got": got}))
                elif typ == "file" and got[1] != res["sources"].get(det):
                    bad.append(("daemon-success-but-entry-wrong", {"step": s, "entry": rel, "got": got[1][:80]}))
    ph = res.get("phase")
    if fatal_at is None:
        if ph != ["returned", True]:
            bad.append(("daemon-phase-failed-without-fatal-failure", {"phase": ph}))
    else:
        if ph and ph[0] == "returned" and ph[1]:
            bad.append(("daemon-fatal-failure-did-not-fail-the-build", {"phase": ph, "step": sc["steps"][fatal_at]}))
    pr = res.get("probe")
    if pr != ["ok", PROBE_SLOTS[eapi]]:
        bad.append(("daemon-channel-not-synchronised-afterwards", {"probe": pr}))
    return bad


if __name__ == "__main__":
    child(sys.argv[1], sys.argv[2])
