"""C46 generator: distdirs, stub repositories / installed sets with overlapping distfile names, pclean option sets.

A scenario is plain JSON-able data; the props module materialises it (scratch distdir, stub domain) and the
reference (vt/ref/c46_keep.py) judges from the same data without looking at pclean."""

CATS = ("app-a", "dev-b", "sys-c")
# names chosen so that one is a prefix of another, differ only in case / separator, or contain regex-special '+'
PNS = ("foo", "foo-bar", "foobar", "foo_baz", "Foo", "bar", "bar-ng", "libfoo", "gtk+", "q", "x2")
VERS = ("0.9", "1.0", "1.1", "2.0", "2.0-r1", "3.1_p2", "10")
OLD_VERS = ("0.1", "0.5", "0.8_rc1", "0.9.9")
ALIASES = ("widget", "core", "libq", "Data")
UNRELATED = ("zzz-9.tar.gz", "README", "unrelated_file", ".keep", "notes.txt", "yy_1.2.orig.tar.xz", "0ad-26.tar.xz",
             "Quux-src-4.zip", "fo-1.0.tar.gz", "ba.tar")
TIME_ARGS = (("3600s", 3600), ("30min", 1800), ("2h", 7200), ("1d", 86400), ("2w", 2 * 604800), ("1m", 28 * 86400),
             ("1y", 365 * 86400), ("0s", 0))
# (text, largest number of bytes the text can mean)
SIZE_ARGS = (("100B", 100), ("1K", 1024), ("2K", 2048), ("1M", 1024 ** 2), ("1G", 1024 ** 3), ("0B", 0))
UNIT_SECONDS_IMPL_DOC = {"m": 30 * 86400}   # documentation only: pclean approximates a month as 30 days


def _pv(ver):
    return ver.split("-r")[0]


def _names(rng, pn, ver, shared):
    pv = _pv(ver)
    t = rng.random()
    out = []
    if t < 0.45:
        out.append("%s-%s.tar.gz" % (pn, pv))
    elif t < 0.55:
        out.append("%s_%s.orig.tar.xz" % (pn, pv))
    elif t < 0.65:
        out.append("%s-%s.tgz" % (pn.capitalize() if pn.capitalize() != pn else pn.upper(), pv))
    elif t < 0.78:
        out.append("%s-src-%s.zip" % (rng.choice(ALIASES), pv))
    elif t < 0.86:
        out.append("%s%s.tar.gz" % (pn, pv))
    elif t < 0.92:
        out.append("%s.tar.gz" % pv)                      # GitHub-style tarball: the name starts with a digit
    else:
        out.append("%s-%s.tar.bz2" % (pn, pv))
    if rng.random() < 0.3:
        out.append("%s-%s-patches-%d.tar.bz2" % (pn, pv, rng.randrange(1, 4)))
    if rng.random() < 0.25:
        out.append(rng.choice(shared))
    return out


FLAGS = ("extras", "doc", "gui", "test")


def _conditional_src_uri(rng, pn, pv, base):
    """-> (SRC_URI-like string of file names, enabled flags, evaluated names, all names).

    The evaluation is done here, by construction (a group's files count iff every enclosing condition holds);
    the harness builds a real DepSet from the string for the raw package and cross-checks."""
    use = sorted(f for f in FLAGS if rng.random() < 0.4)
    tokens, evaluated, allnames = list(base), list(base), list(base)
    counter = [0]

    def group(depth, active):
        flag = rng.choice(FLAGS)
        neg = rng.random() < 0.4
        holds = active and ((flag in use) != neg)
        counter[0] += 1
        name = "%s-%s-%s%d.tar.xz" % (pn, pv, flag if not neg else "no" + flag, counter[0])
        allnames.append(name)
        if holds:
            evaluated.append(name)
        inner = [name]
        if depth < 2 and rng.random() < 0.4:
            inner += group(depth + 1, holds)
        return ["%s%s?" % ("!" if neg else "", flag), "("] + inner + [")"]

    for _ in range(rng.choice((1, 1, 2, 3))):
        tokens += group(0, True)
    if len(evaluated) == len(allnames):
        # make sure at least one group is disabled: a group on a flag that is forced off / on
        flag = rng.choice(FLAGS)
        neg = flag in use
        name = "%s-%s-%s-off.tar.xz" % (pn, pv, flag)
        allnames.append(name)
        tokens += ["%s%s?" % ("!" if neg else "", flag), "(", name, ")"]
    return " ".join(tokens), use, evaluated, allnames


def _nest(rng, names):
    """Random nesting, as iflatten_instance has to cope with (conditional groups are nested sequences)."""
    if len(names) > 1 and rng.random() < 0.5:
        k = rng.randrange(1, len(names))
        return names[:k] + [names[k:]]
    return list(names)


def scenario(rng):
    shared = ["common-data-1.tar.gz", "shared-%d.bin" % rng.randrange(3)]
    npk = rng.randrange(2, 7)
    keys = set()
    while len(keys) < npk:
        keys.add((rng.choice(CATS if rng.random() < 0.6 else CATS[:1]), rng.choice(PNS)))
    repos = [{"id": "r0", "pkgs": []}, {"id": "r1", "pkgs": []}]
    allpk = []
    for cat, pn in sorted(keys):
        for ver in rng.sample(VERS, rng.choice((1, 1, 2, 3))):
            names = _names(rng, pn, ver, shared)
            raw = src_uri = use = None
            if rng.random() < 0.45:
                # SRC_URI with USE-conditional groups: `flag? ( f )`, `!flag? ( f )`, nested; the flags are set so that
                # some groups are disabled -> the configured package's distfiles are a strict subset of the raw ones
                src_uri, use, names, raw = _conditional_src_uri(rng, pn, _pv(ver), names)
            r = rng.random()
            restrict = ["fetch"] if r < 0.22 else ["mirror"] if r < 0.35 else ["fetch", "strip"] if r < 0.4 else []
            pk = {"cat": cat, "pn": pn, "ver": ver, "distfiles": _nest(rng, names) if src_uri is None else list(names),
                  "raw_distfiles": raw, "restrict": restrict}
            if src_uri is not None:
                pk["src_uri"] = src_uri
                pk["use"] = use
            repos[0 if rng.random() < 0.7 else 1]["pkgs"].append(pk)
            allpk.append(pk)
    installed = []
    for pk in allpk:
        if rng.random() < 0.35:
            installed.append({"cat": pk["cat"], "pn": pk["pn"], "ver": pk["ver"], "distfiles": list(pk["distfiles"]),
                              "restrict": list(pk["restrict"])})
    for _ in range(rng.choice((0, 1, 1, 2))):
        # installed version that left the tree (its distfiles are 'stale' from the repositories' point of view)
        cat, pn = rng.choice(sorted(keys))
        ver = rng.choice(OLD_VERS)
        if any((i["cat"], i["pn"], i["ver"]) == (cat, pn, ver) for i in installed):
            continue                    # one vdb entry per cpv
        installed.append({"cat": cat, "pn": pn, "ver": ver, "distfiles": _nest(rng, _names(rng, pn, ver, shared)),
                          "restrict": ["fetch"] if rng.random() < 0.2 else []})
    # ---- files in the distdir
    names = {}

    def put(name, **kw):
        if name not in names:
            names[name] = kw

    def flat(x):
        for y in x:
            if isinstance(y, str):
                yield y
            else:
                yield from flat(y)

    for pk in allpk + installed:
        for f in flat(pk.get("raw_distfiles") or pk["distfiles"]):
            if rng.random() < 0.85:
                put(f)
    for cat, pn in sorted(keys):
        for ver in rng.sample(OLD_VERS, rng.choice((0, 1, 2))):
            for f in _names(rng, pn, ver, shared):
                put(f)
    for f in rng.sample(UNRELATED, rng.randrange(2, 6)):
        put(f)
    # names that look like files of a package that is NOT in any repository
    ghost = rng.choice(PNS)
    if not any(k[1] == ghost for k in keys):
        put("%s-%s.tar.gz" % (ghost, rng.choice(VERS)))
    opts = options(rng, sorted(keys), allpk)
    files = []
    for name in sorted(names):
        files.append({"name": name, "size": _size(rng, opts), "age": _age(rng, opts)})
    return {"repos": repos, "installed": installed, "files": files,
            "subdir_files": ["sub/%s" % rng.choice(sorted(names))] if rng.random() < 0.3 else [],
            "opts": opts, "argv": argv(rng, opts)}


def _size(rng, opts):
    lim = opts["size"][1] if opts["size"] else rng.choice((100, 1024))
    r = rng.random()
    if r < 0.25:
        return max(0, lim - 1)
    if r < 0.4:
        return lim
    if r < 0.6:
        return lim + 1
    if r < 0.8:
        return rng.randrange(0, 64)
    return min(lim * 3 + 7, 5 * 1024 ** 2) if lim < 1024 ** 3 else 4096


def _age(rng, opts):
    thr = opts["modified"][1] if opts["modified"] else 86400
    r = rng.random()
    if r < 0.35:
        return thr * 2 + 7200          # clearly older than the threshold
    if r < 0.7:
        return max(0, thr // 2 - 600)  # clearly newer (or brand new)
    if r < 0.8:
        return thr + 30                # inside the oracle's margin: never judged
    if r < 0.9:
        return max(0, thr - 30)
    return 0


def _pattern(rng, keys, allpk):
    cat, pn = rng.choice(keys)
    r = rng.random()
    if r < 0.45:
        return {"text": "%s/%s" % (cat, pn), "kind": "cp", "cat": cat, "pn": pn}
    if r < 0.7:
        return {"text": pn, "kind": "pn", "pn": pn}
    if r < 0.85:
        pk = rng.choice([p for p in allpk if (p["cat"], p["pn"]) == (cat, pn)])
        return {"text": "=%s/%s-%s" % (cat, pn, pk["ver"]), "kind": "cpv", "cat": cat, "pn": pn, "ver": pk["ver"]}
    return {"text": "%s/*" % cat, "kind": "cat", "cat": cat}


def options(rng, keys, allpk):
    o = {"targets": [], "excludes": [], "I": rng.random() < 0.4, "E": rng.random() < 0.45, "f": rng.random() < 0.35,
         "modified": None, "size": None, "pretend": rng.random() < 0.12, "tty": rng.random() < 0.93,
         "exclude_file": False, "verbosity": rng.choice((0, 0, 0, 0, 0, 0, 0, -1, -1, 1))}
    if rng.random() < 0.55:
        o["targets"] = [_pattern(rng, keys, allpk) for _ in range(rng.choice((1, 1, 1, 2)))]
    if rng.random() < 0.4:
        o["excludes"] = [_pattern(rng, keys, allpk) for _ in range(rng.choice((1, 1, 2)))]
        o["exclude_file"] = rng.random() < 0.2
    if rng.random() < 0.3:
        o["modified"] = list(rng.choice(TIME_ARGS))
    if rng.random() < 0.3:
        o["size"] = list(rng.choice(SIZE_ARGS))
    return o


def argv(rng, o):
    """Command line for `pclean dist` (option spellings vary; the exclusion file path is filled in by the harness)."""
    a = ["dist"]
    pre, post = [], []
    if o.get("verbosity"):
        (pre if rng.random() < 0.5 else post).append({-1: "-q", 1: "-v"}[o["verbosity"]])
    for flag, short, long_ in (("I", "-I", "--installed"), ("E", "-E", "--exists"), ("f", "-f", "--fetch-restricted"),
                               ("pretend", "-p", "--pretend")):
        if o[flag]:
            (pre if rng.random() < 0.5 else post).append(short if rng.random() < 0.5 else long_)
    if o["excludes"]:
        txt = ",".join(p["text"] for p in o["excludes"])
        if o["exclude_file"]:
            pre += ["-X", "@EXCLUDE_FILE@"]
        else:
            pre += [rng.choice(("-x", "--exclude")), txt]
    if o["modified"]:
        post += [rng.choice(("-m", "--modified")), o["modified"][0]]
    if o["size"]:
        post += [rng.choice(("-s", "--size")), o["size"][0]]
    return a + pre + [p["text"] for p in o["targets"]] + post
