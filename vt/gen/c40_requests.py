"""Generators for C40: small repositories with keywords, request lists with sentinels, option combinations.

Pure Python (JSON-able dicts, shapes documented in vt/ref/c40_keywording.py); no pkgcore.
"""

PLAIN_ARCHES = ["amd64", "x86", "arm64", "ppc64", "hppa", "alpha"]
PREFIX_ARCHES = ["amd64-linux", "x86-macos", "sparc-freebsd"]
FOREIGN_ARCHES = ["riscv", "mips"]          # used in KEYWORDS but (mostly) missing from arch.list
BOGUS = ["nosucharch", "someone", "amd65"]
NAMES = ["a/b", "a/bc", "c/d", "c/d-e"]
VERSIONS = ["1", "2", "2-r1", "3.1", "10", "1.0_rc1"]


def make_repo(rng):
    plain = rng.sample(PLAIN_ARCHES, rng.choice([2, 3, 3, 4, 5]))
    prefix = rng.sample(PREFIX_ARCHES, rng.choice([0, 1, 1, 2]))
    arches = plain + prefix
    foreign = []
    roll = rng.random()
    if roll < 0.12:
        foreign = [rng.choice(FOREIGN_ARCHES)]           # keyworded somewhere, not a known arch
    elif roll < 0.2:
        foreign = [rng.choice(FOREIGN_ARCHES)]
        arches.append(foreign[0])                       # ... or known after all
        foreign = []
    pool = plain + prefix + foreign
    if rng.random() < 0.1:
        extra = rng.choice(PLAIN_ARCHES)               # possibly a plain arch arch.list does not have
        if extra not in pool:
            pool.append(extra)
    pkgs = []
    for name in rng.sample(NAMES, rng.choice([2, 2, 3, 4])):
        vers = rng.sample(VERSIONS, rng.choice([1, 2, 2, 3, 4]))
        # a package family usually shares its arches: pick the family's arches, then vary the level per version
        fam = [a for a in pool if rng.random() < 0.7]
        for v in vers:
            kws = []
            for a in fam:
                x = rng.random()
                if x < 0.38:
                    kws.append(a)
                elif x < 0.76:
                    kws.append("~" + a)
                elif x < 0.81:
                    kws.append("-" + a)
            if rng.random() < 0.05:
                kws.insert(0, "-*")
            if rng.random() < 0.08:
                kws = []
            pkgs.append({"cpv": "%s-%s" % (name, v), "name": name, "ver": v, "slot": rng.choice(["0", "0", "0", "1"]),
                         "keywords": kws, "live": False})
        if rng.random() < 0.25:
            pkgs.append({"cpv": name + "-9999", "name": name, "ver": "9999", "slot": "0", "keywords": [], "live": True})
    return {"arches": arches, "pkgs": pkgs}


def make_spec(rng, repo, stable):
    names = sorted({p["name"] for p in repo["pkgs"]})
    name = rng.choice(names)
    vers = [p["ver"] for p in repo["pkgs"] if p["name"] == name]
    ver = rng.choice(vers)
    roll = rng.random()
    if roll < 0.02:
        name = "zz/none"
    elif roll < 0.04:
        ver = "77"
    if stable:
        op = "=" if rng.random() < 0.88 else rng.choice(["", ">=", "~", "<=", "=*"])
    else:
        op = rng.choice(["=", "=", "", "", "", ">=", "~", "<", "=*", ">"])
    spec = {"op": op, "name": name, "ver": ver, "glob": False, "slot": ""}
    if op == "":
        spec["ver"] = ""
    if op == "~" and "-r" in spec["ver"]:
        spec["ver"] = spec["ver"].split("-r")[0]   # ~ takes no revision
    if op == "=*":
        spec["op"], spec["glob"] = "=", True
    if rng.random() < (0.03 if stable else 0.15):
        slots = sorted({p["slot"] for p in repo["pkgs"] if p["name"] == name}) or ["0"]
        spec["slot"] = rng.choice(slots + ["0"])
    return spec


def make_written(rng, repo, first):
    roll = rng.random()
    known = repo["arches"]
    out = []
    if roll < 0.14:
        return out
    n = rng.choice([1, 1, 2, 2, 3])
    for _ in range(n):
        x = rng.random()
        if x < 0.03:
            a = rng.choice(BOGUS)
        elif x < 0.06:
            a = rng.choice(FOREIGN_ARCHES)
        else:
            a = rng.choice(known)
        if rng.random() < 0.2:
            a = "~" + a
        if rng.random() < 0.06:
            a = " " + a + " "
        out.append(a)
    s = rng.random()
    if s < 0.22:
        if rng.random() < 0.5:
            out = ["*"]
        else:
            out.insert(rng.randrange(len(out) + 1), "*")
    elif s < 0.34 and (not first or rng.random() < 0.1):
        if rng.random() < 0.5:
            out = ["^"]
        else:
            out.insert(rng.randrange(len(out) + 1), "^")
        if rng.random() < 0.15:
            out.append("*")
    elif s < 0.38:
        out = ["-"] if rng.random() < 0.6 else out + ["-"]
    return out


def make_options(rng, repo):
    plain = [a for a in repo["arches"] if "-" not in a]
    opts = {"stable": rng.random() < 0.5, "cc_arches": [], "only_new": rng.random() < 0.4, "filter_arch": [],
            "allarches": rng.random() < 0.35}
    if rng.random() < 0.5:
        opts["cc_arches"] = rng.sample(plain, min(len(plain), rng.choice([1, 1, 2, 3])))
        x = rng.random()
        if x < 0.06:
            opts["cc_arches"].append(rng.choice(BOGUS + FOREIGN_ARCHES))
        elif x < 0.12 and len(repo["arches"]) > len(plain):
            opts["cc_arches"].append(rng.choice([a for a in repo["arches"] if "-" in a]))
    if rng.random() < 0.45:
        opts["filter_arch"] = rng.sample(plain, min(len(plain), rng.choice([1, 1, 2])))
        if rng.random() < 0.05:
            opts["filter_arch"].append(rng.choice(BOGUS))
    return opts


def make_case(rng):
    repo = make_repo(rng)
    opts = make_options(rng, repo)
    lines = []
    for i in range(rng.choice([1, 1, 2, 2, 3, 4])):
        lines.append({"spec": make_spec(rng, repo, opts["stable"]), "written": make_written(rng, repo, i == 0)})
    return {"repo": repo, "lines": lines, "options": opts}
