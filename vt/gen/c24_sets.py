"""Generator of hostile contents sets for C24 (entries as ref.c24_contents 5-tuples).

Paths are absolute, normalised, valid unicode, and contain no NUL, "\\n" or "\\r" (line terminators are outside the
line-oriented CONTENTS format).  Everything else is fair game: single/double/leading/trailing spaces inside
components, the fragment " -> " (with and without the surrounding spaces), "#", quotes, tabs, form feeds,
U+2028, no-break/ideographic spaces, non-BMP characters.
"""

import os

from ..ref import c24_contents as ref

PLAIN = ["usr", "lib", "lib64", "share", "doc", "bin", "etc", "file", "a", "b", "c", "x.so.1", "README", "pkg-1.0",
         ".hidden", "conf.d", "obj", "sym", "dir", "0", "1700000000", "d41d8cd98f00b204e9800998ecf8427e"]
SPACED = ["My Documents", "a b", "x  y", "a b c", " lead", "trail ", "  two", "two  ", " ", "  ", "a b  c   d",
          "Program Files (x86)", "obj a", "sym b -", "dir  c", "file 0123 55", "x 5", "x d41d8cd98f00b204e9800998ecf8427e 7"]
ARROWS = ["a -> b", "->", "x->y", "- >", " -> ", "->x", "a ->", "-> b", "a -> b -> c", "-->", "a  ->  b", "=> ->",
          "a -> ", " ->"]
UNI = ["\u00e9", "\u00fc \u00fc", "\u65e5\u672c\u8a9e", "\u0444\u0430\u0439\u043b", "na\u00efve caf\u00e9", "a\u2028b",
       "a\u00a0b", "a\u3000b", "\U0001f600", "\ufb01", "e\u0301", "\u200b", "\u03a9 -> \u03c9", "\u00df ", "\u2029x"]
ODD = ["#hash", "a#b", "# c", "$v", "q'uote", 'd"q', "back\\slash", "tab\tin", "ff\x0cin", "vt\x0bin", "a=b", "100%",
       "(paren)", "[br]", "*", "?", "~", "a\x1cb", "a\x85b", "\x7f", "\\n", "%s", "{}"]
TRAIL_WS = [" ", "  ", "\t", "\u3000", "\x0c", "\u00a0", " \t ", "\u2028", "\x1f"]

MD5_EDGES = [0, 1, 2 ** 128 - 1, 2 ** 127, 0xd41d8cd98f00b204e9800998ecf8427e, 0x0000000000000000000000000000abcd,
             0x00ff00ff00ff00ff00ff00ff00ff00ff]


def component(rng, weights=(5, 3, 2, 2, 2)):
    pool = rng.choices([PLAIN, SPACED, ARROWS, UNI, ODD], weights=weights)[0]
    c = rng.choice(pool)
    if rng.random() < 0.15:
        c = c + rng.choice(["", ".", "-", "_"]) + rng.choice(rng.choice([PLAIN, SPACED, ARROWS, UNI, ODD]))
    c = c.replace("/", "_")
    if c in (".", "..", ""):
        c = "dot" + c
    return c


def path(rng, weights=(5, 3, 2, 2, 2)):
    p = "/" + "/".join(component(rng, weights) for _ in range(rng.choice([1, 1, 2, 2, 3, 4, 6])))
    assert os.path.normpath(p) == p and "\n" not in p and "\r" not in p and "\0" not in p
    return p


def target(rng):
    r = rng.random()
    if r < 0.2:
        return rng.choice(PLAIN)
    n = rng.choice([1, 1, 2, 3])
    t = "/".join(component(rng) for _ in range(n))
    r = rng.random()
    if r < 0.3:
        t = "/" + t
    elif r < 0.5:
        t = "../" * rng.choice([1, 2]) + t
    elif r < 0.55:
        t = "./" + t
    if rng.random() < 0.1:
        t += "/"
    return t


def mtime(rng):
    r = rng.random()
    if r < 0.35:
        return rng.randrange(0, 2 ** 31)
    if r < 0.45:
        return rng.choice([0, 1, 2 ** 31 - 1, 2 ** 31, 2 ** 32, 2 ** 33 + 7, 10 ** 12])
    if r < 0.55:
        return float(rng.randrange(0, 2 ** 31))
    if r < 0.65:
        return rng.randrange(0, 2 ** 31) + rng.choice([0.5, 0.999999, 0.000001, 0.25])
    return rng.randrange(0, 2 ** 31) + rng.random()


def md5(rng):
    if rng.random() < 0.2:
        return rng.choice(MD5_EDGES)
    if rng.random() < 0.15:
        return rng.getrandbits(rng.choice([8, 60, 100, 124]))
    return rng.getrandbits(128)


def live_devices(limit=24):
    """Device nodes that exist on this machine (read-only lstat): the reader looks devices up on the live fs."""
    out = []
    try:
        for n in sorted(os.listdir("/dev")):
            p = "/dev/" + n
            if ref.is_live_device(p):
                out.append(p)
    except OSError:
        pass
    return out[:limit]


def entry(rng, kind, devs):
    t = rng.choices(["obj", "sym", "dir", "fif", "dev"], weights=[8, 5, 5, 2, 2])[0]
    if kind == "sym-arrow" and rng.random() < 0.4:
        t = "sym"
    if kind == "trail-ws" and rng.random() < 0.4:
        t = rng.choice(["dir", "fif"])
    if kind == "dev-missing" and rng.random() < 0.3:
        t = "dev"
    if t == "dev":
        if kind == "dev-missing":
            p = path(rng)
            if rng.random() < 0.2:
                # below a regular file of the live filesystem: lstat fails with ENOTDIR instead of ENOENT
                p = rng.choice(["/etc/passwd", "/etc/hostname", "/proc/self/cmdline"]) + p
            return ("dev", p, None, None, None)
        if not devs:
            t = "fif"
        else:
            return ("dev", rng.choice(devs), None, None, None)
    p = path(rng)
    if t == "obj":
        return ("obj", p, md5(rng), mtime(rng), None)
    if t == "sym":
        if kind == "sym-arrow" and rng.random() < 0.6 and "->" not in p.split(" "):
            p = p + rng.choice([" -> x", " ->", " -> a -> b", " -> /usr/lib"])
        return ("sym", p, None, mtime(rng), target(rng))
    if kind == "trail-ws" and rng.random() < 0.6:
        p = p + rng.choice(TRAIL_WS)
    return (t, p, None, None, None)


def hazards(e):
    h = []
    if ref.sym_location_has_arrow_token(e):
        h.append("sym-arrow")
    if ref.pathonly_trailing_whitespace(e):
        h.append("trail-ws")
    if e[0] == "dev" and not ref.is_live_device(e[1]):
        h.append("dev-missing")
    return h


def contents_set(rng, kind, devs, maxn=60):
    """A set of 1..maxn entries with unique locations.

    kind == "clean": no entry triggers a recorded mechanism; otherwise at least one entry triggers exactly the
    mechanism `kind` and none triggers another one."""
    n = rng.choice([1, 2, 3, 5, 8, 13, 21, 34, maxn]) if rng.random() < 0.7 else rng.randrange(1, maxn + 1)
    out = {}
    tries = 0
    while len(out) < n and tries < n * 20:
        tries += 1
        e = entry(rng, kind, devs)
        h = hazards(e)
        if any(x != kind for x in h):
            continue
        if e[1] in out:
            continue
        out[e[1]] = e
    ents = list(out.values())
    if kind != "clean" and not any(hazards(e) for e in ents):
        forced = {"sym-arrow": ("sym", "/usr/lib/a -> b", None, 5, "c"),
                  "trail-ws": ("dir", "/opt/My Dir ", None, None, None),
                  "dev-missing": ("dev", "/dev/vt c24 no such device", None, None, None)}[kind]
        ents = [e for e in ents if e[1] != forced[1]] + [forced]
    rng.shuffle(ents)
    return ents


def nontrivial(ents):
    """A set exercises the boundary the property names when some path or target carries a space, an arrow
    fragment or a non-ASCII character."""
    for e in ents:
        for s in (e[1], e[4] or ""):
            if " " in s or "->" in s or any(ord(c) > 127 for c in s):
                return True
    return False
