"""C11 layer 2: on-disk profile stacks + user package.use for a real pkgcore domain.

cfg (JSON-able):
  {"use": [tokens of the root profile's make.defaults USE],
   "profiles": [node, node]           # parent first; node = {"package.use": [[atom, [tokens]]], "use.mask": [tokens],
                                      #   "package.use.mask": [...], "use.force": [tokens], "package.use.force": [...]}
   "user": [[restriction, [raw tokens incl. "FOO:" groups]]],     # user package.use lines, in file order
   "pkgs": [{"cpv":, "slot":, "iuse": [..]}]}
"""

import os

FLAGS = ["a", "b", "c", "foo_x", "foo_y", "bar_z"]
PROFILE_ATOMS = ["c/p", "c/p", "=c/p-1", "=c/p-2", "c/p:1", "c/q", "=c/q-1"]
USER_RESTR = ["*/*", "*/*", "c/*", "c/p", "=c/p-1", "c/p:2", "c/q", "c/p"]
PKGS = [("c/p-1", "1"), ("c/p-2", "2"), ("c/q-1", "1"), ("d/z-1", "0")]


def plain_tokens(rng, lo=1, hi=3, allow_reset=True, flags=FLAGS):
    fl = flags[:]
    rng.shuffle(fl)
    toks = [("-" if rng.random() < 0.45 else "") + f for f in fl[: rng.randint(lo, hi)]]
    if allow_reset and rng.random() < 0.15:
        toks.insert(0, "-*")
    return toks


def user_tokens(rng):
    """user package.use syntax: plain part, optional -* anywhere in it, optional USE_EXPAND groups."""
    x = rng.random()
    plain_flags = ["a", "b", "c"]
    toks = plain_tokens(rng, 0 if x < 0.5 else 1, 2, allow_reset=False, flags=plain_flags)
    if rng.random() < 0.2:
        toks.insert(rng.randint(0, len(toks)), "-*")
    if x < 0.5:
        groups = rng.sample(["FOO", "BAR"], rng.randint(1, 2))
        for g in groups:
            toks.append(g + ":")
            vals = {"FOO": ["x", "y"], "BAR": ["z"]}[g][:]
            rng.shuffle(vals)
            vs = [("-" if rng.random() < 0.3 else "") + v for v in vals[: rng.randint(1, len(vals))]]
            if rng.random() < 0.4:
                vs.insert(rng.randint(0, len(vs)), "-*")
            toks.extend(vs)
    if not toks:
        toks = ["a"]
    return toks


def gen_cfg(rng):
    cfg = {"use": plain_tokens(rng, 0, 4, allow_reset=False) if rng.random() < 0.85 else [], "profiles": [], "user": [],
           "pkgs": []}
    if cfg["use"] and rng.random() < 0.2:
        cfg["use"].insert(rng.randint(0, len(cfg["use"])), "-*")
    for _ in range(rng.choice([1, 2, 2, 3])):
        node = {}
        node["package.use"] = [[rng.choice(PROFILE_ATOMS), plain_tokens(rng)] for _ in range(rng.randint(0, 4))]
        for kind in ("mask", "force"):
            node["use." + kind] = plain_tokens(rng, 0, 3, allow_reset=False)
            node["package.use." + kind] = [[rng.choice(PROFILE_ATOMS), plain_tokens(rng, allow_reset=False)]
                                           for _ in range(rng.randint(0, 3))]
        cfg["profiles"].append(node)
    for _ in range(rng.randint(0, 5)):
        cfg["user"].append([rng.choice(USER_RESTR), user_tokens(rng)])
    for cpv, slot in PKGS:
        iuse = []
        for f in FLAGS:
            r = rng.random()
            if r < 0.25:
                iuse.append("+" + f)
            elif r < 0.7:
                iuse.append(f)
        cfg["pkgs"].append({"cpv": cpv, "slot": slot, "iuse": iuse})
    return cfg


def write_cfg(cfg, base):
    """Materialise cfg under `base` (fresh directory).  Returns (profiles_dir, leaf_profile_name, config_dir, root)."""
    prof = os.path.join(base, "repo", "profiles")
    os.makedirs(os.path.join(base, "repo", "metadata"))
    os.makedirs(prof)
    os.makedirs(os.path.join(base, "conf", "package.use"))
    os.makedirs(os.path.join(base, "root"))

    def w(path, text):
        with open(path, "w") as f:
            f.write(text)

    w(os.path.join(prof, "repo_name"), "c11test\n")
    w(os.path.join(base, "repo", "metadata", "layout.conf"), "masters =\n")
    for i, node in enumerate(cfg["profiles"]):
        d = os.path.join(prof, "p%d" % i)
        os.makedirs(d)
        w(os.path.join(d, "eapi"), "5\n")
        if i == 0:
            w(os.path.join(d, "make.defaults"),
              'ARCH="amd64"\nACCEPT_KEYWORDS="amd64 ~amd64"\nUSE_EXPAND="FOO BAR"\nUSE="%s"\n' % " ".join(cfg["use"]))
        else:
            w(os.path.join(d, "parent"), "../p%d\n" % (i - 1))
        for fname in ("package.use", "package.use.mask", "package.use.force"):
            if node.get(fname):
                w(os.path.join(d, fname), "".join("%s %s\n" % (a, " ".join(t)) for a, t in node[fname]))
        for fname in ("use.mask", "use.force"):
            if node.get(fname):
                w(os.path.join(d, fname), "".join(t + "\n" for t in node[fname]))
    if cfg["user"]:
        half = (len(cfg["user"]) + 1) // 2
        w(os.path.join(base, "conf", "package.use", "00-first"),
          "".join("%s %s\n" % (r, " ".join(t)) for r, t in cfg["user"][:half]))
        if cfg["user"][half:]:
            w(os.path.join(base, "conf", "package.use", "50-second"),
              "# comment line\n" + "".join("%s %s\n" % (r, " ".join(t)) for r, t in cfg["user"][half:]))
    return prof, "p%d" % (len(cfg["profiles"]) - 1), os.path.join(base, "conf"), os.path.join(base, "root")
