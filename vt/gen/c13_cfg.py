"""Generator of small repositories + profile/user configurations for C13 (shape: see vt/ref/c13_visibility.py)."""

CATS = ["app-a", "dev-b", "sys-c"]
NAMES = ["foo", "bar", "baz-qux", "lib1", "zed"]
VERSIONS = ["0.9", "1", "1.0", "1.0-r1", "1.1", "1.2_rc1", "1.10", "2", "2.0-r2", "10"]
SLOTS = ["0", "0", "0", "1", "2", "2/2.1"]
ARCHES = ["amd64", "x86", "arm64"]
LICENSES = ["MIT", "GPL-2", "GPL-3+", "BSD", "LGPL-2.1", "EULA-x", "NVIDIA", "PD"]
GROUPS = ["FREE", "GPLS", "EULA", "MISC"]


def _keywords(rng, arch):
    r = rng.random()
    if r < 0.06:
        return ""
    if r < 0.45:
        # one keyword class only: these are the packages a wildcard or an empty entry decides
        other = rng.choice([a for a in ARCHES if a != arch])
        return rng.choice([arch, "~" + arch, "~" + arch, other, other, "~" + other, "~" + other, "-" + arch,
                           "-* ~" + other, "-* " + other])
    toks = []
    if rng.random() < 0.08:
        toks.append("-*")
    for a in ARCHES:
        w = (0.25, 0.35, 0.3, 0.1) if a == arch else (0.5, 0.25, 0.2, 0.05)
        x = rng.random()
        if x < w[0]:
            continue
        if x < w[0] + w[1]:
            toks.append(a)
        elif x < w[0] + w[1] + w[2]:
            toks.append("~" + a)
        else:
            toks.append("-" + a)
    return " ".join(toks)


def _license_expr(rng):
    L = lambda: rng.choice(LICENSES)  # noqa: E731
    shape = rng.random()
    if shape < 0.04:
        return ""
    if shape < 0.40:
        return L()
    if shape < 0.55:
        return "%s %s" % (L(), L())
    if shape < 0.72:
        return "|| ( %s %s )" % (L(), L())
    if shape < 0.80:
        return "%s || ( %s %s )" % (L(), L(), L())
    if shape < 0.88:
        return "|| ( %s ( %s %s ) )" % (L(), L(), L())
    if shape < 0.94:
        return "|| ( ( %s %s ) ( %s %s ) )" % (L(), L(), L(), L())
    if shape < 0.97:
        return "( %s %s ) %s" % (L(), L(), L())
    return "|| ( %s %s %s ) || ( %s %s )" % (L(), L(), L(), L(), L())


def _groups(rng):
    out = []
    for i, g in enumerate(GROUPS):
        if rng.random() < 0.15:
            continue
        members = rng.sample(LICENSES, rng.randrange(1, 4))
        # acyclic by construction: only groups defined later in the list may be referenced
        later = GROUPS[i + 1:]
        if later and rng.random() < 0.35:
            members.insert(rng.randrange(len(members) + 1), "@" + rng.choice(later))
        out.append([g, members])
    present = {g for g, _ in out}
    for _g, members in out:
        members[:] = [m for m in members if not m.startswith("@") or m[1:] in present]
    out = [[g, m] for g, m in out if m]
    present = {g for g, _ in out}
    for _g, members in out:
        members[:] = [m for m in members if not m.startswith("@") or m[1:] in present]
    return [[g, m] for g, m in out if m]


def _license_stream(rng, groups, n=None, biased=None):
    gnames = [g for g, _ in groups]
    n = rng.randrange(1, 6) if n is None else n
    toks = []
    for _ in range(n):
        x = rng.random()
        if x < 0.30:
            toks.append(rng.choice(LICENSES) if not biased or rng.random() < 0.4 else rng.choice(biased))
        elif x < 0.45:
            toks.append("-" + (rng.choice(LICENSES) if not biased or rng.random() < 0.4 else rng.choice(biased)))
        elif x < 0.62 and gnames:
            toks.append("@" + rng.choice(gnames))
        elif x < 0.76 and gnames:
            toks.append("-@" + rng.choice(gnames))
        elif x < 0.90:
            toks.append("*")
        else:
            toks.append("-*")
    return toks


def _global_license(rng, groups):
    gnames = [g for g, _ in groups]
    x = rng.random()
    if x < 0.12:
        return None
    if x < 0.27 and "FREE" in gnames:
        return "-* @FREE"
    if x < 0.42 and "EULA" in gnames:
        return "* -@EULA"
    if x < 0.50:
        return "*"
    if x < 0.56:
        return "-*"
    return " ".join(_license_stream(rng, groups))


def gen_spec(rng, pkgs, extended, licenses_ok=False):
    """A package spec: mostly aimed at (or just beside) an existing package."""
    from ..ref.c13_visibility import split_cpv

    if pkgs and rng.random() < 0.85:
        t = rng.choice(pkgs)
        cat, name, ver, rev = split_cpv(t["cpv"])
        slot = t["slot"].split("/")[0]
    else:
        cat, name, ver, rev, slot = rng.choice(CATS), rng.choice(NAMES), rng.choice(VERSIONS), "", "0"
        if "-r" in ver:
            ver, rev = ver.split("-r")
    key = "%s/%s" % (cat, name)
    x = rng.random()
    if extended and x < 0.12:
        y = rng.random()
        if y < 0.35:
            return cat + "/*"
        if y < 0.6:
            return "*/" + name
        if y < 0.75:
            return "*/*"
        if y < 0.9:
            return cat[:2] + "*/*"
        return "%s*/%s*" % (cat[:3], name[:2])
    if x < 0.40:
        return key
    if x < 0.50:
        return "%s:%s" % (key, slot if rng.random() < 0.7 else rng.choice(["0", "1", "2"]))
    if rng.random() < 0.35:
        v = rng.choice(VERSIONS)
        ver, rev = (v.split("-r") + [""])[:2] if "-r" in v else (v, "")
    op = rng.choice(["=", "=", ">=", ">=", "<=", "<", ">", "~", "~"] + (["=*"] if rng.random() < 0.25 else []))
    if op == "~":
        s = "~%s-%s" % (key, ver)
    elif op == "=*":
        s = "=%s-%s*" % (key, ver if rng.random() < 0.6 else ver.split(".")[0])
    else:
        s = "%s%s-%s%s" % (op, key, ver, "-r" + rev if rev else "")
    if rng.random() < 0.1:
        s += ":" + slot
    return s


def _kw_tokens(rng, arch):
    x = rng.random()
    if x < 0.28:
        return []
    pool = ["~" + arch] * 3 + ["**", "*", "*", "~*", "~*", "x86", "~x86", "arm64", "~arm64", "amd64", "~amd64"]
    n = 1 if rng.random() < 0.75 else 2
    out = []
    while len(out) < n:
        t = rng.choice(pool)
        if t not in out:
            out.append(t)
    return out


def _hit_spec(rng, t, extended=True):
    """A spec that selects package t (by construction), in one of several shapes (extended: user-config globs)."""
    from ..ref.c13_visibility import split_cpv

    cat, name, ver, rev = split_cpv(t["cpv"])
    key = "%s/%s" % (cat, name)
    full = ver + ("-r" + rev if rev else "")
    return rng.choice([key, key, "=%s-%s" % (key, full), "%s:%s" % (key, t["slot"].split("/")[0]),
                       "~%s-%s" % (key, ver), ">=%s-%s" % (key, full), "<=%s-%s" % (key, full)]
                      + ([cat + "/*"] if extended else []))


def _kw_probe(rng, pkgs, arch, extended=True):
    """An accept_keywords entry aimed at one package, its tokens chosen next to that package's KEYWORDS so that the
    entry sits on a decision boundary (wildcard class present/absent, stability flipped, empty entry)."""
    t = rng.choice(pkgs)
    kws = [k for k in t["keywords"].split() if not k.startswith("-")]
    kinds = [[], [], ["~*"], ["*"], ["**"]]
    if kws:
        k = rng.choice(kws)
        kinds.append([k])
        kinds.append([k[1:] if k.startswith("~") else "~" + k])
    return (_hit_spec(rng, t, extended) + " " + " ".join(rng.choice(kinds))).rstrip()


def _lic_probe(rng, pkgs, groups):
    """A package.license entry aimed at one package: tokens over its own licenses and the groups holding them."""
    t = rng.choice(pkgs)
    names = [w for w in t["license"].split() if w not in ("||", "(", ")")]
    if not names:
        return None
    holders = [g for g, members in groups if any(n in members for n in names)]
    toks = []
    for _ in range(rng.randrange(1, 4)):
        n = rng.choice(names)
        pool = [n, n, "-" + n, "*", "-*"]
        if holders:
            g = rng.choice(holders)
            pool += ["@" + g, "@" + g, "-@" + g]
        toks.append(rng.choice(pool))
    return "%s %s" % (_hit_spec(rng, t), " ".join(toks))


def _layout(rng, lines):
    """Distribute lines over a single file or a directory of files (read in sorted order)."""
    if not lines:
        return []
    if rng.random() < 0.6:
        return [[None, lines]]
    names = ["00-first", "10-mid", "zz-last"]
    k = rng.randrange(1, 4)
    chunks = [[] for _ in range(k)]
    for ln in lines:
        chunks[rng.randrange(k)].append(ln)
    used = rng.sample(names, k)
    return [[n, c] for n, c in zip(used, chunks) if c]


def gen_config(rng, npkgs=20):
    arch = "amd64" if rng.random() < 0.75 else rng.choice(ARCHES)
    # -- repository
    keys = []
    while len(keys) < max(3, npkgs // 3):
        k = (rng.choice(CATS), rng.choice(NAMES))
        if k not in keys:
            keys.append(k)
    pkgs = []
    seen = set()
    while len(pkgs) < npkgs:
        cat, name = rng.choice(keys)
        ver = rng.choice(VERSIONS)
        cpv = "%s/%s-%s" % (cat, name, ver)
        if cpv in seen:
            if len(seen) >= len(keys) * len(VERSIONS):
                break
            continue
        seen.add(cpv)
        pkgs.append({"cpv": cpv, "slot": rng.choice(SLOTS), "keywords": _keywords(rng, arch),
                     "license": _license_expr(rng)})
    groups = _groups(rng)
    repo_masks = [gen_spec(rng, pkgs, False) for _ in range(rng.choice([0, 0, 1, 2, 3]))]
    cfg = {"arch": arch, "repo": {"license_groups": groups, "masks": repo_masks, "pkgs": pkgs,
                                  "own_licenses": rng.random() < 0.8}}

    # a fifth of the configurations has no package.accept_keywords entry anywhere (the plain ACCEPT_KEYWORDS path)
    no_kw_entries = rng.random() < 0.2

    # -- profile stack
    depth = rng.choice([1, 1, 2, 2, 3])
    nodes = []
    x = rng.random()
    if x < 0.55:
        ak = arch
    elif x < 0.65:
        ak = "%s ~%s" % (arch, arch)
    elif x < 0.70:
        ak = "~" + arch
    elif x < 0.78:
        ak = arch + " **"
    elif x < 0.84:
        ak = arch + " *"
    elif x < 0.90:
        ak = arch + " ~*"
    elif x < 0.94:
        ak = "**"
    else:
        ak = "%s %s" % (arch, rng.choice(["x86", "~x86", "arm64"]))
    prof_masks_so_far = list(repo_masks)
    prof_unmasks_so_far = []
    for d in range(depth):
        node = {"name": "p%d" % d, "make_defaults": {}}
        md = node["make_defaults"]
        if d == 0:
            md["ARCH"] = arch
            md["ACCEPT_KEYWORDS"] = ak
            gl = _global_license(rng, groups)
            if gl is not None:
                md["ACCEPT_LICENSE"] = gl
        else:
            if rng.random() < 0.25:
                md["ACCEPT_KEYWORDS"] = rng.choice(["~" + arch, "-~" + arch, "x86", "-* " + arch, "~*", "**"])
            if rng.random() < 0.3:
                md["ACCEPT_LICENSE"] = " ".join(_license_stream(rng, groups, n=rng.randrange(1, 4)))
        lines = [gen_spec(rng, pkgs, False) for _ in range(rng.choice([0, 0, 1, 2, 3]))]
        if d > 0 and prof_masks_so_far and rng.random() < 0.5:
            lines.insert(rng.randrange(len(lines) + 1), "-" + rng.choice(prof_masks_so_far))
        if d > 0 and rng.random() < 0.15:
            lines.append("-" + gen_spec(rng, pkgs, False))
        if lines:
            node["package.mask"] = lines
        prof_masks_so_far.extend(l for l in lines if not l.startswith("-"))
        ul = [gen_spec(rng, pkgs, False) for _ in range(rng.choice([0, 0, 0, 1, 2]))]
        if d > 0 and prof_unmasks_so_far and rng.random() < 0.4:
            ul.append("-" + rng.choice(prof_unmasks_so_far))
        if ul:
            node["package.unmask"] = ul
        prof_unmasks_so_far.extend(l for l in ul if not l.startswith("-"))
        if rng.random() < 0.25 and not no_kw_entries:
            node["package.accept_keywords"] = [
                (gen_spec(rng, pkgs, False) + " " + " ".join(_kw_tokens(rng, arch))).rstrip()
                for _ in range(rng.randrange(1, 3))]
        if rng.random() < 0.15 and not no_kw_entries:
            node.setdefault("package.accept_keywords", []).append(_kw_probe(rng, pkgs, arch, extended=False))
        if rng.random() < 0.08:
            node["package.keywords"] = ["%s %s" % (gen_spec(rng, pkgs, False), rng.choice([arch, "~" + arch, "x86"]))]
        nodes.append(node)
    cfg["profile"] = nodes

    # -- make.conf level
    mc = {}
    if rng.random() < 0.3:
        mc["ACCEPT_KEYWORDS"] = rng.choice(["~" + arch, "~" + arch, "**", "*", "~*", "-* " + arch, "-~" + arch,
                                             "x86 ~x86", "-* ~" + arch])
    if rng.random() < 0.4:
        mc["ACCEPT_LICENSE"] = " ".join(_license_stream(rng, groups))
    cfg["make_conf"] = mc

    # -- user configuration
    user = {}
    um = [gen_spec(rng, pkgs, True) for _ in range(rng.choice([0, 0, 1, 2, 3, 4]))]
    uu = [gen_spec(rng, pkgs, True) for _ in range(rng.choice([0, 0, 0, 1, 2, 3]))]
    if prof_masks_so_far and rng.random() < 0.3:
        uu.append(rng.choice(prof_masks_so_far))
    uk = []
    if rng.random() < 0.7 and not no_kw_entries:
        for _ in range(rng.randrange(1, 6)):
            uk.append((gen_spec(rng, pkgs, True) + " " + " ".join(_kw_tokens(rng, arch))).rstrip())
    ulic = []
    if rng.random() < 0.65:
        for _ in range(rng.randrange(1, 6)):
            spec = gen_spec(rng, pkgs, True)
            biased = None
            if rng.random() < 0.7 and pkgs:
                # aim the tokens at the licenses of a package the spec may select
                t = rng.choice(pkgs)
                biased = [w for w in t["license"].split() if w not in ("||", "(", ")")] or None
            toks = _license_stream(rng, groups, n=rng.randrange(1, 4), biased=biased)
            if rng.random() < 0.06 and toks:
                # a token repeated later in the same line
                toks.append(rng.choice(toks))
            ulic.append("%s %s" % (spec, " ".join(toks)))
    for _ in range(rng.choice([0, 1, 2, 3])):
        if no_kw_entries:
            break
        uk.insert(rng.randrange(len(uk) + 1), _kw_probe(rng, pkgs, arch))
    for _ in range(rng.choice([0, 0, 1, 2])):
        ln = _lic_probe(rng, pkgs, groups)
        if ln:
            ulic.insert(rng.randrange(len(ulic) + 1), ln)
    for name, lines in (("package.mask", um), ("package.unmask", uu), ("package.accept_keywords", uk),
                        ("package.license", ulic)):
        lay = _layout(rng, lines)
        if lay:
            user[name] = lay
    cfg["user"] = user
    return cfg
