"""Spec language for restriction trees: universes, builder (spec -> real pkgcore objects), generators.

The meaning of a spec is defined in vt/ref/c06_prop.py; this file only *constructs* things.
"""

import itertools

from ..ref import c06_prop as ref

# -- universes ---------------------------------------------------------------------------------
# "pkg": 5 independent binary attributes => the 32 packages realise every truth assignment of
#        one elementary predicate per attribute.
# "val": 32 strings "z"+subset("abcde") => every assignment of the 5 "contains letter" predicates.
LETTERS = "abcde"


def pkg_universe():
    out = []
    for cat, pkg, slot, use, ver in itertools.product(("c0", "c1"), ("p0", "p1"), ("0", "1"), ((), ("x",)), ("1", "2")):
        out.append({"category": cat, "package": pkg, "slot": slot, "use": sorted(("y",) + use), "fullver": ver})
    return out


def val_universe():
    out = []
    for bits in itertools.product((0, 1), repeat=len(LETTERS)):
        out.append("z" + "".join(c for c, b in zip(LETTERS, bits) if b))
    return out


class FakePkg:
    """Bare attribute bag handed to restriction.match (never to the reference)."""

    def __init__(self, d):
        self.category = d["category"]
        self.package = d["package"]
        self.key = d["category"] + "/" + d["package"]
        self.slot = d.get("slot", "0")
        self.subslot = self.slot
        self.use = frozenset(d.get("use", ()))
        self.iuse = frozenset(("x", "y", "q"))
        self.fullver = self.version = d.get("fullver", "1")
        self.revision = ""
        self.cpvstr = "%s-%s" % (self.key, self.fullver)

    def __repr__(self):
        return "<FakePkg %s:%s use=%s>" % (self.cpvstr, self.slot, sorted(self.use))


# -- builder -----------------------------------------------------------------------------------
class Built:
    """Real pkgcore objects for a spec + identity map object -> sub-spec (objects kept alive)."""

    def __init__(self):
        self.by_id = {}
        self.keep = []

    def remember(self, obj, spec):
        self.by_id[id(obj)] = spec
        self.keep.append(obj)
        return obj

    def spec_of(self, obj):
        return self.by_id.get(id(obj))


def build(spec, built=None):
    """Construct the pkgcore restriction described by `spec`; returns (object, Built)."""
    from pkgcore.ebuild.atom import atom
    from pkgcore.restrictions import boolean, packages, restriction, values

    b = built if built is not None else Built()
    node_cls = {"and": boolean.AndRestriction, "or": boolean.OrRestriction,
                "one": boolean.JustOneRestriction, "amo": boolean.AtMostOneOfRestriction}

    def node(kind, spec, node_type, rec):
        kids = [rec(c) for c in spec["xs"]]
        cls = node_cls[kind]
        if spec.get("late"):
            # built open, filled with add_restriction, then finalized
            # (instance caching must be off: an open node is cached by its constructor arguments alone)
            o = cls(node_type=node_type, negate=spec["neg"], finalize=False, disable_inst_caching=True)
            if kids:
                o.add_restriction(*kids)
            o.finalize()
            return o
        if spec.get("curried") and kind in ("and", "or"):
            mod = packages if node_type == restriction.package_type else values
            f = mod.AndRestriction if kind == "and" else mod.OrRestriction
            return f(*kids, negate=spec["neg"])
        return cls(*kids, node_type=node_type, negate=spec["neg"])

    def v(spec):
        k = spec["k"]
        if k == "exact":
            o = values.StrExactMatch(spec["s"], negate=spec["neg"])
        elif k == "glob":
            o = values.StrGlobMatch(spec["s"], prefix=spec["prefix"], negate=spec["neg"])
        elif k == "re":
            pat = ("^" if spec["bol"] else "") + spec["lit"] + ("$" if spec["eol"] else "")
            o = values.StrRegex(pat, match=spec["match"], negate=spec["neg"])
        elif k == "has":
            o = values.ContainmentMatch(frozenset(spec["vals"]), match_all=spec["all"], negate=spec["neg"])
        elif k == "vnot":
            o = restriction.Negate(v(spec["x"]))
        elif k == "vconst":
            o = values.AlwaysTrue if spec["val"] else values.AlwaysFalse
        elif k in ref.VNODE_KINDS:
            o = node(k[1:], spec, restriction.value_type, v)
        else:
            raise ValueError("unknown value spec %r" % (k,))
        return b.remember(o, spec)

    def p(spec):
        k = spec["k"]
        if k == "pr":
            o = packages.PackageRestriction(spec["attr"], v(spec["v"]), negate=spec["neg"])
        elif k == "not":
            o = restriction.Negate(p(spec["x"]))
        elif k == "const":
            o = packages.AlwaysTrue if spec["val"] else packages.AlwaysFalse
        elif k == "atom":
            o = atom(spec["s"])
        elif k in ref.NODE_KINDS:
            o = node(k, spec, restriction.package_type, p)
        else:
            raise ValueError("unknown package spec %r" % (k,))
        return b.remember(o, spec)

    is_pkg = spec["k"] in ("pr", "not", "const", "atom") or spec["k"] in ref.NODE_KINDS
    return (p(spec) if is_pkg else v(spec)), b


# -- size bounds (to stay clear of the combinatorial explosion of normal forms) --------------------
def dnf_bounds(spec):
    """(clauses, max clause width) upper bound of the DNF pkgcore derives."""
    k = spec["k"]
    if k in ("and", "vand"):
        if spec["neg"]:
            return max(1, len(spec["xs"])), 1
        n, w = 1, 0
        for c in spec["xs"]:
            cn, cw = dnf_bounds(c)
            n *= cn
            w += cw
        return n, max(w, 1)
    if k in ("or", "vor"):
        n, w = (1, len(spec["xs"])) if spec["neg"] else (0, 1)
        for c in spec["xs"]:
            cn, cw = dnf_bounds(c)
            n += cn
            w = max(w, cw)
        return max(n, 1), max(w, 1)
    if k == "atom":
        return 1, 6
    return 1, 1


def cnf_bound(spec):
    k = spec["k"]
    if k in ("and", "vand") and not spec["neg"]:
        return sum(cnf_bound(c) for c in spec["xs"]) or 1
    if k in ("or", "vor") and not spec["neg"]:
        n = 1
        for c in spec["xs"]:
            cn, cw = dnf_bounds(c)
            n *= max(cw, 1) ** cn
            if n > 10 ** 9:
                return n
        return n
    if k == "atom":
        return 6
    return 1


# -- random generators -----------------------------------------------------------------------------
ATTR_STRINGS = {
    # attr: (values occurring in the pkg universe, other strings)
    "category": (("c0", "c1"), ("c", "0", "1", "c1x", "zz")),
    "package": (("p0", "p1"), ("p", "0", "1", "p1x", "zz")),
    "slot": (("0", "1"), ("", "2", "01")),
    "fullver": (("1", "2"), ("", "3", "12")),
}


def gen_value_leaf(rng, strings, allow_const=True):
    """A random elementary string matcher over the given candidate strings."""
    s = rng.choice(strings)
    neg = rng.random() < 0.3
    r = rng.random()
    if r < 0.35:
        return {"k": "exact", "s": s, "neg": neg}
    if r < 0.55:
        return {"k": "glob", "s": s, "prefix": rng.random() < 0.6, "neg": neg}
    if r < 0.75:
        return {"k": "re", "lit": s, "bol": rng.random() < 0.3, "eol": rng.random() < 0.3,
                "match": rng.random() < 0.4, "neg": neg}
    if r < 0.95 or not allow_const:
        if not s:
            s = strings[0] or "q"
        return {"k": "has", "vals": [s], "all": False, "neg": neg}
    return {"k": "vconst", "val": rng.random() < 0.5}


def gen_v(rng, strings, depth, p_leaf=0.5):
    """Random value-level tree."""
    if depth <= 0 or rng.random() < p_leaf:
        leaf = gen_value_leaf(rng, strings)
        if rng.random() < 0.1:
            leaf = {"k": "vnot", "x": leaf}
        return leaf
    kind = rng.choice(["vand", "vand", "vand", "vor", "vor", "vor", "vone", "vone", "vamo", "vamo"])
    n = rng.choice([0, 1, 1, 2, 2, 2, 2, 2, 3, 3, 3]) if rng.random() < 0.3 else rng.choice([2, 2, 3])
    spec = {"k": kind, "neg": rng.random() < 0.35, "xs": [gen_v(rng, strings, depth - 1, p_leaf + 0.12) for _ in range(n)]}
    _variants(rng, spec)
    if rng.random() < 0.08:
        spec = {"k": "vnot", "x": spec}
    return spec


def _variants(rng, spec):
    r = rng.random()
    if r < 0.12:
        spec["late"] = True
    elif r < 0.3 and spec["k"] in ("and", "or", "vand", "vor"):
        spec["curried"] = True


ATOMS = ["c1/p1", "c0/p1", "=c1/p1-2", ">=c1/p0-2", "<c1/p1-2", "<=c0/p0-1", ">c1/p1-1", "c1/p1:1", "c1/p0[x]",
         "c1/p1[-x]", ">=c0/p1-1:0[x]", "c1/p1[x,y]", "zz/p1"]


def gen_pkg_leaf(rng):
    r = rng.random()
    if r < 0.12:
        return {"k": "atom", "s": rng.choice(ATOMS)}
    if r < 0.15:
        return {"k": "const", "val": rng.random() < 0.5}
    if r < 0.30:
        # USE leaf on a collection attribute
        vals = rng.choice([["x"], ["x"], ["y"], ["q"], ["x", "y"], ["x", "q"], ["q", "r"]])
        return {"k": "pr", "attr": "use", "neg": rng.random() < 0.25,
                "v": {"k": "has", "vals": vals, "all": rng.random() < 0.5, "neg": rng.random() < 0.3}}
    attr = rng.choice(["category", "category", "package", "package", "slot", "fullver"])
    occ, other = ATTR_STRINGS[attr]
    strings = list(occ) * 3 + list(other)
    if rng.random() < 0.18:
        v = gen_v(rng, strings, 2, 0.3)
    else:
        v = gen_value_leaf(rng, strings)
    return {"k": "pr", "attr": attr, "neg": rng.random() < 0.25, "v": v}


def gen_p(rng, depth, p_leaf=0.15):
    """Random package-level tree of nesting depth <= depth."""
    if depth <= 0 or rng.random() < p_leaf:
        leaf = gen_pkg_leaf(rng)
        if rng.random() < 0.1:
            leaf = {"k": "not", "x": leaf}
        return leaf
    kind = rng.choice(["and", "and", "and", "or", "or", "or", "one", "one", "amo", "amo"])
    n = rng.choice([0, 1, 1, 2, 2, 2, 2, 2, 3, 3, 3]) if rng.random() < 0.3 else rng.choice([2, 2, 3])
    spec = {"k": kind, "neg": rng.random() < 0.35, "xs": [gen_p(rng, depth - 1, p_leaf + 0.17) for _ in range(n)]}
    _variants(rng, spec)
    if rng.random() < 0.08:
        spec = {"k": "not", "x": spec}
    return spec


VAL_STRINGS = list(LETTERS) * 3 + ["z", "za", "ab", "e", "q", "bc", "zabcde"]


def gen_val_tree(rng, depth):
    kind = rng.choice(["vand", "vand", "vor", "vor", "vone", "vamo"])
    n = rng.choice([1, 2, 2, 2, 3, 3])
    spec = {"k": kind, "neg": rng.random() < 0.35, "xs": [gen_v(rng, VAL_STRINGS, depth - 1, 0.2) for _ in range(n)]}
    _variants(rng, spec)
    return spec


# -- exhaustive small trees ----------------------------------------------------------------------
# leaves: one elementary predicate per attribute (variables 0..3) in plain and negated spelling
SMALL_VARS = [
    {"k": "pr", "attr": "category", "neg": False, "v": {"k": "exact", "s": "c1", "neg": False}},
    {"k": "pr", "attr": "package", "neg": False, "v": {"k": "glob", "s": "p1", "prefix": True, "neg": False}},
    {"k": "pr", "attr": "use", "neg": False, "v": {"k": "has", "vals": ["x"], "all": False, "neg": False}},
    {"k": "pr", "attr": "slot", "neg": False, "v": {"k": "exact", "s": "1", "neg": False}},
]
OPS = [(k, n) for k in ("and", "or", "one", "amo") for n in (False, True)]


def _small_leaf(var, neg):
    s = dict(SMALL_VARS[var])
    if neg:
        s["neg"] = True
    return s


def _shapes(max_leaves, max_kids):
    """Kid shape sequences of a root: each kid is 'L' (leaf) or an int k>=0 (inner node with k leaf kids);
    total leaves <= max_leaves."""
    out = []

    def rec(prefix, leaves):
        if prefix:
            out.append(tuple(prefix))
        if len(prefix) >= max_kids:
            return
        if leaves < max_leaves:
            rec(prefix + ["L"], leaves + 1)
        for k in range(0, max_leaves - leaves + 1):
            if k == 0 and leaves >= max_leaves:
                continue
            rec(prefix + [k], leaves + k)

    rec([], 0)
    out.append(())
    return out


def _restricted_growth(n, maxvars):
    """Variable assignments of n leaves up to renaming (first occurrences in increasing order)."""
    def rec(prefix, used):
        if len(prefix) == n:
            yield tuple(prefix)
            return
        for v in range(min(used + 1, maxvars)):
            yield from rec(prefix + [v], max(used, v + 1))
    return rec([], 0)


def enumerate_small(max_leaves=4, max_kids=3, shard=0, nshards=1, stride=1):
    """All trees of depth <= 2 with <= max_leaves leaves over <= 4 variables (up to variable renaming),
    every node kind x negate, every leaf polarity, in a fixed order.  Yields (index, spec) for the
    indices with index % nshards == shard and (index // nshards) % stride == 0."""
    idx = -1
    for shape in _shapes(max_leaves, max_kids):
        nleaves = sum(1 if s == "L" else s for s in shape)
        inner = [s for s in shape if s != "L"]
        rgs = list(_restricted_growth(nleaves, len(SMALL_VARS)))
        negss = list(itertools.product((False, True), repeat=nleaves))
        for root in OPS:
            for inner_ops in itertools.product(OPS, repeat=len(inner)):
                for vars_ in rgs:
                    for negs in negss:
                        idx += 1
                        if idx % nshards != shard or (idx // nshards) % stride:
                            continue
                        it = iter(zip(vars_, negs))
                        ops = iter(inner_ops)
                        xs = []
                        for s in shape:
                            if s == "L":
                                xs.append(_small_leaf(*next(it)))
                            else:
                                k, n = next(ops)
                                xs.append({"k": k, "neg": n, "xs": [_small_leaf(*next(it)) for _ in range(s)]})
                        yield idx, {"k": root[0], "neg": root[1], "xs": xs}
