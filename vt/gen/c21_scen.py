"""Random config-protection scenarios for C21 (plans for vt/gen/c20_world.py, plus a structured "cfg" record)."""

PROTECT_POOL = ["/etc", "/opt/vtapp/cfg", "/usr/share/vtcfg", "/var/lib/vtcfg", "/etc/vtconf.d"]
MASK_POOL = ["/etc/vtmasked", "/etc/vtconf.d/masked", "/opt/vtapp/cfg/cache", "/usr/share/vtcfg/auto"]
IGNORE_GLOBS = ["/etc/*.vtcache", "*/vtignored.conf", "/opt/vtapp/cfg/gen_*", "/usr/share/vtcfg/gen/*"]
IGNORE_DIRS = ["/etc/vtign", "/opt/vtapp/cfg/vtign"]
PLAIN_DIRS = ["/usr/share/vtplain", "/opt/vtapp/data"]


def F(data, mode=0o644):
    return {"t": "f", "d": data, "m": mode}


def D(mode=0o755):
    return {"t": "d", "m": mode}


def L(to):
    return {"t": "l", "to": to}


def parents(rel):
    out = []
    while "/" in rel:
        rel = rel.rsplit("/", 1)[0]
        out.append(rel)
    return out


def envd_text(cfg):
    """env.d files for the structured settings."""
    files = {}
    prot = list(cfg["protect_spelled"])
    half = len(prot) // 2 if cfg.get("split_protect") else len(prot)
    lines = []
    if prot[:half]:
        lines.append('CONFIG_PROTECT="%s"' % " ".join(prot[:half]))
    if cfg["mask"]:
        lines.append('CONFIG_PROTECT_MASK="%s"' % " ".join(cfg["mask_spelled"]))
    files["10vtbase"] = "\n".join(lines) + "\n"
    lines = []
    if prot[half:]:
        lines.append('CONFIG_PROTECT="%s"' % " ".join(prot[half:]))
    if cfg["ignore"]:
        if cfg.get("ignore_declared_list"):
            lines.append('SPACE_SEPARATED="COLLISION_IGNORE"')
        lines.append('COLLISION_IGNORE="%s"' % " ".join(cfg["ignore"]))
    if lines:
        files["50vtextra"] = "\n".join(lines) + "\n"
    return files


class Gen:
    def __init__(self, rng):
        self.rng = rng
        self.n = 0

    def name(self, stem="vt_c", ext=".conf"):
        self.n += 1
        return "%s%d%s" % (stem, self.n, ext)

    def spell(self, d):
        r = self.rng.random()
        if r < 0.15:
            return d + "/"
        if r < 0.22:
            if d.count("/") > 1:
                i = d.index("/", 1)
                return d[:i] + "/" + d[i:]
            return d
        return d

    def plan(self, mode=None, style=None, clean=None, nmask=None):
        rng = self.rng
        mode = mode or rng.choice(["install", "install", "replace", "replace", "uninstall"])
        style = style or rng.choice(["chroot", "chroot", "chroot", "nested"])
        if clean is None:
            clean = rng.random() < 0.6
        protect = [d for d in PROTECT_POOL if rng.random() < 0.55]
        if rng.random() < 0.85 and "/etc" not in protect:
            protect.insert(0, "/etc")
        if not protect:
            protect = ["/opt/vtapp/cfg"]
        if nmask is None:
            mask = [d for d in MASK_POOL if rng.random() < 0.45]
        else:
            # a fixed number of distinct mask entries (the filter has separate code for 0 / 1 / several)
            mask = rng.sample(MASK_POOL, min(nmask, len(MASK_POOL)))
            for m in mask:
                owner = [d for d in PROTECT_POOL if m.startswith(d + "/")][0]
                if owner not in protect and rng.random() < 0.9:
                    protect.append(owner)
        ignore = []
        declared = False
        if not clean or rng.random() < 0.25:
            k = rng.random()
            ignore = [g for g in IGNORE_GLOBS if rng.random() < 0.5] or [IGNORE_GLOBS[0]]
            if clean:
                declared = True  # the only way an env.d COLLISION_IGNORE becomes a list
            else:
                declared = k < 0.5
                if rng.random() < 0.5:
                    ignore.append(rng.choice(IGNORE_DIRS))
                    rng.shuffle(ignore)
        extra_protects, extra_disables = [], []
        if rng.random() < 0.3:
            extra_protects = ["/var/lib/vtxcfg"]
            if rng.random() < 0.5:
                extra_disables = ["/var/lib/vtxcfg/tmp"]
        cfg = {"protect": protect, "mask": mask, "ignore": ignore, "ignore_declared_list": declared,
               "extra_protects": extra_protects, "extra_disables": extra_disables,
               "split_protect": rng.random() < 0.4}
        cfg["protect_spelled"] = [self.spell(d) for d in protect]
        cfg["mask_spelled"] = [self.spell(d) for d in mask]
        live = {"etc": D(), "etc/env.d": D(), "usr": D(), "var": D()}
        for fn, text in envd_text(cfg).items():
            live["etc/env.d/" + fn] = F(text)
        for d in IGNORE_DIRS:
            # directory entries of COLLISION_IGNORE name existing directories
            if d in ignore or rng.random() < 0.3:
                live[d.lstrip("/")] = D()
        dirs = set()
        for d in protect + mask + extra_protects + extra_disables + PLAIN_DIRS + ["/etc/vtconf.d"]:
            if rng.random() < 0.8:
                dirs.add(d.lstrip("/"))
        for d in IGNORE_DIRS:
            if d.lstrip("/") in live:
                dirs.add(d.lstrip("/"))
        if "/usr/share/vtcfg/gen/*" in ignore:
            dirs.add("usr/share/vtcfg/gen")
        dirs.add("etc")
        if "/etc/*.vtcache" in ignore and "/usr/share/vtcfg" in protect and rng.random() < 0.5:
            # a protected path that merely *contains* the text of a root-anchored ignore pattern
            dirs.add("usr/share/vtcfg/etc")
        old = {} if mode in ("uninstall", "replace") else None
        new = {} if mode in ("install", "replace") else None
        nonfile_done = False
        jobs = []
        for d in sorted(dirs):
            jobs.extend((d, None) for _ in range(rng.choice([0, 1, 1, 2, 3])))
        # neighbours whose names merely *extend* a masked directory's name (app.conf, appdata/x, app-extra/x next
        # to a masked app/): not under the mask, hence still protected; always edited on disk
        for m in mask:
            if rng.random() < 0.85:
                mrel = m.lstrip("/")
                picks = [(mrel.rsplit("/", 1)[0], mrel.rsplit("/", 1)[1] + ".conf"), (mrel + "data", None),
                         (mrel + "-extra", None)]
                rng.shuffle(picks)
                jobs.extend((d, f, True) for d, f in picks[: rng.choice([1, 2, 2, 3])])
        for job in jobs:
            d, forced_name, sibling = (job + (False,))[:3]
            if True:
                r = rng.random()
                if d == "usr/share/vtcfg/etc":
                    r = 0.0
                if forced_name is not None:
                    fname = forced_name
                elif sibling:
                    fname = self.name()
                elif r < 0.12:
                    fname = self.name("vt_c", ".vtcache")
                elif r < 0.2:
                    fname = "vtignored.conf"
                elif r < 0.28:
                    fname = self.name("gen_", ".conf")
                else:
                    fname = self.name()
                rel = d + "/" + fname
                if rel in live:
                    continue
                incoming = "incoming %s v%d\n" % (fname, rng.randrange(3))
                recorded = "recorded %s v%d\n" % (fname, rng.randrange(3))
                in_old = old is not None and (new is None or rng.random() < 0.6)
                in_new = new is not None and (old is None or not in_old or rng.random() < 0.7)
                # state of the file in the live root
                st = rng.choices(["absent", "identical", "differs", "differs-same-size", "as-recorded"],
                                 [1, 2, 5, 1, 3 if in_old else 0])[0]
                if in_old and not in_new and st in ("absent", "identical"):
                    st = rng.choice(["differs", "as-recorded"])
                if sibling:
                    st = rng.choice(["differs", "differs", "differs-same-size"])
                if st == "identical":
                    cur = incoming if in_new else recorded
                elif st == "differs":
                    cur = "edited by the admin %d\n" % rng.randrange(1000)
                elif st == "differs-same-size":
                    base_txt = incoming if in_new else recorded
                    cur = base_txt[:-2] + ("X\n" if not base_txt.endswith("X\n") else "Y\n")
                elif st == "as-recorded":
                    cur = recorded
                else:
                    cur = None
                if cur is not None:
                    live[rel] = F(cur, rng.choice([0o644, 0o600, 0o640]))
                if in_old:
                    old[rel] = F(recorded)
                if in_new:
                    if (not clean) and (not nonfile_done) and (not sibling) and cur is not None and rng.random() < 0.08:
                        new[rel] = L("vt_elsewhere.conf")
                        nonfile_done = True
                    else:
                        new[rel] = F(incoming, rng.choice([0o644, 0o600]))
                # pending updates beside it
                if cur is not None and rng.random() < 0.55:
                    nums = sorted(rng.sample([0, 1, 2, 3, 4, 5, 7, 8, 41, 9997], rng.randrange(1, 4)))
                    ident_at = rng.choice(nums) if (in_new and rng.random() < 0.45) else None
                    for k in nums:
                        txt = incoming if k == ident_at else "pending update %d of %s\n" % (k, fname)
                        live["%s/._cfg%04d_%s" % (d, k, fname)] = F(txt)
                if cur is not None and rng.random() < 0.2:
                    bad = rng.choice(["._cfg12_%s", "._cfgabcd_%s", "._cfg0001%s", "._cfg0002_other_%s", "._cfg_%s"]) % fname
                    live[d + "/" + bad] = F("malformed or foreign pending name\n")
        for img in (old, new):
            if img is None:
                continue
            for rel in list(img):
                for p in parents(rel):
                    img.setdefault(p, D())
            if not img:
                img["etc"] = D()
        for rel in list(live):
            for p in parents(rel):
                live.setdefault(p, D())
        trig = []
        if mode in ("install", "replace"):
            trig += ["cfg_install", "merge"]
        if mode in ("uninstall", "replace"):
            trig += ["cfg_uninstall", "unmerge", "base_protect"]
        return {"style": style, "mode": mode, "live": live, "old": old, "new": new, "cfg": cfg, "triggers": trig,
                "extra_protects": extra_protects, "extra_disables": extra_disables,
                "snap_after": ["post_merge"] if mode == "replace" else []}
