"""C11 Stacked USE configuration applies entries in order (history property).

Layer 1: random programs over a register file of real ChunkedDataDict / PayloadDict instances (add_bare_global,
add_global, add, update_from_stream, merge, freeze, clone, clone(unfreeze), optimize(cache), render_to_dict); after EVERY
step every live instance is read (pull_data) for 5 packages x 2 initial sets and compared with the ordered fold of the
entries that instance was fed (vt/ref/c11_use_stack.py).

Layer 2: random on-disk profile stacks (make.defaults USE, package.use, use.mask/force, package.use.mask/force in 1-3
stacked profiles) + user package.use files (*/*, cat/*, atoms, -*, `FOO: -* x` groups) under a real
pkgcore.ebuild.domain.domain; domain.get_package_use_unconfigured(pkg, for_metadata=False) is compared, set by set
(enabled / masked / forced), with the fold of the lines as parsed by an independent parser.
"""

import json

from ..gen import c11_cfg as gc
from ..gen import c11_hist as gh
from ..ref import c11_mech_model as mm
from ..ref import c11_use_stack as ref

ID = "C11"
LEVEL = "exploration"
RULE = (
    "layer 1: random programs (3-12 steps, <=4 instances) of add_bare_global/add_global/add/update_from_stream/merge/freeze/"
    "clone/clone(unfreeze)/optimize(cache|None)/render_to_dict on real ChunkedDataDict (and a few PayloadDict) instances; "
    "entries are global, category-glob, cat/pkg, =cat/pkg-ver and cat/pkg:slot over flags {a,b,c,foo_x,foo_y,bar_z} with "
    "-* and -foo_*/-bar_* resets; after every step every instance is read for 5 packages (matching / not matching / key "
    "never named) x 2 pre_defaults sets and compared with the left-to-right fold of the entries fed to that instance "
    "(merge = concatenation, clone = copy). Layer 2: random profile stacks (1-3 nodes) + user package.use on disk, real "
    "domain, get_package_use_unconfigured for 4 packages x {enabled, masked, forced} against the fold of the file lines in "
    "stacking order (IUSE defaults, make.defaults USE, profile package.use parent->child, user package.use in file order; "
    "use.mask/package.use.mask resp. force per node, parent->child, ARCH forced last). One evaluation = one read. A read is "
    "NON-TRIVIAL when at least two applicable entries exist and folding them in the opposite order gives a different set "
    "(order really matters); distinct = distinct (applicable entry sequence, initial set)."
)
ASSUMPTIONS = [
    "one entry is the (neg, pos) pair the API takes: negatives (incl. -* / -PREFIX_*) are applied before positives; entries with "
    "the same flag in neg and pos are not generated",
    "a frozen instance and an instance that went through optimize() are never mutated (mutating the latter raises "
    "AttributeError because its lists became tuples: a crash, not a wrong flag set) -- histories continue on clones",
    "flags that start with PREFIX but not PREFIX_ are not generated (the statement does not say whether -foo_* clears 'foobar')",
    "PayloadDict token payloads only know -flag and -*: no PREFIX_* resets are generated for it",
    "restriction matching (atom.match) itself is trusted here (C03/C04 judge it); applicability in the oracle is computed from "
    "the entry spec: key equality, exact version, slot, category",
    "vt/ref/c11_mech_model.py is used only to attribute an already detected violation to a recorded mechanism, never to accept a read",
    "layer 2: global USE is given only in the root profile's make.defaults (how a child's make.defaults USE or make.conf USE "
    "interleaves with a parent's package.use is not fixed by the statement); USE_EXPAND variables themselves are never set; "
    "lines that set and unset the same flag, clear a prefix set earlier in the same line outside its group, or (profile files) "
    "carry -* anywhere but first are not judged; stable (use.stable*, package.use.stable*) variants are not generated; only "
    "for_metadata=False (the three raw sets) is judged",
]
SHARDS = {"quick": 4, "thorough": 16}
TIMEOUT = {"quick": 240, "thorough": 1800}
MIN_EVALS = 200000
REQUIRED_COUNTERS = ("l1_reads", "l1_reads_nontrivial", "l1_reads_reset_after_add", "l1_reads_after_optimize",
                     "l1_reads_after_merge", "l1_reads_on_clone", "l1_reads_after_freeze", "l1_reads_global_after_specific",
                     "l2_reads_enabled", "l2_reads_masked", "l2_reads_forced", "l2_reads_nontrivial")
TECHNIQUE = "history monitoring of the real containers and of a real domain over on-disk profiles against an ordered-fold reference model"

PD_CRASH = "payloaddict-chunk-helpers-crash"
PD_LOOKUP = "payloaddict-lookup-key-mismatch"


# ----------------------------------------------------------------------------------------------- real-code driver
class Machine:
    """Drives the real classes."""

    def __init__(self):
        from pkgcore.ebuild import atom as atom_mod
        from pkgcore.ebuild import misc
        from pkgcore.restrictions import packages
        from pkgcore.test.misc import FakePkg
        from pkgcore.util.parserestrict import parse_match

        self.misc = misc
        self.atom = atom_mod.atom
        self.AlwaysTrue = packages.AlwaysTrue
        self.parse_match = parse_match
        self.FakePkg = FakePkg
        self._pkgs = {}
        self._restr = {}

    def pkg(self, p):
        k = (p["cpv"], p["slot"])
        o = self._pkgs.get(k)
        if o is None:
            o = self._pkgs[k] = self.FakePkg(p["cpv"], slot=p["slot"])
        return o

    def restr(self, r):
        o = self._restr.get(r)
        if o is None:
            if r == "*":
                o = self.AlwaysTrue
            elif r.endswith("/*"):
                o = self.parse_match(r)
            else:
                o = self.atom(r)
            self._restr[r] = o
        return o

    def item(self, kls, e):
        r = self.restr(e["r"])
        if kls == "P":
            return self.misc.restrict_payload(r, tuple(["-" + n for n in e["neg"]] + list(e["pos"])))
        return self.misc.chunked_data(r, tuple(e["neg"]), tuple(e["pos"]))

    def start(self):
        return {"regs": {}, "kls": {}, "cache": {}}

    def step(self, s, st):
        regs, kls = s["regs"], s["kls"]
        op, v = st["op"], st["v"]
        if op == "new":
            kls[v] = st["kls"]
            regs[v] = self.misc.PayloadDict() if st["kls"] == "P" else self.misc.ChunkedDataDict()
        elif op == "bare":
            if kls[v] == "P":
                regs[v].add_bare_global(tuple(["-" + n for n in st["neg"]] + list(st["pos"])))
            else:
                regs[v].add_bare_global(tuple(st["neg"]), tuple(st["pos"]))
        elif op == "glob":
            regs[v].add_global(self.item(kls[v], st["e"]))
        elif op == "add":
            regs[v].add(self.item(kls[v], st["e"]))
        elif op == "stream":
            regs[v].update_from_stream(iter([self.item(kls[v], e) for e in st["es"]]))
        elif op == "pstream":
            from itertools import chain

            groups = {}
            for e in st["es"]:
                it = self.item("C", e)
                groups.setdefault(it.key.key, []).append(it)
            built = {k: self.misc._build_cp_atom_payload(g, self.atom(k)) for k, g in groups.items()}
            regs[v].update_from_stream(chain.from_iterable(built.values()))
        elif op == "merge":
            regs[v].merge(regs[st["w"]])
        elif op == "freeze":
            regs[v].freeze()
        elif op == "clone":
            kls[st["to"]] = kls[v]
            regs[st["to"]] = regs[v].clone(unfreeze=True) if st["unfreeze"] else regs[v].clone()
        elif op == "optimize":
            regs[v].optimize(cache=s["cache"] if st["cache"] else None)
        elif op == "render":
            regs[v].render_to_dict()
        else:
            raise ValueError(op)

    def run(self, prog):
        s = self.start()
        for st in prog:
            self.step(s, st)
        return s["regs"]

    def read(self, obj, p, pre):
        return set(obj.pull_data(self.pkg(p), pre_defaults=tuple(pre)))


def observe(m, prog, v, p, pre):
    """(outcome, value): ("set", flags) or ("exc", "Type: text") for the read of register v after prog."""
    try:
        regs = m.run(prog)
        return "set", m.read(regs[v], p, pre)
    except Exception as e:  # noqa: BLE001 - any failure of the real code is an observation
        return "exc", "%s: %s" % (type(e).__name__, e)


def kls_of(prog, v):
    k = {}
    for st in prog:
        if st["op"] == "new":
            k[st["v"]] = st["kls"]
        elif st["op"] == "clone":
            k[st["to"]] = k.get(st["v"])
    return k.get(v)


# ----------------------------------------------------------------------------------------------- classification
def explain_witness(w):
    """-> list of recorded mechanisms that (together, minimally) reproduce the impl answer, else None."""
    prog, v, p, pre = w["prog"], w["v"], w["pkg"], w["pre"]
    kls = kls_of(prog, v)
    if kls == "P":
        if w.get("outcome") == "exc":
            # PayloadDict reuses _expand_globals/_build_cp_atom_payload/optimize which read .key/.neg/.pos of chunked_data
            if "restrict_data" in w["impl"] and "has no attribute" in w["impl"] and w["impl"].startswith("AttributeError"):
                return [PD_CRASH]
            return None
        # specific entries are filed under the str key but looked up under atom(key): none of them is ever applied,
        # and no global entry can exist (it would have crashed): the answer is the untouched initial set
        log = gh.shadow_logs(prog)[v]
        if set(w["impl"]) == set(pre) and all(mm.cp_of(e["r"]) is not None for e in log):
            return [PD_LOOKUP]
        return None
    if w.get("outcome") == "exc":
        return None
    if any(kls_of(prog, st["v"]) == "P" for st in prog if st["op"] == "new"):
        return None
    return mm.explain(prog, v, p, pre, w["impl"])


def classify(w):
    if w.get("layer") == 2:
        return classify_l2(w)
    if "prog" not in w:
        return None
    s = explain_witness(w)
    if not s:
        return None
    return s[0]


def classify_l2(w):
    """Layer-2 violations are attributed through the same mechanistic model: the container operations the profile/domain code
    performs for this configuration are written down as a layer-1 program; the attribution is accepted only if that program,
    run on the REAL containers, reproduces the domain's answer (so the mapping itself is checked)."""
    if w.get("outcome") == "exc" or "cfg" not in w:
        return None
    try:
        ents = l2_entries(w["cfg"])
        if ents["ambiguous"]:
            return None
        prog, v = l2_program(w["cfg"], ents, w["which"])
        pre = l2_pre(w["pkg"]) if w["which"] == "enabled" else []
        p = {"cpv": w["pkg"]["cpv"], "slot": w["pkg"]["slot"]}
        m = Machine()
        if m.read(m.run(prog)[v], p, pre) != set(w["impl"]):
            return None
        s = mm.explain(prog, v, p, pre, w["impl"])
    except Exception:  # noqa: BLE001
        return None
    return s[0] if s else None


# ----------------------------------------------------------------------------------------------- layer 1
def make_witness(m, prog, v, p, pre):
    """Materialise the observation of (prog, v, p, pre) on the real code; None when it agrees with the fold."""
    if v not in gh.shadow_logs(prog):
        return None
    exp = ref.fold(gh.shadow_logs(prog)[v], p, pre)
    outcome, val = observe(m, prog, v, p, pre)
    if outcome == "set" and val == exp:
        return None
    return {
        "layer": 1, "prog": prog, "v": v, "pkg": p, "pre": list(pre), "outcome": outcome,
        "impl": sorted(val) if outcome == "set" else val, "expected": sorted(exp),
    }


def shape(prog):
    return " ".join(st["op"] for st in prog)


def report(ctx, m, prog, v, p, pre, seen):
    """Record the violation observed for (prog, v, p, pre); the first few per mechanism are minimised first."""
    w = make_witness(m, prog, v, p, pre)
    if w is None:
        ctx.note("violation vanished on re-execution (non-deterministic?): %s" % json.dumps(prog)[:300])
        ctx.violation("not-reproducible", {"layer": 1, "prog": prog, "v": v, "pkg": p, "pre": list(pre)})
        return None
    s = explain_witness(w)
    tag = "+".join(s) if s else "unexplained"
    seen[tag] = seen.get(tag, 0) + 1
    if s and len(s) > 1:
        ctx.count("l1_multi_mechanism_witnesses")
    if seen[tag] <= (3 if s else 6):
        def fails(pr, q):
            w2 = make_witness(m, pr, v, p, q)
            if w2 is None or w2["outcome"] != w["outcome"]:
                return False
            return explain_witness(w2) == s

        mp, mq = gh.minimise(prog, pre, fails, max_runs=400)
        w = make_witness(m, mp, v, p, mq) or w
        ctx.count("l1_witnesses_minimised")
    w["explained_by"] = s
    w["rule"] = ("exception" if w["outcome"] == "exc" else "wrong-set") + (":" + shape(w["prog"]) if not s else "")
    ctx.violation("read-differs-from-ordered-fold" if w["outcome"] == "set" else "exception", w)
    return s


def nontrivial_key(log, p, pre, exp):
    app = [e for e in log if ref.applies(e["r"], p)]
    if len(app) < 2:
        return None
    if ref.fold(list(reversed(app)), p, pre) == exp:
        return None
    return json.dumps([[e["r"], e["neg"], e["pos"]] for e in app] + [list(pre)])


def features(log, p):
    """(reset after an add, global after specific) among the applicable entries."""
    seen_add = seen_spec = False
    ra = gs = False
    for e in log:
        if not ref.applies(e["r"], p):
            continue
        if ref.has_reset(e) and seen_add:
            ra = True
        if e["r"] in ("*", "c/*"):
            if seen_spec:
                gs = True
        else:
            seen_spec = True
        if e["pos"]:
            seen_add = True
    return ra, gs


def layer1(ctx, m, n_hist):
    rng = ctx.rng
    seen = {}
    for h in range(n_hist):
        if h % 64 == 0 and ctx.out_of_time(30):
            ctx.note("layer 1 stopped early by the soft deadline after %d histories" % h)
            break
        prog = gh.gen_program(rng, max_steps=12, p_payload=0.04)
        pres = [[], sorted(rng.sample(gh.FLAGS, rng.randint(1, 3)))]
        ctx.count("l1_histories")
        if h < 2:
            ctx.sample({"layer": 1, "program": prog, "pre_defaults": pres})
        s = m.start()
        payload = prog[0]["kls"] == "P"
        model = None if payload else mm.Runner(mm.MECHS)
        logs = {}
        lineage = {}  # register -> set of structural ops in its past
        reported = stop = False
        for i, st in enumerate(prog):
            if stop:
                break
            op, v = st["op"], st["v"]
            ctx.count("l1_op_" + op)
            try:
                m.step(s, st)
            except Exception:  # noqa: BLE001
                ctx.evaluated()
                ctx.count("l1_step_exceptions")
                report(ctx, m, prog[: i + 1], st.get("to", v), gh.PKGS[0], pres[0], seen)
                break
            if model is not None:
                model.step(st)
            # shadow log
            if op == "new":
                logs[v] = []
                lineage[v] = set()
            elif op == "merge":
                logs[v] = logs[v] + logs[st["w"]]
                lineage[v] = lineage[v] | lineage[st["w"]] | {"merge"}
            elif op == "clone":
                logs[st["to"]] = list(logs[v])
                lineage[st["to"]] = lineage[v] | {"clone"}
            elif op in ("freeze", "optimize"):
                lineage[v] = lineage[v] | {op}
            else:
                logs[v] = logs[v] + gh.entries_of(st)
            touched = {v, st.get("to", v)}
            for r in sorted(s["regs"]):
                obj = s["regs"][r]
                for p in gh.PKGS:
                    for pre in pres:
                        exp = ref.fold(logs[r], p, pre)
                        try:
                            got = m.read(obj, p, pre)
                        except Exception:  # noqa: BLE001
                            got = None
                        ctx.evaluated()
                        ctx.count("l1_reads")
                        if r in touched:
                            k = nontrivial_key(logs[r], p, pre, exp)
                            if k is not None:
                                ctx.nontrivial(k)
                                ctx.count("l1_reads_nontrivial")
                                ra, gs = features(logs[r], p)
                                if ra:
                                    ctx.count("l1_reads_reset_after_add")
                                if gs:
                                    ctx.count("l1_reads_global_after_specific")
                                for f in lineage[r]:
                                    ctx.count("l1_reads_after_" + f if f != "clone" else "l1_reads_on_clone")
                        if got == exp:
                            continue
                        ctx.count("l1_reads_differing")
                        if reported:
                            # later reads of a history that already produced a witness: recorded individually only when the
                            # recorded mechanisms (all together) do not reproduce them
                            if model is not None and got is not None and model.regs[r].read(p, pre) == got:
                                ctx.count("l1_followup_reads_explained_by_recorded_mechanisms")
                                continue
                        why = report(ctx, m, prog[: i + 1], r, p, pre, seen)
                        reported = True
                        if payload or not why:
                            # nothing more to learn from this history (no model for PayloadDict / already unexplained)
                            stop = True
                            break
                    if stop:
                        break
                if stop:
                    break



# ----------------------------------------------------------------------------------------------- layer 2
WHICH = ("enabled", "masked", "forced")


def l2_entries(cfg):
    """Ordered entry lists the configuration files spell out (independent parser, vt/ref/c11_use_stack.py)."""
    amb = False
    out = {"use": [], "nodes": [], "user": []}
    for t in cfg["use"]:
        out["use"].append({"r": "*", "neg": [t[1:]], "pos": []} if t.startswith("-") else {"r": "*", "neg": [], "pos": [t]})
    for node in cfg["profiles"]:
        n = {}
        for fname in ("package.use", "package.use.mask", "package.use.force"):
            n[fname] = []
            for a, toks in node.get(fname, []):
                e, a2 = ref.line_entry(a, toks)
                amb = amb or a2 or "-*" in toks[1:]
                n[fname].append(e)
        for fname in ("use.mask", "use.force"):
            toks = node.get(fname, [])
            e, a2 = ref.line_entry("*", toks)
            amb = amb or a2 or "-*" in toks
            n[fname] = e
        out["nodes"].append(n)
    for r, toks in cfg["user"]:
        e, a2 = ref.line_entry({"*/*": "*"}.get(r, r), toks)
        amb = amb or a2
        out["user"].append(e)
    out["ambiguous"] = amb
    return out


def l2_pre(pkg):
    return sorted(f[1:] for f in pkg["iuse"] if f.startswith("+"))


def l2_expected(ents, which, pkg):
    p = {"cpv": pkg["cpv"], "slot": pkg["slot"]}
    if which == "enabled":
        seq = list(ents["use"])
        for n in ents["nodes"]:
            seq += n["package.use"]
        seq += ents["user"]
        return ref.fold(seq, p, l2_pre(pkg)), seq
    kind = "mask" if which == "masked" else "force"
    seq = []
    for n in ents["nodes"]:
        e = n["use." + kind]
        if e["neg"] or e["pos"]:
            seq.append(e)
        seq += n["package.use." + kind]
    if which == "forced":
        seq.append({"r": "*", "neg": [], "pos": ["amd64"]})
    return ref.fold(seq, p, []), seq


def l2_program(cfg, ents, which):
    """The container operations profiles.py / domain.py perform for this configuration, as a layer-1 program."""
    prog = []
    nxt = [0]

    def new():
        v = nxt[0]
        nxt[0] += 1
        prog.append({"op": "new", "v": v, "kls": "C"})
        return v

    node_regs = []
    for n in ents["nodes"]:
        if which == "enabled":
            v = new()
            if n["package.use"]:
                prog.append({"op": "pstream", "v": v, "es": n["package.use"]})
            prog.append({"op": "freeze", "v": v})
        else:
            kind = "mask" if which == "masked" else "force"
            v = new()
            e = n["use." + kind]
            if e["neg"] or e["pos"]:
                prog.append({"op": "bare", "v": v, "neg": e["neg"], "pos": e["pos"]})
            prog.append({"op": "freeze", "v": v})
            if n["package.use." + kind]:
                c = nxt[0]
                nxt[0] += 1
                prog.append({"op": "clone", "v": v, "to": c, "unfreeze": True})
                prog.append({"op": "pstream", "v": c, "es": n["package.use." + kind]})
                prog.append({"op": "freeze", "v": c})
                v = c
        node_regs.append(v)
    stack = new()
    for v in node_regs:
        prog.append({"op": "merge", "v": stack, "w": v})
    prog.append({"op": "freeze", "v": stack})
    if which == "masked":
        return prog, stack
    d = new()
    if which == "enabled":
        cond = mm_condense([t for t in cfg["use"]])
        if cond[0] or cond[1]:
            prog.append({"op": "bare", "v": d, "neg": cond[0], "pos": cond[1]})
        prog.append({"op": "merge", "v": d, "w": stack})
        if ents["user"]:
            prog.append({"op": "stream", "v": d, "es": ents["user"]})
    else:
        prog.append({"op": "merge", "v": d, "w": stack})
        prog.append({"op": "bare", "v": d, "neg": [], "pos": ["amd64"]})
    prog.append({"op": "freeze", "v": d})
    return prog, d


def mm_condense(tokens):
    """(neg, pos) of the condensed global USE stream (what optimize_incrementals + split_negations hand to add_bare_global)."""
    state = {}
    reset = False
    for t in tokens:
        if t == "-*":
            state, reset = {}, True
        elif t.startswith("-"):
            state.pop(t[1:], None)
            state[t[1:]] = False
        else:
            state.pop(t, None)
            state[t] = True
    return (["*"] if reset else []) + [f for f, on in state.items() if not on], [f for f, on in state.items() if on]


_L2_SERIAL = [0]  # process-wide: pkgcore caches profile nodes by path, a directory name must never be reused


class Layer2:
    def __init__(self, ctx):
        import os

        from pkgcore.ebuild import domain as domain_mod
        from pkgcore.ebuild import profiles
        from pkgcore.test.misc import FakePkg

        os.environ.pop("USE", None)
        os.environ.pop("FEATURES", None)
        self.ctx = ctx
        self.domain_mod, self.profiles, self.FakePkg = domain_mod, profiles, FakePkg
        self.base = os.path.join(os.environ.get("VT_SCRATCH") or "/var/tmp", "c11_l2_%d" % os.getpid())
        self.n = 0

    def build(self, cfg):
        import os
        import shutil

        _L2_SERIAL[0] += 1
        base = os.path.join(self.base, "cfg%d" % _L2_SERIAL[0])
        shutil.rmtree(base, ignore_errors=True)
        os.makedirs(base)
        prof, leaf, conf, root = gc.write_cfg(cfg, base)
        dom = self.domain_mod.domain(self.profiles.OnDiskProfile(prof, leaf), [], [], ROOT=root, config_dir=conf)
        return dom, base

    def check_cfg(self, cfg, only_pkg=None, only_which=None):
        import shutil

        ctx = self.ctx
        ents = l2_entries(cfg)
        if ents["ambiguous"]:
            ctx.skip_unspecified("layer 2: a line sets and unsets the same flag / clears a prefix set earlier in the same line")
            return
        ctx.count("l2_configs")
        try:
            dom, base = self.build(cfg)
        except Exception as e:  # noqa: BLE001
            ctx.evaluated()
            ctx.violation("exception", {"layer": 2, "cfg": cfg, "outcome": "exc", "impl": "%s: %s" % (type(e).__name__, e),
                                        "rule": "l2-domain-construction"})
            return
        try:
            for pkg in cfg["pkgs"]:
                if only_pkg is not None and (pkg["cpv"], pkg["slot"]) != (only_pkg["cpv"], only_pkg["slot"]):
                    continue
                fp = self.FakePkg(pkg["cpv"], slot=pkg["slot"], iuse=list(pkg["iuse"]), keywords=["~amd64"])
                try:
                    imm, en, dis = dom.get_package_use_unconfigured(fp, for_metadata=False)
                    got = {"enabled": set(en), "masked": set(dis), "forced": set(imm)}
                except Exception as e:  # noqa: BLE001
                    ctx.evaluated()
                    ctx.violation("exception", {"layer": 2, "cfg": cfg, "pkg": pkg, "outcome": "exc",
                                                "impl": "%s: %s" % (type(e).__name__, e), "rule": "l2-read"})
                    continue
                for which in WHICH:
                    if only_which is not None and which != only_which:
                        continue
                    exp, seq = l2_expected(ents, which, pkg)
                    ctx.evaluated()
                    ctx.count("l2_reads")
                    ctx.count("l2_reads_" + which)
                    k = nontrivial_key(seq, {"cpv": pkg["cpv"], "slot": pkg["slot"]},
                                       l2_pre(pkg) if which == "enabled" else [], exp)
                    if k is not None:
                        ctx.nontrivial("l2|" + which + k)
                        ctx.count("l2_reads_nontrivial")
                    if got[which] != exp:
                        ctx.count("l2_reads_differing")
                        w = {"layer": 2, "cfg": cfg, "pkg": pkg, "which": which, "outcome": "set",
                             "impl": sorted(got[which]), "expected": sorted(exp), "rule": "l2-" + which}
                        ctx.violation("domain-flags-differ-from-ordered-fold", w)
        finally:
            shutil.rmtree(base, ignore_errors=True)


def layer2(ctx, n_cfg):
    l2 = Layer2(ctx)
    for i in range(n_cfg):
        if ctx.out_of_time(15):
            ctx.note("layer 2 stopped early by the soft deadline after %d configurations" % i)
            break
        cfg = gc.gen_cfg(ctx.rng)
        if i < 1:
            ctx.sample({"layer": 2, "config": cfg})
        l2.check_cfg(cfg)


# ----------------------------------------------------------------------------------------------- entry points
def run(ctx):
    m = Machine()
    layer2(ctx, ctx.budget(250, 2500))
    layer1(ctx, m, ctx.budget(10000, 100000))


def replay(ctx, w):
    if w.get("layer") == 2:
        return replay_l2(ctx, w)
    m = Machine()
    prog, v, p, pre = w["prog"], w["v"], w["pkg"], w["pre"]
    if not gh.validate(prog):
        ctx.set_inconclusive("witness program is not a supported history")
        return
    ctx.evaluated()
    w2 = make_witness(m, prog, v, p, pre)
    if w2 is None:
        return
    w2["explained_by"] = explain_witness(w2)
    w2["rule"] = "exception" if w2["outcome"] == "exc" else "wrong-set"
    ctx.violation("read-differs-from-ordered-fold" if w2["outcome"] == "set" else "exception", w2)


def replay_l2(ctx, w):
    l2 = Layer2(ctx)
    l2.check_cfg(w["cfg"], only_pkg=w.get("pkg"), only_which=w.get("which"))
