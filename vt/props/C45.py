"""C45 Security advisories flag exactly the vulnerable installed versions."""

import json
import os

from ..gen import c45_advisories as gen
from ..ref import c45_glsa as ref

ID = "C45"
LEVEL = "exploration"
TECHNIQUE = "differential runtime monitoring against a reference GLSA range evaluator"
RULE = ("random advisory directories (1-3 GLSA files x 1-3 <package> entries, 1-3 vulnerable and 0-3 unaffected ranges "
        "with every operator lt/le/eq/ge/gt/rlt/rle/rge/rgt, eq globs, slot attributes, arch lists, realistic "
        "'lt fix / ge fix / rge branch' shapes and contradictory ones) are written as XML and read back by the real "
        "GlsaDirSet; every restriction it yields (__iter__, pkg_grouped_iter) is matched against real FakePkg objects "
        "whose versions surround every range end point (revision +-1, -r0, .0, digit append, letters, suffixes) in "
        "two slots with random keyword sets, and find_vulnerable_repo_pkgs is run over a SimpleTree of them; the "
        "answer is compared with a reference evaluator written from the GLSA format + PMS version comparison. A case "
        "(entry, package) is non-trivial when the name matches and the package lies inside at least one range of an "
        "entry that has an unaffected range, a glob, an r-form, a slot or an arch list; distinct = distinct (entry, "
        "package).")
ASSUMPTIONS = [
    "reference evaluator vt/ref/c45_glsa.py (Kleene three-valued) + PMS comparator vt/ref/pms_version.py",
    "entries holding a range outside the format (glob on non-eq) or an empty rlt-on-r0 range are not judged (pkgcore "
    "drops the whole entry; the statement does not say what happens to the sibling ranges)",
    "eq V* where the textual and numeric reading of a component differ (1.0* vs 1.00, 1-r0* vs 1) is not judged",
    "an arch-restricted entry against a package that carries only ~arch is not judged ('carries' is not defined for "
    "testing keywords); slot='*' is not generated; find_vulnerable_repo_pkgs is called with arch=None",
    "packages are pkgcore.test.misc.FakePkg objects; the repository is a repository.util.SimpleTree",
]
SHARDS = {"quick": 4, "thorough": 16}
TIMEOUT = {"quick": 240, "thorough": 1800}
MIN_EVALS = 20000
REQUIRED_COUNTERS = ("entries_judged", "grouped_judged", "find_vulnerable_judged", "case:unaffected-range-decides",
                     "case:glob", "case:rform", "case:slot-decides", "case:arch-decides")

KEY_OF_RULE = {
    "glob-string-prefix": "glob-is-string-prefix",
    "unaffected-glob-kept": "unaffected-glob-not-negated",
    "glob-slot-ignored": "slot-ignored-on-glob",
    "r0-slot-ignored": "slot-ignored-on-r0-rform",
}


# --------------------------------------------------------------------------------------------------------------
# harness around the real code

_TRACE = []


class Harness:
    def __init__(self, ctx):
        from pkgcore.pkgsets import glsa
        from pkgcore.repository.util import SimpleTree
        from pkgcore.test.misc import FakePkg

        self.ctx = ctx
        self.glsa = glsa
        self.SimpleTree = SimpleTree
        self.FakePkg = FakePkg
        self.base = os.path.join(os.environ.get("VT_SCRATCH") or "/var/tmp", "c45")
        os.makedirs(self.base, exist_ok=True)
        self.n = 0
        self._pkg_cache = {}
        # observe the documented generator: which (advisory id, package name) each yielded restriction belongs to
        self.trace = _TRACE
        if not getattr(glsa.GlsaDirSet.iter_vulnerabilities, "_c45", False):
            orig = glsa.GlsaDirSet.iter_vulnerabilities

            def observed(inst):
                for item in orig(inst):
                    _TRACE.append((item[0], item[1]))
                    yield item

            observed._c45 = True
            glsa.GlsaDirSet.iter_vulnerabilities = observed

    def write_dir(self, files):
        self.n += 1
        d = os.path.join(self.base, "d%d" % self.n)
        os.makedirs(d)
        for gid, nodes in files.items():
            with open(os.path.join(d, gen.file_name(gid)), "w") as f:
                f.write(gen.render_file(gid, nodes))
        return d

    def cleanup(self, d):
        import shutil

        shutil.rmtree(d, ignore_errors=True)

    def pkg(self, p):
        k = (p["name"], p["ver"], p["rev"], p["slot"], tuple(p["keywords"]))
        o = self._pkg_cache.get(k)
        if o is None:
            o = self.FakePkg("%s-%s" % (p["name"], ref.fullver(p["ver"], p["rev"])), slot=p["slot"],
                             keywords=list(p["keywords"]))
            if len(self._pkg_cache) < 20000:
                self._pkg_cache[k] = o
        return o

    def tree(self, pkgs):
        cache = {}
        cpv_dict = {}
        for p in pkgs:
            cat, name = p["name"].split("/")
            fv = ref.fullver(p["ver"], p["rev"])
            cpv_dict.setdefault(cat, {}).setdefault(name, []).append(fv)
            cache[(cat, name, fv)] = p

        def pkg_klass(cat, name, fv):
            return self.pkg(cache[(cat, name, fv)])

        return self.SimpleTree(cpv_dict, pkg_klass=pkg_klass, livefs=True, repo_id="installed")


def pkg_id(p):
    return "%s-%s:%s" % (p["name"], ref.fullver(p["ver"], p["rev"]), p["slot"])


def note_case(ctx, node, pkg):
    """Non-triviality bookkeeping for one judged (entry, package) pair."""
    if pkg["name"] != node["name"]:
        ctx.count("case:other-name")
        return
    ranges = node["vulnerable"] + node["unaffected"]
    inside = [r for r in ranges if ref.range_contains(dict(r, slot=""), pkg) is True]
    if not inside:
        ctx.count("case:outside-all-ranges")
        return
    vul = ref.k_or(*[ref.range_contains(r, pkg) for r in node["vulnerable"]])
    una = ref.k_or(*[ref.range_contains(r, pkg) for r in node["unaffected"]])
    feats = []
    if vul is True and una is True:
        feats.append("unaffected-range-decides")
    if any(ref.is_glob(r) for r in inside):
        feats.append("glob")
    if any(r["op"] in ref.R_OPS for r in inside):
        feats.append("rform")
    if any(r.get("slot") and r["slot"] != pkg["slot"] for r in inside):
        feats.append("slot-decides")
    if vul is True and una is not True and ref.arch_ok(node, pkg) is False:
        feats.append("arch-decides")
    for f in feats:
        ctx.count("case:" + f)
    if feats:
        ctx.nontrivial(json.dumps([node, pkg_id(pkg), pkg["keywords"]], sort_keys=True))
    else:
        ctx.count("case:plain-range")


class Truth:
    """Reference answers of one scenario, computed once per (entry, package)."""

    def __init__(self):
        self.memo = {}

    def node(self, node, pkg):
        k = (id(node), id(pkg))
        if k not in self.memo:
            self.memo[k] = ref.node_affected(node, pkg)
        return self.memo[k]

    def any(self, nodes, pkg):
        return ref.k_or(*[self.node(n, pkg) for n in nodes])


def judge(ctx, truth, where, nodes, pkg, impl, extra=None, node_impl=None):
    """Compare one implementation answer with the reference for the disjunction of `nodes`."""
    exp = truth.any(nodes, pkg)
    if exp is None:
        ctx.skip_unspecified("glob component read differently as text and as number, or ~arch against an arch list")
        return
    ctx.evaluated()
    if bool(impl) is exp:
        return
    w = {"where": where, "nodes": nodes, "pkg": pkg, "impl": bool(impl), "expected": exp}
    if node_impl is not None:
        w["node_impl"] = node_impl
    if extra:
        w.update(extra)
    mech = mechanisms(w)
    w["rule"] = "+".join(mech) if mech else ("reported-not-affected" if impl else "affected-not-reported")
    ctx.violation("glsa-%s-vs-reference" % where, w)


def mechanisms(w):
    """Smallest set of recorded wrong rules that explains the witness, or None.

    A witness over several entries (grouped / repository scan) carries the implementation's answer for each single
    entry: it is explained when the combined answer is the disjunction of those and every entry whose own answer
    deviates from the reference is explained."""
    nodes, pkg, impl = w["nodes"], w["pkg"], bool(w["impl"])
    node_impl = w.get("node_impl")
    if node_impl is None or len(node_impl) != len(nodes):
        if len(nodes) != 1:
            return None
        node_impl = [impl]
    if any(x is None for x in node_impl) or impl != any(node_impl):
        return None
    mech = []
    for n, ni in zip(nodes, node_impl):
        t = ref.node_affected(n, pkg)
        if t is None or t is bool(ni):
            continue
        m = ref.explain(bool(ni), lambda rules, n=n: ref.node_affected(n, pkg, rules))
        if not m:
            return None
        mech.extend(x for x in m if x not in mech)
    return sorted(mech, key=ref.RULES.index) or None


def pair_entries(ctx, files, trace):
    """Pair the entries the implementation yielded (observed (advisory id, name) sequence) with the generated ones.

    Entries the statement does not decide may be dropped; every other entry must be yielded, in document order."""
    by_file = {}
    for gid, name in trace:
        by_file.setdefault(gid, []).append(name)
    pairs = {}  # (gid, node index) -> position in the trace
    pos_of = {}
    for i, (gid, name) in enumerate(trace):
        pos_of.setdefault(gid, []).append(i)
    for gid, nodes in files.items():
        seq = list(zip(by_file.get(gid, []), pos_of.get(gid, [])))
        j = 0
        for idx, node in enumerate(nodes):
            if j < len(seq) and seq[j][0] == node["name"]:
                pairs[(gid, idx)] = seq[j][1]
                j += 1
            elif ref.node_unspecified(node):
                continue
            else:
                ctx.evaluated()
                ctx.violation("glsa-entry-not-yielded", {"where": "iter", "nodes": [node], "gid": gid,
                                                         "yielded_names": [s[0] for s in seq], "rule": "entry-dropped"})
                break
        else:
            if j != len(seq):
                ctx.evaluated()
                ctx.violation("glsa-extra-entry-yielded", {"where": "iter", "gid": gid, "nodes": nodes,
                                                           "yielded_names": [s[0] for s in seq], "rule": "extra-entry"})
    return pairs


def check_scenario(ctx, h, scen, pkgs, repo_pkgs):
    files = scen["files"]
    d = h.write_dir(files)
    try:
        _check_dir(ctx, h, d, files, pkgs, repo_pkgs)
    finally:
        h.cleanup(d)


def _check_dir(ctx, h, d, files, pkgs, repo_pkgs):
    glsa = h.glsa
    src = glsa.GlsaDirSet(d)
    objs = [h.pkg(p) for p in pkgs]
    truth = Truth()
    impl_node = {}

    # (1) one restriction per <package> entry
    del h.trace[:]
    restricts = list(src)
    trace = list(h.trace)
    ctx.count("dirs")
    if len(restricts) != len(trace):
        ctx.set_inconclusive("monitor on iter_vulnerabilities saw %d yields for %d restrictions" % (len(trace), len(restricts)))
        return
    pairs = pair_entries(ctx, files, trace)
    undecided_names = set()
    for gid, nodes in files.items():
        for idx, node in enumerate(nodes):
            why = ref.node_unspecified(node)
            if why:
                undecided_names.add(node["name"])
                ctx.skip_unspecified(why)
                ctx.count("entries_unspecified")
                continue
            pos = pairs.get((gid, idx))
            if pos is None:
                continue
            r = restricts[pos]
            ctx.count("entries_judged")
            if getattr(r, "key", node["name"]) != node["name"]:
                ctx.violation("glsa-restriction-key", {"where": "iter", "nodes": [node], "key": repr(r.key), "rule": "key"})
            for p, o in zip(pkgs, objs):
                note_case(ctx, node, p)
                got = bool(r.match(o))
                impl_node[(id(node), id(p))] = got
                judge(ctx, truth, "iter", [node], p, got, {"gid": gid})
            if ctx.want_sample():
                aff = [pkg_id(p) for p in pkgs if truth.node(node, p) is True]
                ctx.sample({"entry": node, "packages_tried": len(pkgs), "reference_affected": aff[:12]})

    # (2) grouped by package name
    by_name = {}
    for gid in sorted(files):
        for node in files[gid]:
            by_name.setdefault(node["name"], []).append(node)
    grouped = list(src.pkg_grouped_iter())
    seen = {}
    for r in grouped:
        seen.setdefault(r.key, []).append(r)
    for name, nodes in by_name.items():
        if name in undecided_names:
            continue
        rs = seen.get(name, [])
        ctx.evaluated()
        if len(rs) != 1:
            ctx.violation("glsa-grouped-count", {"where": "grouped", "nodes": nodes, "count": len(rs), "rule": "grouped-count"})
            continue
        ctx.count("grouped_judged")
        if len(nodes) > 1:
            ctx.count("grouped_multi_entry")
        for p, o in zip(pkgs, objs):
            judge(ctx, truth, "grouped", nodes, p, rs[0].match(o),
                  node_impl=[impl_node.get((id(n), id(p))) for n in nodes])
    for name in seen:
        if name not in by_name:
            ctx.evaluated()
            ctx.violation("glsa-grouped-unknown-name", {"where": "grouped", "name": name, "nodes": [], "rule": "unknown-name"})

    # (3) scanning a repository
    tree = h.tree(repo_pkgs)
    for grouped_flag in (False, True):
        reported = {}
        for restrict, matches in glsa.find_vulnerable_repo_pkgs(src, tree, grouped=grouped_flag):
            for m in matches:
                reported.setdefault(restrict.key, set()).add((m.key, m.fullver))
        ctx.count("find_vulnerable_runs")
        for name, nodes in by_name.items():
            if name in undecided_names:
                continue
            ctx.count("find_vulnerable_judged")
            got = reported.get(name, set())
            for p in repo_pkgs:
                judge(ctx, truth, "find-grouped" if grouped_flag else "find", nodes, p,
                      (p["name"], ref.fullver(p["ver"], p["rev"])) in got,
                      node_impl=[impl_node.get((id(n), id(p))) for n in nodes])
        for name, got in reported.items():
            if name not in by_name:
                ctx.evaluated()
                ctx.violation("glsa-find-unknown-name", {"where": "find", "name": name, "nodes": [],
                                                         "reported": sorted(got), "rule": "unknown-name"})


# --------------------------------------------------------------------------------------------------------------
# module entry points

def fix_unspecified_names(rng, scen):
    """An entry the statement does not decide must be identifiable in the yielded sequence: give it a name no other
    entry of the same file uses (otherwise regenerate it as a decided entry)."""
    for gid, nodes in scen["files"].items():
        for i, node in enumerate(nodes):
            if ref.node_unspecified(node) and sum(1 for n in nodes if n["name"] == node["name"]) > 1:
                for _ in range(50):
                    new = gen.random_node(rng, scen["anchors"], node["name"], allow_unspecified=False)
                    if not ref.node_unspecified(new):
                        nodes[i] = new
                        break
                else:
                    nodes[i] = gen.classic_node(rng, scen["anchors"], node["name"])


def two_slots(pkgs, rng):
    """For direct matching every version is tried in both advisory slots."""
    out = []
    for p in pkgs:
        out.append(p)
        other = dict(p, slot=gen.SLOTS[0] if p["slot"] != gen.SLOTS[0] else gen.SLOTS[1])
        out.append(other)
    return out


def run(ctx):
    h = Harness(ctx)
    rng = ctx.rng
    n = ctx.budget(80, 1500)
    for i in range(n):
        scen = gen.scenario(rng, i)
        fix_unspecified_names(rng, scen)
        repo_pkgs = gen.universe(rng, scen, ctx.budget(28, 40))
        pkgs = two_slots(repo_pkgs, rng)
        check_scenario(ctx, h, scen, pkgs, repo_pkgs)
        ctx.count("scenarios")
        if ctx.out_of_time(20):
            ctx.note("stopped early by the soft deadline after %d scenarios" % (i + 1))
            break


def classify(w):
    if not isinstance(w, dict) or "pkg" not in w or "nodes" not in w or "impl" not in w:
        return None
    nodes, pkg = w["nodes"], w["pkg"]
    exp = ref.k_or(*[ref.node_affected(n, pkg) for n in nodes])
    if exp is None or exp is bool(w["impl"]):
        return None
    mech = mechanisms(w)
    if not mech:
        return None
    # one key per mechanism; a witness that needs several recorded wrong rules at once is filed under the first
    return KEY_OF_RULE[mech[0]]


def replay(ctx, w):
    h = Harness(ctx)
    nodes = w["nodes"]
    files = {}
    for i, node in enumerate(nodes):
        files["2000%02d-%02d" % (1 + i // 50, 1 + i % 50)] = [node]
    pkg = w["pkg"]
    scen = {"files": files}
    check_scenario(ctx, h, scen, [pkg], [pkg])
