"""C14 USE-configured package views always reflect the current USE set (history property)."""

import json

from ..gen import c14_hist as gen
from ..ref import c14_model as ref

ID = "C14"
LEVEL = "exploration"
TECHNIQUE = "operation histories on the real wrapper classes; re-evaluation oracle after every step + observed rollback trail"
RULE = ("history = random package (9 USE-conditional metadata ASTs over flags a,b,c + locked lon/loff, depth<=3, incl. "
        "transitive USE atoms) wrapped by make_wrapper directly or by the real ConfiguredTree.package_class, then <=15 steps "
        "of request_enable/request_disable (1-3 flags, free/locked/already-set; also on wrapped and plain attributes), "
        "rollback(point) to observed change counts, commit, changes_count and force_True/force_False of real USE "
        "restrictions (atom USE deps, ContainmentMatch all/any/negated, AND/OR of them), with a RANDOM SUBSET of the "
        "wrapped attributes read after every step. Every read is compared with the same attribute of an untouched twin "
        "raw package freshly evaluated under the observed USE set; every primitive request (also the nested ones made "
        "by restrictions) that is refused or raises must leave the USE set unchanged; rollback(p) must restore the USE "
        "set observed at p; commit must not change it. A read is NON-TRIVIAL when the correct value differs from the "
        "value at the previous read of the same attribute (a correct answer needs invalidation); distinct = distinct "
        "(attribute text, USE before, USE now, primitive calls in between).")
ASSUMPTIONS = [
    "the 'current USE set' is what the view itself reports through its `use` attribute; it is observed, not modelled",
    "DepSet.evaluate_depset on an untouched twin of the raw package is 'the raw attribute evaluated under a USE set' "
    "(C09 judges evaluate_depset itself); a second AST-level evaluator written from PMS must agree with that value on "
    "the surviving leaves, otherwise the read is not judged",
    "values are compared in rendered dependency syntax (fetchables as file name + URI list)",
    "raw packages are real ebuild_src.package objects over an in-memory metadata dict; the domain handed to "
    "ConfiguredTree is a stub that only supplies (immutable, enabled, disabled) flags and profile IUSE_EFFECTIVE",
    "refused = falsy return value or an exception; accepted requests' postconditions are not judged (statement silent)",
    "rollback(point) with a point whose USE set was never observed, or an invalid point, is only judged through the "
    "attribute reads that follow",
    "iuse_effective / user_patches (in the real wrapper table but not USE-dependent) are read but not judged",
    "mechanism attribution (never the verdict) of a stale cache hit reads the anchored generation counter _reuse_pt",
]
SHARDS = {"quick": 4, "thorough": 16}
TIMEOUT = {"quick": 300, "thorough": 1800}
MIN_EVALS = 20000
REQUIRED_COUNTERS = ("reads_nontrivial", "reads_after:request_disable:True", "reads_after:request_enable:True",
                     "reads_after:rollback:ok", "reads_after:commit:ok", "requests_refused", "requests_refused_nested",
                     "rollback_to_observed_point", "mode:tree", "mode:direct", "computed_under_checked")

K_DISABLE = "disable-no-invalidate"
K_COMMIT = "commit-resets-generation"
K_KEYERR = "partial-disable-on-keyerror"
K_NOOP = "rollback-inverts-noop-change"
K_NODECONDS = "node-conds-probe-disables-evaluation"

MAX_STEPS = 15
TREE_ONLY_ATTRS = ("distfiles", "iuse_effective", "user_patches")
UNJUDGED_ATTRS = ("iuse_effective", "user_patches")  # in the real table, but not USE-dependent


# ------------------------------------------------------------------------------------------------------------------
# environment: the real classes, monitored
# ------------------------------------------------------------------------------------------------------------------
class _Repo:
    _allow_missing_chksums = True
    repo_id = "c14"

    def _get_digests(self, pkg, allow_missing=False):
        return True, {}


class _Parent:
    _parent_repo = _Repo()
    mirrors = {}
    default_mirrors = None


class _Profile:
    iuse_effective = frozenset(["a", "b", "c", "n", "lon", "arch_x"])


class _Domain:
    """Stub domain: ConfiguredTree only asks it for the USE triple of a package (and profile IUSE_EFFECTIVE)."""
    profile = _Profile()
    config_dir = "/nonexistent-c14"

    def __init__(self):
        self.cfg = None

    def get_package_use_unconfigured(self, pkg, for_metadata=True):
        spec = self.cfg
        return frozenset(spec["locked_on"]), set(spec["initial"]), frozenset()


class _RawRepo:
    pkg_masks = frozenset()


class Env:
    """Per-process: the two wrapper classes with recording proxies on their mutators and on the wrapper table."""

    _inst = None

    @classmethod
    def get(cls):
        if cls._inst is None:
            cls._inst = cls()
        return cls._inst

    def __init__(self):
        from pkgcore.ebuild import conditionals as econd
        from pkgcore.ebuild import ebuild_src, repository
        from pkgcore.ebuild.eapi import get_eapi
        from pkgcore.fetch import fetchable
        from pkgcore.package.conditionals import make_wrapper
        from pkgcore.restrictions import values

        self.econd = econd
        self.ebuild_src = ebuild_src
        self.eapi = get_eapi("8")
        self.fetchable = fetchable
        self.values = values
        self.session = None
        self.domain = _Domain()
        self.tree = repository.ConfiguredTree(_RawRepo(), self.domain, {"USE": (), "CHOST": "x86_64-pc-linux-gnu"})
        self.tree_kls = self.tree._pkg_klass
        self.tree_wrapped = sorted(self.tree_kls._wrapped_attr)
        table = self.tree_kls._wrapped_attr  # the repo's own wrapper table (a dict): observe every evaluation
        for name in list(table):
            table[name] = self._table_proxy(name, table[name])
        direct_table = {}
        for name in gen.USE_ATTRS:
            direct_table[name] = self._table_proxy(name, lambda raw, use, pkg=None: raw.evaluate_depset(use))
        self.direct_repo = _RawRepo()
        self.direct_kls = make_wrapper(self.direct_repo, "use", direct_table)
        self.direct_wrapped = sorted(direct_table)
        for kls in (self.tree_kls, self.direct_kls):
            for name in ("request_enable", "request_disable", "rollback", "commit"):
                setattr(kls, name, self._method_proxy(name, getattr(kls, name)))

    def _table_proxy(self, name, func):
        env = self

        def evaluate(raw, use, pkg=None):
            s = env.session
            if s is not None:
                try:
                    s.computed[name] = frozenset(use)
                except TypeError:
                    pass
            return func(raw, use, pkg=pkg)

        return evaluate

    def _method_proxy(self, name, orig):
        env = self

        def proxy(self_pkg, *args, **kw):
            s = env.session
            if s is None or s.pkg is not self_pkg:
                return orig(self_pkg, *args, **kw)
            return s.observe_call(name, orig, self_pkg, args, kw)

        proxy.__name__ = name
        return proxy

    def raw_pkg(self, spec):
        data = {"SLOT": "0", "KEYWORDS": "amd64", "IUSE": " ".join(spec["free"] + spec["locked_on"])}
        for attr, ast in spec["attrs"].items():
            data[gen.ATTR_KEYS[attr]] = gen.render(ast)
        o = self.ebuild_src.package(None, _Parent(), "cat/pkg-1")
        object.__setattr__(o, "eapi", self.eapi)
        object.__setattr__(o, "data", data)
        return o

    # -- rendering of attribute values (shared by the implementation's answer and the fresh evaluation) --------
    def elem(self, x):
        if isinstance(x, self.fetchable):
            return "%s<-%s" % (x.filename, ",".join(x.uri))
        if isinstance(x, self.values.ContainmentMatch):
            return ("!" if x.negate else "") + ",".join(sorted(x.vals))
        return str(x)

    def render(self, v):
        if isinstance(v, self.econd.DepSet):
            return self.econd.stringify_boolean(v, func=self.elem)
        if isinstance(v, (tuple, list)):
            return "tuple: " + " ".join(self.elem(x) if not isinstance(x, (tuple, list)) else repr(x) for x in v)
        if isinstance(v, (set, frozenset)):
            return "set: " + " ".join(sorted(map(str, v)))
        return "obj: %r" % (v,)


def _exc(e):
    return "raise:%s" % type(e).__name__


# ------------------------------------------------------------------------------------------------------------------
# one monitored history
# ------------------------------------------------------------------------------------------------------------------
class Session:
    def __init__(self, spec, ctx=None):
        self.env = env = Env.get()
        self.spec = spec
        self.ctx = ctx
        self.events = None
        self.depth = 0
        self.low = 0
        self.computed = {}
        self.trace = []
        self.problems = []
        self.last_read = {}  # attr -> (want, use)
        self.calls_since = {}  # attr -> list of "call:out" since its last read
        self.pkg = None
        env.session = None
        self.raw = env.raw_pkg(spec)
        # never handed to any wrapper: the oracle's evaluation cannot be influenced by what the history did to `raw`
        self.pristine = env.raw_pkg(spec)
        if spec["mode"] == "tree":
            env.domain.cfg = spec
            self.pkg = env.tree.package_class(self.raw)
            self.wrapped = env.tree_wrapped
        else:
            locked = spec["locked_on"] + spec["locked_off"]
            kind = spec.get("locked_container", "list")
            locked = {"list": list, "tuple": tuple, "frozenset": frozenset}[kind](locked)
            self.pkg = env.direct_kls(self.raw, initial_settings=list(spec["initial"]), unchangable_settings=locked)
            self.wrapped = env.direct_wrapped
        env.session = self
        self.trail = ref.Trail(self.pkg.changes_count(), self.use())

    def close(self):
        self.env.session = None

    def use(self):
        return frozenset(self.pkg.use)

    def count(self, name, n=1):
        if self.ctx is not None:
            self.ctx.count(name, n)

    # -- primitive calls (request_enable/request_disable/rollback/commit), whoever makes them ------------------
    def observe_call(self, name, orig, pkg, args, kw):
        before = self.use()
        ev = {"call": name, "depth": self.depth, "use_before": sorted(before)}
        if name in ("request_enable", "request_disable"):
            ev["attr"] = args[0] if args else None
            ev["vals"] = [self.env.elem(v) for v in args[1:]]
        elif name == "rollback":
            ev["point"] = args[0] if args else kw.get("point", 0)
        first_inner = len(self.events) if self.events is not None else 0
        self.depth += 1
        try:
            res = orig(pkg, *args, **kw)
            out = ("True" if res else "False") if name.startswith("request") else "ok"
            exc = None
        except Exception as e:  # recorded and re-raised: behaviour is unchanged
            res, out, exc = None, _exc(e), e
        finally:
            self.depth -= 1
        after = self.use()
        ev["out"] = out
        ev["use_after"] = sorted(after)
        ev["gen"] = getattr(pkg, "_reuse_pt", None)  # the anchored cache generation counter, observed only
        if name == "rollback" and out == "ok" and isinstance(ev["point"], int):
            self.low = min(self.low, ev["point"])
        if self.events is not None:
            ev["inner"] = len(self.events) - first_inner
            self.events.append(ev)
        if name.startswith("request"):
            self.count("%s:%s:%s" % (name, "use" if ev["attr"] == "use" else ("wrapped" if ev["attr"] in self.wrapped else "other"), out))
            if out != "True":
                self.count("requests_refused")
                if ev["depth"] > 0:
                    self.count("requests_refused_nested")
                if self.ctx is not None:
                    self.ctx.evaluated()
                if after != before:
                    self.problems.append({"kind": "refused-request-changed-use", "step": len(self.trace), "event": ev,
                                          "inner_events": list(self.events[first_inner:-1]) if self.events is not None else []})
        if exc is not None:
            raise exc
        return res

    # -- steps --------------------------------------------------------------------------------------------------
    def _restr(self, r):
        from pkgcore.ebuild.atom import atom
        from pkgcore.restrictions import packages, values

        if r["k"] == "usedep":
            return atom(r["atom"])
        if r["k"] == "contain":
            return packages.PackageRestriction(
                "use", values.ContainmentMatch(frozenset(r["vals"]), match_all=r["all"], negate=r["neg"]), negate=r["pneg"])
        kls = packages.AndRestriction if r["k"] == "and" else packages.OrRestriction
        return kls(*[self._restr(x) for x in r["of"]], negate=r["neg"])

    def _vals(self, attr, vals):
        from pkgcore.ebuild.atom import atom

        if attr in gen.DEP_ATTRS:
            return [atom(v) for v in vals]
        return list(vals)

    def step(self, op, reads):
        pkg = self.pkg
        rec = {"op": op, "use_before": sorted(self.use())}
        rec["count_before"] = c0 = pkg.changes_count()
        self.events = []
        self.low = c0
        known_before = dict(self.trail.points)
        kind = op["op"]
        if kind not in ("init", "enable", "disable", "rollback", "commit", "count", "force"):
            raise ValueError("unknown op %r" % (op,))
        # harness-side object construction stays outside the observed region
        vals = self._vals(op["attr"], op["vals"]) if kind in ("enable", "disable") else None
        restr = self._restr(op["restr"]) if kind == "force" else None
        try:
            if kind == "init":
                out = "ok"
            elif kind == "enable":
                out = "True" if pkg.request_enable(op["attr"], *vals) else "False"
            elif kind == "disable":
                out = "True" if pkg.request_disable(op["attr"], *vals) else "False"
            elif kind == "rollback":
                pkg.rollback(op["point"])
                out = "ok"
            elif kind == "commit":
                pkg.commit()
                out = "ok"
            elif kind == "count":
                out = "count=%d" % pkg.changes_count()
            else:
                out = "True" if (restr.force_True(pkg) if op["how"] else restr.force_False(pkg)) else "False"
        except Exception as e:
            out = _exc(e)
            self.count("step_raised:%s:%s" % (kind, type(e).__name__))
        rec["out"] = out
        rec["events"] = self.events
        self.events = None
        after = self.use()
        rec["use_after"] = sorted(after)
        rec["count_after"] = c1 = pkg.changes_count()
        self.count("step:" + kind)
        self.count("events", len(rec["events"]))
        for ev in rec["events"]:
            tag = "%s:%s" % (ev["call"], ev["out"])
            for lst in self.calls_since.values():
                lst.append(tag)
        # clause 3: rollback(point) restores the USE set observed at that point; commit does not change it
        if kind == "rollback" and out == "ok":
            if op["point"] in known_before:
                self.count("rollback_to_observed_point")
                if self.ctx is not None:
                    self.ctx.evaluated()
                want = known_before[op["point"]]
                if after != want:
                    self.problems.append({"kind": "rollback-not-restoring", "step": len(self.trace), "point": op["point"],
                                          "want_use": sorted(want), "got_use": sorted(after)})
            else:
                self.count("rollback_to_unobserved_point")
                if self.ctx is not None:
                    self.ctx.skip_unspecified("rollback to a change count whose USE set was never observed: only the reads are judged")
        elif kind == "rollback":
            self.count("rollback_refused_or_raised")
        if kind == "commit":
            if self.ctx is not None:
                self.ctx.evaluated()
            if after != frozenset(rec["use_before"]):
                self.problems.append({"kind": "commit-changed-use", "step": len(self.trace),
                                      "want_use": rec["use_before"], "got_use": sorted(after)})
        if any(ev["call"] == "commit" and ev["out"] == "ok" for ev in rec["events"]):
            self.trail.committed(c1, after)
        else:
            self.trail.after_step(min(self.low, c0), c1, after)
        self.trace.append(rec)
        rec["reads"] = []
        for attr in reads:
            self.read(attr, rec)
        return rec

    # -- attribute reads ----------------------------------------------------------------------------------------
    def expected(self, attr, use, raw=None):
        raw = raw if raw is not None else self.pristine
        if attr == "distfiles":
            return tuple(dict.fromkeys(raw.distfiles.evaluate_depset(use)))
        if attr == "iuse_effective":
            return frozenset(_Profile.iuse_effective | raw.iuse_effective)
        if attr == "user_patches":
            return ()
        return getattr(raw, attr).evaluate_depset(use)

    def read(self, attr, rec):
        env, ctx = self.env, self.ctx
        use_now = self.use()
        self.computed.pop(attr, None)
        try:
            impl = env.render(getattr(self.pkg, attr))
        except Exception as e:
            impl = _exc(e)
        under = self.computed.get(attr)
        try:
            want = env.render(self.expected(attr, use_now))
        except Exception as e:
            want = _exc(e)
        rd = {"attr": attr, "impl": impl, "want": want, "gen": getattr(self.pkg, "_reuse_pt", None),
              "filled": under is not None}
        if under is not None:
            rd["computed_under"] = sorted(under)
        rec["reads"].append(rd)
        if ctx is not None:
            ctx.evaluated()
            ctx.count("reads")
            ctx.count("reads:" + attr)
        prev = self.last_read.get(attr)
        since = self.calls_since.get(attr, ["<construction>"] if prev is None else [])
        nontrivial = prev is not None and prev[0] != want
        if ctx is not None:
            for tag in set(since):
                ctx.count("reads_after:" + tag)
            if nontrivial:
                ctx.count("reads_nontrivial")
                ctx.count("reads_nontrivial:" + attr)
                ctx.nontrivial(json.dumps([gen.render(self.spec["attrs"].get(attr, [])) if attr in self.spec["attrs"] else attr,
                                           sorted(prev[1]), sorted(use_now), since]))
            elif prev is not None and prev[1] != use_now:
                ctx.count("reads_use_changed_value_same")
        self.last_read[attr] = (want, use_now)
        self.calls_since[attr] = []
        # the evaluation the wrapper performed (if it performed one) must have seen the current USE set
        if under is not None:
            if ctx is not None:
                ctx.count("computed_under_checked")
            if under != use_now:
                self.problems.append({"kind": "evaluated-under-other-use", "step": len(self.trace) - 1, "attr": attr,
                                      "computed_under": sorted(under), "use": sorted(use_now)})
        elif ctx is not None:
            ctx.count("reads_served_from_cache")
        # second opinion on the expected value: PMS-level evaluator on the generated AST
        corroborated = True
        if attr in self.spec["attrs"] and not want.startswith("raise:"):
            exp_leaves = ref.leaves(self.spec["attrs"][attr], use_now)
            got_leaves = sorted(t.split("<-")[0] for t in ref.rendered_leaves(want))
            corroborated = exp_leaves == got_leaves
            if ctx is not None:
                if corroborated:
                    ctx.count("ref_evaluator_agrees")
                else:
                    ctx.count("ref_evaluator_disagrees_with_evaluate_depset")
                    ctx.skip_unspecified("evaluate_depset on an untouched raw attribute disagrees with the PMS-level AST "
                                         "evaluator (C09's domain): no trusted expected value, read not judged")
                    ctx.note("AST evaluator disagreement: %s %r use=%s ast=%s real=%s" % (
                        attr, gen.render(self.spec["attrs"][attr]), sorted(use_now), exp_leaves, got_leaves))
        if impl == want:
            if impl.startswith("raise:") and ctx is not None:
                ctx.skip_unspecified("raw evaluation raises %s too (not a view defect)" % impl)
        elif attr in UNJUDGED_ATTRS:
            if ctx is not None:
                ctx.count("use_independent_entry_differs:" + attr)
                ctx.skip_unspecified("USE-independent wrapper-table entry (%s) differs from its definition: not a "
                                     "USE-dependent attribute, the statement is silent" % attr)
        elif corroborated:
            prob = {"kind": "stale-attribute", "step": len(self.trace) - 1, "attr": attr, "impl": impl,
                    "want": want, "use": sorted(use_now), "served_from_cache": under is None}
            try:  # context for triage: the wrapped raw object's own answer now, and its unevaluated text
                prob["wrapped_raw_evaluates_to"] = env.render(self.expected(attr, use_now, self.raw))
                prob["raw_text"] = env.render(getattr(self.pristine, attr))
            except Exception as e:
                prob["wrapped_raw_evaluates_to"] = _exc(e)
            self.problems.append(prob)
        return rd


# ------------------------------------------------------------------------------------------------------------------
# running, judging, minimising
# ------------------------------------------------------------------------------------------------------------------
def execute(spec, plan, ctx=None):
    """plan: [{"op": step, "read": [attrs]}]; returns the finished Session."""
    s = Session(spec, ctx)
    try:
        for p in plan:
            s.step(p["op"], p.get("read", ()))
    finally:
        s.close()
    return s


def plan_of(trace):
    return [{"op": st["op"], "read": [r["attr"] for r in st.get("reads", [])] if "reads" in st else list(st.get("read", []))}
            for st in trace]


def witness_for(s, prob):
    """Materialise one problem as a witness: the history prefix up to the failing step + the failing observation."""
    upto = prob["step"]
    trace = s.trace[: upto + 1]
    if prob["kind"] in ("stale-attribute", "evaluated-under-other-use"):
        # reads after the failing one in the same step do not belong to the prefix
        last = dict(trace[-1])
        reads = []
        for r in last["reads"]:
            reads.append(r)
            if r["attr"] == prob["attr"]:
                break
        last["reads"] = reads
        trace = trace[:-1] + [last]
    w = {"kind": prob["kind"], "spec": s.spec, "wrapped": list(s.wrapped), "trace": trace,
         "fail": {k: v for k, v in prob.items() if k not in ("kind",)}}
    if prob["kind"] == "stale-attribute":
        w["rule"] = "cache" if prob.get("served_from_cache") else "fresh-evaluation-differs"
    return w


def same_problem(p, q):
    if p["kind"] != q["kind"]:
        return False
    if p["kind"] in ("stale-attribute", "evaluated-under-other-use"):
        return p["attr"] == q["attr"]
    if p["kind"] == "refused-request-changed-use":
        return p["event"]["call"] == q["event"]["call"] and p["event"]["out"] == q["event"]["out"]
    return True


def find_last_step_problem(s, prob):
    last = len(s.trace) - 1
    for q in s.problems:
        if q["step"] == last and same_problem(prob, q):
            return q
    return None


def minimise(spec, plan, prob, key, budget=400):
    """Greedy deletion (steps, reads, other attributes' metadata) keeping the same kind of failure at the last step
    with the same classification."""
    def still(spec_c, plan_c):
        nonlocal budget
        if budget <= 0:
            return None
        budget -= 1
        try:
            s = execute(spec_c, plan_c)
        except Exception:
            return None
        q = find_last_step_problem(s, prob)
        if q is None:
            return None
        w = witness_for(s, q)
        return w if classify(w) == key else None

    best = still(spec, plan)
    if best is None:
        return None
    attr = prob.get("attr")
    # 1. only the failing attribute is read (where a read is part of the failure)
    if attr is not None:
        cand = [{"op": p["op"], "read": [a for a in p["read"] if a == attr]} for p in plan]
        w = still(spec, cand)
        if w is not None:
            best, plan = w, cand
        spec_c = dict(spec, attrs={a: (v if a == attr else []) for a, v in spec["attrs"].items()})
        w = still(spec_c, plan)
        if w is not None:
            best, spec = w, spec_c
    else:
        cand = [{"op": p["op"], "read": []} for p in plan]
        w = still(spec, cand)
        if w is not None:
            best, plan = w, cand
        spec_c = dict(spec, attrs={a: [] for a in spec["attrs"]})
        w = still(spec_c, plan)
        if w is not None:
            best, spec = w, spec_c
    # 2. delete steps (never the last one) until no single deletion keeps the failure
    changed = True
    while changed and budget > 0:
        changed = False
        i = len(plan) - 2
        while i >= 0 and budget > 0:
            cand = plan[:i] + plan[i + 1:]
            w = still(spec, cand)
            if w is not None:
                best, plan, changed = w, cand, True
            i -= 1
    # 3. delete reads, shrink flag lists
    for i in range(len(plan) - 1):
        if plan[i]["read"] and budget > 0:
            cand = [dict(p) for p in plan]
            cand[i] = {"op": plan[i]["op"], "read": []}
            w = still(spec, cand)
            if w is not None:
                best, plan = w, cand
    for i in range(len(plan)):
        op = plan[i]["op"]
        if op["op"] in ("enable", "disable") and len(op["vals"]) > 1:
            for v in list(op["vals"]):
                if budget <= 0 or len(plan[i]["op"]["vals"]) <= 1:
                    break
                cand = [dict(p) for p in plan]
                cand[i] = {"op": dict(plan[i]["op"], vals=[x for x in plan[i]["op"]["vals"] if x != v]), "read": plan[i]["read"]}
                w = still(spec, cand)
                if w is not None:
                    best, plan = w, cand
    best["minimised"] = True
    return best


_reported = {}


def report(ctx, s, plan):
    """Turn the problems of a finished session into violations.  Every problem is classified on its own (so that an
    unexplained one is never shadowed by an explained one earlier in the same history); per history one witness per
    (clause, attribute, mechanism)."""
    seen = set()
    for prob in s.problems:
        w = witness_for(s, prob)
        key = classify(w)
        tag = (prob["kind"], prob.get("attr"), prob.get("event", {}).get("call"), prob.get("event", {}).get("out"), key)
        if tag in seen:
            continue
        seen.add(tag)
        group = key or ("?" + prob["kind"] + ":" + str(w.get("rule")))
        n = _reported.get(group, 0)
        _reported[group] = n + 1
        if n < 3:
            m = minimise(s.spec, plan[: prob["step"] + 1], prob, key)
            if m is not None:
                w = m
        ctx.violation(prob["kind"], w)


def run_history(ctx, spec, nsteps):
    rng = ctx.rng
    s = Session(spec, ctx)
    plan = []
    try:
        ctx.count("mode:" + spec["mode"])
        first = {"op": {"op": "init"}, "read": gen.gen_reads(rng) if rng.random() < 0.8 else []}
        plan.append(first)
        s.step(first["op"], first["read"])
        for i in range(nsteps):
            op = gen.gen_step(rng, spec, s.pkg.changes_count(), s.trail.known())
            reads = list(gen.USE_ATTRS) if i == nsteps - 1 else gen.gen_reads(rng)
            if spec["mode"] == "tree" and rng.random() < 0.3:
                reads = reads + [rng.choice(TREE_ONLY_ATTRS)]
            plan.append({"op": op, "read": reads})
            s.step(op, reads)
    finally:
        s.close()
    ctx.count("histories")
    if ctx.want_sample():
        ctx.sample({"mode": spec["mode"], "initial": spec["initial"],
                    "depend": gen.render(spec["attrs"]["depend"]),
                    "steps": [{"op": st["op"], "out": st["out"], "use_after": st["use_after"],
                               "read": [r["attr"] for r in st["reads"]]} for st in s.trace[:8]]})
    if s.problems:
        ctx.count("histories_with_problems")
        report(ctx, s, plan)
    return s


def run(ctx):
    rng = ctx.rng
    total_steps = ctx.budget(10000, 200000)
    done = 0
    h = 0
    while done < total_steps:
        mode = "tree" if (h + ctx.shard) % 2 == 0 else "direct"
        spec = gen.gen_spec(rng, mode)
        if mode == "direct":
            spec["locked_container"] = rng.choice(["list", "tuple", "frozenset"])
        n = rng.choice([3, 5, 8, 12, MAX_STEPS, MAX_STEPS])
        run_history(ctx, spec, n)
        done += n
        h += 1
        if h % 16 == 0 and ctx.out_of_time(20):
            ctx.note("stopped early by the soft deadline after %d steps" % done)
            break


# ------------------------------------------------------------------------------------------------------------------
# classification of recorded mechanisms (pure functions of the witness)
# ------------------------------------------------------------------------------------------------------------------
def _noop_changes(events):
    """(flags whose disabling was requested on the configurable while they were not enabled,
        flags whose enabling was requested while they already were enabled): changes that change nothing but that the
    change stack may have recorded."""
    noop_removed, noop_added = set(), set()
    for ev in events:
        if ev.get("attr") != "use":
            continue
        if ev.get("call") == "request_disable":
            noop_removed |= set(ev.get("vals", ())) - set(ev.get("use_before", ()))
        elif ev.get("call") == "request_enable":
            noop_added |= set(ev.get("vals", ())) & set(ev.get("use_before", ()))
    return noop_removed, noop_added


def _explained_by_noop_inversion(expected, got, events):
    """The difference is exactly what undoing recorded no-op changes produces: absent flags that were 'removed' come
    back enabled, present flags that were 'added' vanish."""
    noop_removed, noop_added = _noop_changes(events)
    extra, missing = got - expected, expected - got
    return bool(extra or missing) and extra <= noop_removed and missing <= noop_added


def _attribute_stale_cache_hit(trace, f):
    """A stale value served from the attribute cache: decide from the OBSERVED generation counter which recorded
    invalidation defect let the cached entry survive a USE change."""
    seq = []  # ("ev", event) / ("rd", read) in order of completion
    for st in trace:
        for ev in st.get("events", ()):
            seq.append(("ev", ev))
        for rd in st.get("reads", ()):
            if rd["attr"] == f["attr"]:
                seq.append(("rd", rd))
    if not seq or seq[-1][0] != "rd":
        return None
    t = seq[-1][1]
    if t.get("filled") or t.get("gen") is None or t["impl"] != f["impl"]:
        return None
    fill = None
    for i in range(len(seq) - 2, -1, -1):
        if seq[i][0] == "rd" and seq[i][1].get("filled"):
            fill = i
            break
    if fill is None:
        return None
    s_rd = seq[fill][1]
    # the entry that was served is the one computed at the fill, under the same generation number
    if s_rd["want"] != t["impl"] or s_rd["impl"] != t["impl"] or s_rd.get("gen") != t["gen"]:
        return None
    between = [x[1] for x in seq[fill + 1:-1] if x[0] == "ev"]
    if any(ev.get("gen") is None for ev in between):
        return None
    gens = [s_rd["gen"]] + [ev["gen"] for ev in between]
    if all(g == t["gen"] for g in gens):
        # the generation never moved although the USE set did: who changed it?
        culprits = []
        prev_after = None
        for ev in between:
            before = ev["use_before"] if not ev.get("inner") or prev_after is None else prev_after
            if ev["use_after"] != before:
                culprits.append(ev)
            prev_after = ev["use_after"]
        if not culprits:
            return None
        if not all(ev["call"] == "request_disable" and ev.get("attr") == "use" for ev in culprits):
            return None
        if any(ev["out"] == "True" for ev in culprits):
            return K_DISABLE if all(ev["out"] in ("True", "raise:KeyError") for ev in culprits) else None
        if all(ev["out"] == "raise:KeyError" for ev in culprits):
            return K_KEYERR
        return None
    # the generation moved away and came back: only a commit() that lowered it explains the reuse
    lowered = False
    for prev, ev in zip(gens, between):
        if ev["gen"] < prev:
            if ev["call"] == "commit" and ev["out"] == "ok":
                lowered = True
            else:
                return None
    return K_COMMIT if lowered else None


def classify(w):
    kind = w.get("kind")
    trace = w.get("trace") or []
    if kind == "stale-attribute":
        f = w["fail"]
        if f["impl"].startswith("raise:") or f["want"].startswith("raise:"):
            return None
        # the raw DepSet stopped evaluating at all after a request on this very attribute looked at its node_conds
        if f["impl"] == f.get("raw_text") and f.get("wrapped_raw_evaluates_to") == f["impl"] and any(
                ev["call"] in ("request_enable", "request_disable") and ev.get("attr") == f["attr"]
                for st in trace for ev in st.get("events", ())):
            return K_NODECONDS
        return _attribute_stale_cache_hit(trace, f)
    if kind == "refused-request-changed-use":
        ev = w["fail"]["event"]
        before, after = set(ev["use_before"]), set(ev["use_after"])
        if ev["call"] == "request_disable" and ev.get("attr") == "use" and ev["out"] == "raise:KeyError":
            vals = ev.get("vals", [])
            if len(vals) >= 2 and after < before and (before - after) <= set(vals):
                return K_KEYERR
            return None
        if ev["out"] == "False" and _explained_by_noop_inversion(before, after, [ev] + list(w["fail"].get("inner_events", []))):
            return K_NOOP
        return None
    if kind == "rollback-not-restoring":
        f = w["fail"]
        evs = []
        for st in trace:
            for ev in st.get("events", ()):
                if ev["call"] == "commit" and ev["out"] == "ok":
                    evs = []
                else:
                    evs.append(ev)
        if _explained_by_noop_inversion(set(f["want_use"]), set(f["got_use"]), evs):
            return K_NOOP
        return None
    return None


def replay(ctx, w):
    spec = w["spec"]
    plan = plan_of(w["trace"])
    s = execute(spec, plan, ctx)
    ctx.count("replayed_histories")
    seen = set()
    for prob in s.problems:
        tag = (prob["kind"], prob.get("attr"), prob["step"])
        if tag in seen:
            continue
        seen.add(tag)
        ctx.violation(prob["kind"], witness_for(s, prob))
