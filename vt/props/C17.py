"""C17 Planner rollback (pkgcore.resolver.state.plan_state.backtrack) restores the exact earlier state."""

import itertools
import json

ID = "C17"
LEVEL = "exploration"
TECHNIQUE = "runtime monitoring of the real plan_state: snapshot at operation boundaries + replay of the surviving operations"
RULE = ("operation histories on a real plan_state over real FakePkg/atom/choice_point objects (6 source + 4 installed packages "
        "of 3 names in 2 slots incl. installed/source twins, 7 blockers some of which match planned packages, 3 hard-reference "
        "restrictions): add_op, forced add_op of installed packages, replace_op over an installed occupant, remove_op, "
        "add_blocker, _remove_pkg_blockers, add_hardref_op, add_backref_op and backtrack(p) to positions recorded at operation "
        "boundaries; random histories up to 30 steps plus all histories up to a bounded length over a reduced alphabet.  After "
        "every backtrack the canonical snapshot (slot occupancy, limiters, blocker refcounts, rev_blockers, pkg_choices, "
        "vdb_filter, forced_restrictions, len(plan)) must equal the snapshot recorded at that boundary and the snapshot of a "
        "fresh plan_state onto which only the surviving operations are applied; an operation that reports failure (incl. "
        "replace_op's internal rollback) must leave the snapshot unchanged; no operation may raise.  A case is non-trivial "
        "when the rolled-back segment contains a replace, remove, blocker drop, a blocker with reference count >= 2 or a forced "
        "re-insertion under a limiter; distinct = the history prefix up to that rollback.")
ASSUMPTIONS = [
    "operations are generated only in states in which the resolver issues them: add of a cpv that is not in the plan, forced add "
    "only of installed packages into a free slot, replace only over an installed occupant of the same slot, remove only of a "
    "planned package; two distinct objects with equal cpv (installed/source twins) never sit in pkg_choices/vdb_filter together "
    "except through replace_op (dict-key collisions the resolver cannot produce are not judged)",
    "rollback targets are operation boundaries (the only positions the resolver records as start points)",
    "the order of packages inside a slot list / of limiters inside a key is not part of the state",
    "the replay oracle re-applies the recorded surviving operations with the same objects to a fresh plan_state",
]
SHARDS = {"quick": 4, "thorough": 16}
TIMEOUT = {"quick": 240, "thorough": 1800}
MIN_EVALS = 5000
REQUIRED_COUNTERS = ("backtracks_judged", "replays", "undone:replace", "undone:remove", "undone:blocker", "undone:unblock",
                     "failed_ops_judged")

K_REPLACE_FAIL = "failed-replace-drops-limited-old"
K_REVERT_OWN = "replace-revert-asserts-old-limited-by-own-blocker"

SRC = [("n0", "1", "0"), ("n0", "2", "0"), ("n0", "3", "1"), ("n1", "1", "0"), ("n1", "2", "0"), ("n2", "1", "0")]
VDB = [("n0", "1", "0"), ("n0", "3", "1"), ("n1", "1", "0"), ("n2", "1", "0")]
BLOCKERS = ["!c/n0", "!<c/n0-2", "!c/n0:1", "!c/n1", "!>=c/n1-2", "!!c/n2", "!=c/n0-1"]
HARDREFS = ["c/n0", "c/n1", ">=c/n0-2"]


class World:
    """The objects histories are made of (built once per process)."""

    _inst = None

    @classmethod
    def get(cls):
        if cls._inst is None:
            cls._inst = cls()
        return cls._inst

    def __init__(self):
        import logging

        logging.disable(logging.WARNING)
        from pkgcore.ebuild.atom import atom
        from pkgcore.resolver import state
        from pkgcore.resolver.choice_point import choice_point

        from ..gen import c15_harness as hz

        self.state_mod = state
        self.choice_point = choice_point
        self.atom = atom
        empty = {c: [] for c in ("DEPEND", "BDEPEND", "RDEPEND", "IDEPEND", "PDEPEND")}
        src = hz.build_tree([{"name": n, "ver": v, "slot": s, "deps": empty} for n, v, s in SRC], False, "src")
        vdb = hz.build_tree([{"name": n, "ver": v, "slot": s, "deps": empty} for n, v, s in VDB], True, "vdb")
        self.pkgs = {}
        for tree, tag in ((src, "src"), (vdb, "vdb")):
            for p in tree:
                self.pkgs["%s:%s-%s" % (tag, p.package, p.fullver)] = p
        self.label = {id(p): k for k, p in self.pkgs.items()}
        self.blockers = {b: atom(b) for b in BLOCKERS}
        self.hardrefs = {h: atom(h) for h in HARDREFS}
        for k, b in list(self.blockers.items()) + list(self.hardrefs.items()):
            self.label[id(b)] = k
        self.cps = {}            # label -> choice_point (kept alive: labels are by id)

    def new_cp(self, pkglabel, serial):
        lab = "cp:%s#%d" % (pkglabel, serial)
        if lab not in self.cps:
            p = self.pkgs[pkglabel]
            cp = self.choice_point(self.atom(p.key), [p])
            self.cps[lab] = cp
            self.label[id(cp)] = lab
        return self.cps[lab]

    def lab(self, obj):
        return self.label.get(id(obj), "?%s@%x" % (obj, id(obj)))


def snapshot(w, st):
    lab = w.lab
    return {
        "slots": {k: sorted(lab(x) for x in v) for k, v in st.state.slot_dict.items() if v},
        "limiters": {k: sorted(lab(x) for x in v) for k, v in st.state.limiters.items() if v},
        "blockers_refcnt": {lab(b): c for b, c in st.blockers_refcnt.items()},
        "rev_blockers": {lab(cp): sorted([lab(b), k] for b, k in l) for cp, l in st.rev_blockers.items()},
        "pkg_choices": {lab(p): lab(c) for p, c in st.pkg_choices.items()},
        "vdb_filter": sorted(lab(p) for p in st.vdb_filter),
        "forced_restrictions": {lab(r): c for r, c in st.forced_restrictions.items()},
        "plan_len": len(st.plan),
    }


def diff_fields(a, b):
    return sorted(k for k in a if a[k] != b.get(k))


class Machine:
    """Executes a history (list of JSON step descriptors) on a real plan_state and judges it."""

    def __init__(self, world):
        self.w = world
        self.st = world.state_mod.plan_state()
        self.serial = 0
        self.pending = {}       # pkglabel -> choice_point that will carry the package when it is added
        self.live = []          # surviving top-level ops: dict(step, call, len_after, ok)
        self.boundaries = [(0, snapshot(world, self.st))]     # (plan length, snapshot) after each surviving op
        self.problems = []      # [(kind, detail dict)]
        self.stats = {}
        self.dead = False
        self.executed = []      # the steps that were applicable and executed
        self.nontrivial_keys = []

    # -- helpers ----------------------------------------------------------------------------------
    def count(self, name, n=1):
        self.stats[name] = self.stats.get(name, 0) + n

    def in_plan(self, pkg):
        return any(x is pkg for x in self.st.pkg_choices)

    def collides(self, pkg):
        """an equal but distinct object is tracked in a dict/set keyed by equality"""
        return any(x == pkg and x is not pkg for x in itertools.chain(self.st.pkg_choices, self.st.vdb_filter))

    def cp_in_plan(self, pkg):
        for x, c in self.st.pkg_choices.items():
            if x is pkg:
                return c
        return None

    def cp_for_insert(self, label):
        cp = self.pending.pop(label, None)
        if cp is None:
            self.serial += 1
            cp = self.w.new_cp(label, self.serial)
        return cp

    def cp_for_blocker(self, label):
        pkg = self.w.pkgs[label]
        cp = self.cp_in_plan(pkg)
        if cp is not None:
            return cp
        if label not in self.pending:
            self.serial += 1
            self.pending[label] = self.w.new_cp(label, self.serial)
        return self.pending[label]

    def applicable(self, step):
        w, st = self.w, self.st
        kind = step[0]
        if kind in ("add", "forceadd", "replace", "remove", "backref"):
            pkg = w.pkgs[step[1]]
            livefs = bool(pkg.repo.livefs)
            occupant = st.state.get_conflicting_slot(pkg)
            if kind == "add":
                return not self.collides(pkg) and pkg not in st.pkg_choices and pkg not in st.vdb_filter
            if kind == "forceadd":
                return livefs and occupant is None and not self.collides(pkg) and pkg not in st.pkg_choices \
                    and pkg not in st.vdb_filter
            if kind == "replace":
                if livefs or occupant is None or occupant is pkg or not occupant.repo.livefs or self.in_plan(pkg) \
                        or pkg in st.vdb_filter:
                    return False
                if any(x == pkg and x is not pkg and x is not occupant for x in itertools.chain(st.pkg_choices, st.vdb_filter)):
                    return False
                return True
            if kind == "remove":
                return self.in_plan(pkg) and not self.collides(pkg)
            if kind == "backref":
                return self.in_plan(pkg)
        if kind == "blocker":
            return True
        if kind == "unblock":
            pkg = w.pkgs[step[1]]
            cp = self.cp_in_plan(pkg) or self.pending.get(step[1])
            return cp is not None and cp in st.rev_blockers
        if kind == "hardref":
            return True
        if kind == "backtrack":
            return 0 <= step[1] < len(self.boundaries) - 0 and self.boundaries[step[1]][0] < len(st.plan)
        return False

    def make_call(self, step):
        """-> (callable(plan_state) -> result, meta)"""
        w, sm = self.w, self.w.state_mod
        kind = step[0]
        if kind == "add":
            pkg, cp = w.pkgs[step[1]], self.cp_for_insert(step[1])
            return lambda st: sm.add_op(cp, pkg).apply(st)
        if kind == "forceadd":
            # merge_plan._ensure_livefs_is_loaded always makes a new choice point (one that carries no blockers)
            self.serial += 1
            pkg, cp = w.pkgs[step[1]], w.new_cp(step[1], self.serial)
            return lambda st: sm.add_op(cp, pkg, force=True).apply(st)
        if kind == "replace":
            pkg, cp = w.pkgs[step[1]], self.cp_for_insert(step[1])
            return lambda st: sm.replace_op(cp, pkg).apply(st)
        if kind == "remove":
            pkg = w.pkgs[step[1]]
            cp = self.cp_in_plan(pkg)
            return lambda st: sm.remove_op(cp, pkg).apply(st)
        if kind == "backref":
            pkg = w.pkgs[step[1]]
            cp = self.cp_in_plan(pkg)
            return lambda st: sm.add_backref_op(cp, pkg).apply(st)
        if kind == "blocker":
            cp, b = self.cp_for_blocker(step[1]), w.blockers[step[2]]

            bkey = step[3] if len(step) > 3 else b.key

            def call(st):
                st.add_blocker(cp, b, key=bkey)
                return None     # the blocker stays registered whatever it hit
            return call
        if kind == "unblock":
            pkg = w.pkgs[step[1]]
            cp = self.cp_in_plan(pkg) or self.pending.get(step[1])
            return lambda st: st._remove_pkg_blockers(cp)
        if kind == "hardref":
            r = w.hardrefs[step[1]]
            return lambda st: sm.add_hardref_op(r).apply(st)
        raise ValueError(step)

    def describe_pre(self, step):
        """facts about the state before a replace, for the classifier"""
        if step[0] != "replace":
            return {}
        pkg = self.w.pkgs[step[1]]
        old = self.st.state.get_conflicting_slot(pkg)
        return {"old": self.w.lab(old),
                "old_limited_by": sorted(self.w.lab(x) for x in self.st.state.check_limiters(old)),
                "new_limited_by": sorted(self.w.lab(x) for x in self.st.state.check_limiters(pkg)),
                "old_own_blockers": sorted(self.w.lab(b) for b, _k in self.st.rev_blockers.get(self.cp_in_plan(old), ()))}

    # -- execution ----------------------------------------------------------------------------------
    def step(self, step):
        if self.dead or not self.applicable(step):
            self.count("skipped_inapplicable")
            return False
        self.executed.append(step)
        st = self.st
        if step[0] == "backtrack":
            return self.do_backtrack(step)
        before = snapshot(self.w, st)
        pre = self.describe_pre(step)
        call = self.make_call(step)
        n0 = len(st.plan)
        try:
            ret = call(st)
        except Exception as e:
            self.problems.append(("op-raises", {"rule": step[0] + "-raises", "step": step, "exc": type(e).__name__,
                                                 "msg": str(e)[:200], "pre": pre,
                                                 "fields_changed": self.safe_diff(before)}))
            self.dead = True
            return True
        after = snapshot(self.w, st)
        self.count("op:" + step[0])
        failed = bool(ret) and step[0] in ("add", "replace")
        if failed:
            self.count("failed_ops_judged")
            self.count("failed:" + step[0])
            if after != before:
                self.problems.append(("failed-op-changed-state", {"rule": "failed-" + step[0], "step": step, "pre": pre,
                                                                   "fields": diff_fields(before, after),
                                                                   "before": before, "after": after}))
        elif step[0] == "forceadd" and self.st.state.check_limiters(self.w.pkgs[step[1]]):
            self.count("forced_add_under_limiter")
        self.live.append({"step": step, "call": call, "len_after": len(st.plan), "ok": not failed,
                          "compound": len(st.plan) - n0, "pre": pre})
        self.boundaries.append((len(st.plan), after))
        return True

    def safe_diff(self, before):
        try:
            return diff_fields(before, snapshot(self.w, self.st))
        except Exception as e:     # the state may be beyond canonicalisation
            return ["<snapshot failed: %r>" % (e,)]

    def do_backtrack(self, step):
        st = self.st
        p, want = self.boundaries[step[1]]
        undone = self.live[step[1]:]
        try:
            st.backtrack(p)
        except Exception as e:
            self.problems.append(("rollback-raises", {"rule": "rollback-raises", "step": step, "to": p,
                                                       "exc": type(e).__name__, "msg": str(e)[:200],
                                                       "undone": [op["step"] for op in undone],
                                                       "undone_replaces": [op["pre"] for op in undone
                                                                           if op["step"][0] == "replace" and op["ok"]]}))
            self.dead = True
            return True
        got = snapshot(self.w, st)
        self.count("backtracks_judged")
        self.count("evals", 2)
        for op in undone:
            self.count("undone:" + op["step"][0])
        nontrivial = any(op["step"][0] in ("replace", "remove", "unblock") for op in undone) or \
            any(c >= 2 for c in self.boundaries[-1][1]["blockers_refcnt"].values())
        if nontrivial:
            self.nontrivial_keys.append(json.dumps(self.executed))
        if got != want:
            self.problems.append(("rollback-mismatch-recorded", {"rule": "vs-recorded:" + ",".join(diff_fields(want, got)),
                                                                  "step": step, "to": p, "fields": diff_fields(want, got),
                                                                  "want": want, "got": got,
                                                                  "undone": [op["step"] for op in undone]}))
        # surviving operations
        self.live = self.live[:step[1]]
        del self.boundaries[step[1] + 1:]
        # replay them on a fresh plan_state
        fresh = self.w.state_mod.plan_state()
        self.count("replays")
        try:
            for op in self.live:
                if op["ok"]:
                    r = op["call"](fresh)
                    if r and op["step"][0] in ("add", "replace"):
                        raise RuntimeError("operation %r fails on replay" % (op["step"],))
            rep = snapshot(self.w, fresh)
        except Exception as e:
            self.problems.append(("replay-diverges", {"rule": "replay-diverges", "step": step, "exc": repr(e)[:200]}))
            return True
        if rep != got:
            self.problems.append(("rollback-mismatch-replay", {"rule": "vs-replay:" + ",".join(diff_fields(rep, got)),
                                                                "step": step, "to": p, "fields": diff_fields(rep, got),
                                                                "want": rep, "got": got,
                                                                "undone": [op["step"] for op in undone]}))
        return True


# ---------------------------------------------------------------------------------------------------- generation

def candidates(m, rng):
    """Applicable steps in the current state, grouped by kind (so that kinds are drawn evenly)."""
    w = m.w
    groups = {}
    for lab in w.pkgs:
        for kind in ("add", "forceadd", "replace", "remove", "backref", "unblock"):
            s = [kind, lab]
            if m.applicable(s):
                groups.setdefault(kind, []).append(s)
    owners = [m.w.lab(p) for p in m.st.pkg_choices] + list(w.pkgs)
    groups["blocker"] = [["blocker", rng.choice(owners), b] for b in BLOCKERS]
    # a blocker may be filed under a key other than its own (merge_plan passes key= explicitly; it always passes the
    # same key for the same blocker, so the foreign key is a fixed function of the blocker): an optional 4th
    # element names that key - the key of some package of the world - for every third blocker
    labs = sorted(w.pkgs)
    for i, s in enumerate(groups["blocker"]):
        if i % 3 == 1:
            s.append(w.pkgs[labs[(i * 5) % len(labs)]].key)
    groups["hardref"] = [["hardref", h] for h in HARDREFS]
    bt = [["backtrack", i] for i in range(len(m.boundaries)) if m.applicable(["backtrack", i])]
    if bt:
        groups["backtrack"] = bt
    return groups


WEIGHTS = {"add": 5, "forceadd": 4, "replace": 6, "remove": 3, "backref": 1, "unblock": 2, "blocker": 6, "hardref": 1,
           "backtrack": 5}


def random_history(ctx_rng, world, maxlen):
    m = Machine(world)
    for _ in range(maxlen):
        g = candidates(m, ctx_rng)
        kinds = sorted(g)
        kind = ctx_rng.choices(kinds, weights=[WEIGHTS[k] for k in kinds])[0]
        m.step(ctx_rng.choice(g[kind]))
        if m.dead:
            break
    return m


REDUCED = [
    ["forceadd", "vdb:n0-1"], ["add", "src:n0-2"], ["add", "src:n0-3"], ["replace", "src:n0-2"], ["replace", "src:n0-1"],
    ["remove", "vdb:n0-1"], ["remove", "src:n0-2"],
    ["blocker", "src:n1-1", "!<c/n0-2"], ["blocker", "src:n0-3", "!<c/n0-2"], ["blocker", "src:n1-1", "!c/n0"],
    ["blocker", "vdb:n0-1", "!c/n0:1"], ["unblock", "src:n1-1"], ["unblock", "vdb:n0-1"],
    ["backtrack", 0], ["backtrack", 1], ["backtrack", 2],
]


def run_history(world, steps, strict=False):
    m = Machine(world)
    for s in steps:
        if not m.step(s) and strict:
            break
        if m.dead:
            break
    return m


def shrink(world, steps, kind_rule):
    """greedy step deletion keeping a violation with the same (kind, rule prefix)"""
    def bad(hs):
        m = run_history(world, hs)
        return any((k, d["rule"].split(":")[0]) == kind_rule for k, d in m.problems)

    cur = list(steps)
    changed = True
    while changed:
        changed = False
        for i in range(len(cur)):
            cand = cur[:i] + cur[i + 1:]
            if bad(cand):
                cur = cand
                changed = True
                break
    return cur


def report(ctx, world, m, steps, do_shrink=True):
    ctx.evaluated(m.stats.get("evals", 0) + m.stats.get("failed_ops_judged", 0) + len(m.executed))
    for k, v in m.stats.items():
        if k != "evals":
            ctx.count(k, v)
    for k in m.nontrivial_keys:
        ctx.nontrivial(k)
    seen = set()
    for kind, d in m.problems:
        kr = (kind, d["rule"].split(":")[0])
        if kr in seen:
            continue
        seen.add(kr)
        hist = list(m.executed)
        if do_shrink:
            hist = shrink(world, hist, kr)
            m2 = run_history(world, hist)
            hit = [(k2, d2) for k2, d2 in m2.problems if (k2, d2["rule"].split(":")[0]) == kr]
            if hit:
                kind, d = hit[0]
                hist = list(m2.executed)
        w = {"history": hist, "rule": d["rule"]}
        w.update({k: v for k, v in d.items() if k != "rule"})
        ctx.violation(kind, w)


def classify(w):
    if w.get("kind") == "op-raises" and w.get("rule") == "replace-raises" and w.get("exc") == "AssertionError":
        pre = w.get("pre") or {}
        # replace_op.apply's failure path: the new package hits a limiter, and the old one cannot be put back
        # because a limiter (not its own) matches it too
        foreign = [b for b in pre.get("old_limited_by", []) if b not in pre.get("old_own_blockers", [])]
        if pre.get("new_limited_by") and foreign and w.get("msg", "") == "":
            return K_REPLACE_FAIL
    if w.get("kind") == "rollback-raises" and w.get("exc") == "AssertionError" and \
            (w.get("msg") or "").startswith("Internal error detected, unable to revert replace") and \
            "got [], force_old=True" in (w.get("msg") or ""):
        # replace_op recorded force_old because the old package was matched by a limiter, but that limiter was a
        # blocker of the old package's own choice point, which replace_op had dropped (and whose re-instatement comes
        # later in the LIFO rollback)
        pres = w.get("undone_replaces") or []
        if any(p.get("old_limited_by") and set(p["old_limited_by"]) <= set(p.get("old_own_blockers", [])) for p in pres):
            return K_REVERT_OWN
    return None


def run(ctx):
    world = World.get()
    rng = ctx.rng
    # (a) bounded-exhaustive over the reduced alphabet: depth-first over the applicable histories
    depth = ctx.budget(4, 6)
    state = {"complete": True, "nodes": 0}

    def dfs(prefix):
        for i, s in enumerate(REDUCED):
            if len(prefix) == 1 and (REDUCED.index(prefix[0]) * len(REDUCED) + i) % ctx.nshards != ctx.shard:
                continue          # the depth-2 prefixes are dealt out to the shards
            h = prefix + [list(s)]
            m = run_history(world, h, strict=True)
            if len(m.executed) != len(h):
                ctx.count("exhaustive_pruned_inapplicable")
                continue
            state["nodes"] += 1
            if len(h) >= 2 or ctx.shard == 0:
                ctx.count("exhaustive_histories")
                report(ctx, world, m, h)
            if state["nodes"] % 500 == 0 and ctx.out_of_time(90):
                state["complete"] = False
                return
            if len(h) < depth and not m.dead:
                dfs(h)
                if not state["complete"]:
                    return

    dfs([])
    if state["complete"]:
        ctx.count("exhaustive_complete_shards")
    else:
        ctx.note("bounded-exhaustive enumeration stopped early by the soft deadline")
    # (b) random histories
    nh = ctx.budget(2500, 50000)
    for i in range(nh):
        m = random_history(rng, world, rng.choice([8, 15, 30]))
        ctx.count("random_histories")
        if i < 3:
            ctx.sample({"history": m.executed, "final_snapshot": snapshot(world, m.st) if not m.dead else "<dead>"})
        report(ctx, world, m, m.executed)
        if i % 50 == 0 and ctx.out_of_time(30):
            ctx.note("random histories stopped early by the soft deadline after %d" % (i + 1))
            break


def replay(ctx, w):
    world = World.get()
    m = run_history(world, [list(s) for s in w["history"]])
    report(ctx, world, m, w["history"], do_shrink=False)
