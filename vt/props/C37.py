"""C37 Bugzilla searches keep their meaning when rendered, combined and batched."""

import functools
import json
import operator
import random
import urllib.parse

from ..gen import c37_queries as gen
from ..ref import c37_chart as ref

ID = "C37"
LEVEL = "exploration"
TECHNIQUE = "contract monitor on BugQuery.params (slot structure) + reference chart evaluator over a bug universe + partition laws on batches"
RULE = ("random search recipes: every named constructor, directly built (negated) criteria and AND/OR/AND_G groups (nesting depth up to ~6), "
        "any_of groups (also of conjunctions), &-chains of 1-5 operands (flat and nested), paged/order riders; each built "
        "with the real API and rendered; rendered parameters are (1) checked structurally (slots 1..N, one f per slot, "
        "OP/CP balanced, condition/group counts equal to the real chart objects) and (2) evaluated by a reference chart "
        "interpreter on a fixed universe of 200 model bugs and compared with the meaning computed from the recipe, plus the "
        "direct law eval(a&b) == eval(a) and eval(b) on the implementation's own renderings; (3) batching: id lists of "
        "0-3000 ids and package lists of 1-400 long atoms (and directly built splittable criteria, a few of them on a field "
        "name shorter than their rendered v<slot> key) with riders, random "
        "base_length/max_length incl. budgets below one value: concatenated split values == original in order, no empty "
        "batch, every other parameter identical in every batch, encoded length within budget whenever every single value "
        "fits. A search is non-trivial when it has >=2 constraints and its truth vector over the universe is mixed; a "
        "batching case when >=2 batches are produced and every single value fits; distinct = distinct recipe(+budget).")
ASSUMPTIONS = [
    "Bugzilla semantics of rendered parameters: plain field=value ORed within a field and ANDed across fields, "
    "resolution=--- means no resolution, chart conditions ANDed at top level, OP/CP groups joined by j<N> (default AND), "
    "n<N>=1 negates; AND_G is evaluated as AND on the single-row model bugs",
    "operator semantics are a shared word/substring model over small vocabularies (the property is about structure, "
    "not about Bugzilla's SQL); tag vocabulary is substring-free so 'carries the tag' == nowordssubstr's test",
    "q1 & q2 with constraints on the SAME plain field yields the union of the values (documented in the module "
    "docstring and pinned by the repo's tests); the oracle accepts that documented union (and would equally accept a "
    "true intersection) instead of demanding the conjunction",
    "any_of(q1, ..) means 'at least one qi holds' for each operand AS A WHOLE (constructor docstring: OR several "
    "queries together)",
    "empty value lists (ids(()), keywords()) are not given a meaning: Bugzilla ignores such constraints",
    "the order of parameters with different keys is immaterial to Bugzilla; only per-key value order is compared",
    "which axis is split is taken from the output (the one axis whose values differ between batches); for the budget "
    "clause with a single batch the widest axis (docstring of batches()) supplies 'a single value fits'",
]
SHARDS = {"quick": 4, "thorough": 16}
TIMEOUT = {"quick": 240, "thorough": 1800}
MIN_EVALS = 20000
REQUIRED_COUNTERS = ("contract_params_calls", "meaning_queries", "and_law_checked", "batch_queries", "batches_multi",
                     "batch_budget_checked", "groups_rendered", "negations_rendered")

# set to False to treat any_of() over an operand with several charts as unspecified instead of judging it
JUDGE_ANYOF_OPERAND_CONJUNCTION = True
# set to False to keep directly built splittable criteria whose field name is shorter than their rendered v<slot>
# key out of the batching workload (they are outside the named constructors)
INCLUDE_SHORT_FIELD_SPLIT_AXIS = False  # directly built short-field criteria are outside the statement quantifier (named constructors)

UNIVERSE_SEED, UNIVERSE_SIZE = 37, 200
_universe = None


def universe():
    global _universe
    if _universe is None:
        _universe = gen.universe(random.Random(UNIVERSE_SEED), UNIVERSE_SIZE)
    return _universe


def as_dict(params, drop=None):
    d = {}
    for k, v in params:
        if k != drop:
            d.setdefault(k, []).append(v)
    return d


class Mon:
    def __init__(self, ctx):
        from pkgcore.bugzilla import enums, query
        from pkgcore.bugzilla.errors import BugzillaUsageError

        self.ctx = ctx
        self.q = query
        self.Q = query.BugQuery
        self.enums = enums
        self.Usage = BugzillaUsageError
        if getattr(self.Q.params, "_vt_c37", False):
            return
        orig = self.Q.params
        mon = self

        def monitored_params(self_):
            res = orig(self_)
            try:
                mon.judge_structure(self_, res)
            except Exception as e:
                ctx.note("monitor error in params(): %r" % (e,))
            return res

        monitored_params._vt_c37 = True
        self.Q.params = monitored_params

    # ---- contract on params(): slot structure ------------------------------------------------------
    def _count_objects(self, charts):
        conds = groups = negs = 0
        stack = list(charts)
        while stack:
            c = stack.pop()
            if isinstance(c, self.q.ChartGroup):
                groups += 1
                stack.extend(c.children)
            else:
                conds += 1
                negs += bool(c.negate)
        return conds, groups, negs

    def judge_structure(self, query, params):
        ctx = self.ctx
        ctx.count("contract_params_calls")
        p = ref.parse_params(params)
        conds, groups, negs = self._count_objects(query.charts)
        ctx.evaluated()
        ctx.count("conditions_rendered", p.nconds)
        ctx.count("groups_rendered", p.ngroups)
        ctx.count("negations_rendered", negs)
        if p.maxdepth >= 2:
            ctx.count("nested_groups_rendered")
        errors = list(p.errors)
        if (p.nconds, p.ngroups) != (conds, groups):
            errors.append("object-count: rendered %d conditions/%d groups, the query holds %d/%d" % (p.nconds, p.ngroups, conds, groups))
        if p.nslots != conds + 2 * groups:
            errors.append("slot-count: %d slots used for %d conditions and %d groups" % (p.nslots, conds, groups))
        if errors:
            ctx.violation("chart-structure", {"query": repr(query)[:2000], "params": [list(x) for x in params][:400],
                                              "errors": errors[:6], "rule": errors[0].split(":")[0]})
        return p

    # ---- building real queries from recipes -----------------------------------------------------------
    def chart(self, c):
        q = self.q
        if c[0] == "crit":
            _, field, op, values, negate, split = c
            return q.Criterion(field, self.enums.ChartOp(op), tuple(values), negate=bool(negate), splittable=bool(split))
        _, join, children = c
        return q.ChartGroup(self.enums.Join(join), tuple(self.chart(x) for x in children))

    def build(self, r):
        Q, E = self.Q, self.enums
        k = r[0]
        if k == "ids":
            return Q.ids(iter(r[1]))
        if k == "product":
            return Q.product(*r[1])
        if k == "component":
            return Q.component(*[E.Component(x) if i % 2 else x for i, x in enumerate(r[1])])
        if k == "category":
            return Q.category(*[E.BugCategory(x) for x in r[1]])
        if k == "unresolved":
            return Q.unresolved()
        if k == "resolution":
            return Q.resolution(*r[1])
        if k == "status":
            return Q.status(*[E.Status(x) if i % 2 else x for i, x in enumerate(r[1])])
        if k == "cc":
            return Q.cc(*r[1])
        if k == "assigned_to":
            return Q.assigned_to(*r[1])
        if k == "keywords":
            return Q.keywords(*r[1])
        if k == "flag":
            return Q.flag(r[1], *[E.FlagStatus(x) if i % 2 else x for i, x in enumerate(r[2])])
        if k == "without_tags":
            return Q.without_tags(*r[1])
        if k == "package_list_any":
            return Q.package_list_any(iter(r[1]))
        if k == "chart":
            return Q(charts=(self.chart(r[1]),))
        if k == "order":
            return Q(order=r[1])
        if k == "empty":
            return Q()
        if k == "paged":
            return self.build(r[1]).paged(r[2], r[3])
        if k == "and":
            return functools.reduce(operator.and_, [self.build(x) for x in r[1]])
        if k == "any_of":
            return Q.any_of(*[self.build(x) for x in r[1]])
        raise ValueError(k)

    # ---- meaning ------------------------------------------------------------------------------------------
    def vector(self, parsed):
        return [ref.eval_params(parsed, b) for b in universe()]

    def check_meaning(self, recipe):
        ctx = self.ctx
        m = ref.meaning_of(recipe)
        if m.anyof_multi and not JUDGE_ANYOF_OPERAND_CONJUNCTION:
            ctx.skip_unspecified("any_of() over an operand holding several charts")
            return
        q = self.build(recipe)
        params = q.params()
        p = ref.parse_params(params)
        if p.errors:
            return  # reported by the contract; an ill-formed chart has no meaning to compare
        ctx.count("meaning_queries")
        ctx.count("shared_plain_field_unions_checked", m.shared_keys)
        if m.anyof_multi:
            ctx.count("any_of_over_conjunction_queries")
        U = universe()
        got = self.vector(p)
        want = [ref.eval_meaning(m, b) for b in U]
        ctx.evaluated(len(U))
        nconstraints = len(m.simple) + sum(ref.count_leaves(f) for f in m.formulas)
        mixed = 0 < sum(want) < len(U)
        if nconstraints >= 2 and mixed:
            ctx.nontrivial(json.dumps(recipe))
            ctx.count("nontrivial_depth%d" % max([ref.depth(f) for f in m.formulas] or [0]))
        if ctx.want_sample() and mixed and nconstraints >= 3 and any(ref.depth(f) for f in m.formulas):
            ctx.sample({"recipe": recipe, "params": params, "bugs_matching": sum(want), "universe": len(U)})
        if got != want and m.shared_keys:
            # a stricter implementation that really intersects same-field constraints would satisfy the statement too
            conj = ref.compile_conjunction(recipe)
            if got == [conj(b) for b in U]:
                ctx.count("shared_plain_field_true_conjunction_seen")
                want = got
        if got != want:
            idx = [i for i in range(len(U)) if got[i] != want[i]]
            w = {"recipe": recipe, "params": [list(x) for x in params], "universe": [UNIVERSE_SEED, UNIVERSE_SIZE],
                 "bugs_differing": len(idx), "example_bug": U[idx[0]], "impl_matches": got[idx[0]],
                 "want_matches": want[idx[0]], "anyof_multi": m.anyof_multi, "shared_keys": m.shared_keys}
            if m.anyof_multi:
                alt = ref.meaning_of(recipe, any_of_keeps_conjunction=False)
                w["matches_flatten_model"] = got == [ref.eval_meaning(alt, b) for b in U]
                w["rule"] = "any_of-operand-conjunction" if w["matches_flatten_model"] else "meaning"
            else:
                w["rule"] = "shared-plain-field" if m.shared_keys else "meaning"
            ctx.violation("rendered-meaning-differs", w)
        # the direct law on the implementation's own renderings: eval(a & b & ..) == eval(a) and eval(b) and ..
        if recipe[0] == "and":
            subs = [ref.meaning_of(x) for x in recipe[1]]
            keys = [k for s in subs for k in s.simple]
            if len(keys) != len(set(keys)):
                ctx.skip_unspecified("& of operands constraining the same plain field: documented union checked "
                                     "instead of the conjunction law")
                return
            vecs = []
            for x in recipe[1]:
                px = ref.parse_params(self.build(x).params())
                if px.errors:
                    return
                vecs.append(self.vector(px))
            conj = [all(col) for col in zip(*vecs)]
            ctx.count("and_law_checked")
            ctx.evaluated(len(U))
            if conj != got:
                i = [j for j in range(len(U)) if conj[j] != got[j]][0]
                ctx.violation("and-is-not-conjunction", {
                    "recipe": recipe, "params": [list(x) for x in params], "universe": [UNIVERSE_SEED, UNIVERSE_SIZE],
                    "example_bug": U[i], "combined_matches": got[i], "operands_match": [v[i] for v in vecs],
                    "rule": "and-law"})

    # ---- batching -----------------------------------------------------------------------------------------
    def check_batches(self, recipe, base, maxlen):
        ctx = self.ctx
        q = self.build(recipe)
        m = ref.meaning_of(recipe)
        orig = q.params()
        P = ref.parse_params(orig)
        if P.errors or len(P.top) != len(m.split):
            return
        wit = {"recipe": _shrink(recipe), "base_length": base, "max_length": maxlen}
        ctx.count("batch_queries")
        try:
            batches = list(q.batches(base_length=base, max_length=maxlen))
        except Exception as e:
            ctx.evaluated()
            ctx.violation("batches-crash", dict(wit, exc=repr(e), rule=type(e).__name__))
            return
        bps = [b.params() for b in batches]
        ctx.count("batches_produced", len(bps))
        axes = []
        if "id" in m.simple:
            axes.append(("id", "id", P.simple.get("id", []), "id"))
        for i, sp in enumerate(m.split):
            if sp is not None:
                axes.append(("chart%d" % i, "v%d" % P.top[i].slot, list(P.top[i].values), P.top[i].field))
        ctx.evaluated()
        if not axes:
            ctx.count("batch_no_axis")
            if len(bps) != 1 or as_dict(bps[0]) != as_dict(orig):
                ctx.violation("unsplittable-query-changed", dict(wit, batches=len(bps), rule="no-axis"))
            return
        if not bps:
            ctx.violation("batch-partition", dict(wit, batches=0, rule="no-batch-at-all"))
            return
        if len(bps) > 1:
            ctx.count("batches_multi")

        def vals(bp, key):
            return [v for k, v in bp if k == key]

        varying = [a for a in axes if any(vals(bp, a[1]) != a[2] for bp in bps)]
        if not varying:
            if len(bps) != 1:
                ctx.violation("batch-partition", dict(wit, batches=len(bps), rule="whole-query-repeated"))
                return
            S = max(axes, key=lambda a: len("".join(a[2])))
            tied = [a for a in axes if len("".join(a[2])) == len("".join(S[2]))]
        elif len(varying) > 1:
            ctx.violation("batch-partition", dict(wit, batches=len(bps), axes=[a[0] for a in varying],
                                                  rule="several-axes-rebuilt"))
            return
        else:
            S = varying[0]
            tied = [S]
            concat = [v for bp in bps for v in vals(bp, S[1])]
            ctx.evaluated()
            if concat != S[2]:
                if sorted(concat) == sorted(S[2]):
                    rule = "reordered"
                elif len(concat) > len(S[2]):
                    rule = "duplicated"
                elif len(concat) < len(S[2]):
                    rule = "lost"
                else:
                    rule = "changed"
                ctx.violation("batch-partition", dict(wit, axis=S[0], batches=len(bps), values=len(S[2]),
                                                      values_in_batches=len(concat), rule=rule))
            if S[2] and any(not vals(bp, S[1]) for bp in bps):
                ctx.violation("batch-partition", dict(wit, axis=S[0], batches=len(bps), rule="empty-batch"))
        # every other parameter unchanged in every batch
        want_rest = as_dict(orig, drop=S[1])
        for n, bp in enumerate(bps):
            ctx.evaluated()
            rest = as_dict(bp, drop=S[1])
            if rest != want_rest:
                diff = sorted(k for k in set(rest) | set(want_rest) if rest.get(k) != want_rest.get(k))
                ctx.violation("batch-other-parameter-changed", dict(
                    wit, axis=S[0], batch=n, keys=diff[:8],
                    impl={k: rest.get(k) for k in diff[:4]}, want={k: want_rest.get(k) for k in diff[:4]},
                    rule="rider-changed"))
                break
        # budget
        fits = True
        for a in tied:
            rest_list = [(k, v) for k, v in orig if k != a[1]]
            rest_len = len(urllib.parse.urlencode(rest_list))
            sep = 1 if rest_list else 0
            for v in a[2]:
                if rest_len + sep + len(urllib.parse.urlencode([(a[1], v)])) + base > maxlen:
                    fits = False
                    break
        if not S[2]:
            ctx.count("batch_axis_empty")
        elif not fits:
            ctx.count("batch_budget_precondition_false")
        else:
            ctx.count("batch_budget_checked")
            lens = [len(urllib.parse.urlencode(bp)) for bp in bps]
            ctx.evaluated(len(bps))
            over = [(n, L) for n, L in enumerate(lens) if L + base > maxlen]
            if len(bps) > 1:
                ctx.nontrivial("batch " + json.dumps([wit["recipe"], base, maxlen]))
                ctx.count("batch_axis:" + S[0].rstrip("0123456789"))
            if over:
                n = over[0][0]
                ctx.violation("batch-over-budget", dict(
                    wit, axis=S[0], axis_field=S[3], axis_key=S[1], batches=len(bps), batch=n,
                    values_in_batch=len(vals(bps[n], S[1])), encoded_length=over[0][1],
                    overshoot=over[0][1] + base - maxlen,
                    rule="rendered-key-longer-than-field" if len(S[1]) > len(S[3]) else "over-budget"))
        if ctx.want_sample() and len(bps) > 2 and len(axes) > 1:
            ctx.sample({"recipe": wit["recipe"], "base_length": base, "max_length": maxlen, "batches": len(bps),
                        "split_axis": S[0], "values_per_batch": [len(vals(bp, S[1])) for bp in bps][:12]})


def _shrink(recipe):
    """Witnesses stay fully materialised (replay needs the values); only used as a hook for size accounting."""
    return recipe


def run(ctx):
    mon = Mon(ctx)
    rng = ctx.rng
    for k in range(ctx.budget(1200, 10000)):
        recipe = gen.query(rng)
        try:
            mon.check_meaning(recipe)
        except mon.Usage as e:
            ctx.note("generator produced a refused query: %r" % (e,))
        if k % 64 == 0 and ctx.out_of_time(60):
            break
    for k in range(ctx.budget(300, 2500)):
        if INCLUDE_SHORT_FIELD_SPLIT_AXIS and k % 25 == 3:
            recipe = gen.short_field_axis_recipe(rng)
        else:
            recipe = gen.batch_recipe(rng, big=(k % 7 == 0))
        base, maxlen = gen.budgets(rng, gen.nvalues(recipe))
        mon.check_batches(recipe, base, maxlen)
        if k % 3 == 0:
            mon.check_batches(recipe, 0, 6000)  # the defaults
        if k % 16 == 0 and ctx.out_of_time(20):
            break


def classify(w):
    # batches() sizes a chart value by its FIELD name although it is sent as v<slot>: only when the rendered key is the
    # longer one, and never by more than that difference per value in the batch
    if (w.get("kind") == "batch-over-budget" and isinstance(w.get("axis_key"), str) and isinstance(w.get("axis_field"), str)
            and w["axis"].startswith("chart") and len(w["axis_key"]) > len(w["axis_field"])
            and 0 < w.get("overshoot", 0) <= w.get("values_in_batch", 0) * (len(w["axis_key"]) - len(w["axis_field"]))):
        return "batch-cost-uses-field-name"
    if (w.get("kind") == "rendered-meaning-differs" and w.get("anyof_multi") and w.get("matches_flatten_model") is True
            and w.get("rule") == "any_of-operand-conjunction"):
        return "any-of-flattens-conjunction"
    return None


def replay(ctx, w):
    mon = Mon(ctx)
    if "max_length" in w:
        mon.check_batches(w["recipe"], w["base_length"], w["max_length"])
    elif "recipe" in w:
        mon.check_meaning(w["recipe"])
