"""C48 Cached metadata is used only while it is still valid (history property, real daemon)."""

import hashlib
import math
import os
import shutil

ID = "C48"
LEVEL = "exploration"
NEEDS_EBD = True
RULE = ("histories on small repositories (overlay O with master M, 1-2 ebuilds inheriting 0-3 eclasses found in O or M) with an "
        "md5-cache or a flat_hash (mtime) cache: warm the cache, then random edits (ebuild content with same/later/EARLIER mtime, "
        "ebuild touch forwards/backwards, eclass content, eclass touch, overlay starts / stops shadowing a master eclass, eclass removed, eclass moved overlay<->master with identical content, cache "
        "entry edits: INHERIT dropped, wrong checksum, truncated _eclasses_, entry removed, unrelated files) interleaved with "
        "metadata reads through FRESH repository objects. Oracle per read: daemon regeneration observed (counting proxy on "
        "EbuildProcessor.get_keys) <=> the on-disk entry is invalid by an independent validity model; metadata returned == a "
        "cache-less regeneration of the current sources; after regeneration the entry on disk validates. Non-trivial: a read "
        "preceded by at least one edit since the previous read of that package; distinct = (cache kind, edit kinds, expected validity).")
ASSUMPTIONS = [
    "validity model: recorded ebuild checksum (md5-cache: md5; flat_hash: floor(mtime)) equals current, every recorded eclass "
    "resolves (overlay first, then master) to a file with the recorded md5 (md5-cache) or recorded directory and floor(mtime) "
    "(flat_hash), and INHERIT present when eclasses are recorded",
    "a regeneration that fails because the ebuild inherits a removed eclass counts as 'not served from cache'",
    "bash 5.2 of this sandbox",
]
SHARDS = {"quick": 4, "thorough": 16}
TIMEOUT = {"quick": 360, "thorough": 1800}
MIN_EVALS = 60
REQUIRED_COUNTERS = ("reads", "contract_get_keys_calls", "reads_served_from_cache", "reads_regenerated",
                     "backdated_source_epilogues:flat", "backdated_source_epilogues:md5", "shadowing_epilogues")
TECHNIQUE = "runtime monitoring: history of edits/reads on real repos+daemon; regeneration observed vs independent validity model"

ECL_NAMES = ["e1", "e2", "e3"]


def md5_of(path):
    with open(path, "rb") as f:
        return hashlib.md5(f.read()).hexdigest()


class World:
    """The on-disk state plus the independent validity model."""

    def __init__(self, base, kind, rng):
        self.base = base
        self.kind = kind  # "md5" | "flat"
        self.rng = rng
        self.M = os.path.join(base, "m")
        self.O = os.path.join(base, "o")
        self.tick = 1_600_000_000 + rng.randrange(1000) * 10
        self.counter = 0
        self.all_edits = []

    # -- building -------------------------------------------------------------------
    def now(self):
        self.tick += self.rng.choice([1, 2, 7])
        return self.tick

    def write(self, path, text, mtime=None):
        from .. import ebd
        ebd.write(path, text)
        t = self.now() if mtime is None else mtime
        os.utime(path, (t, t))

    def eclass_path(self, where, name):
        return os.path.join(self.O if where == "o" else self.M, "eclass", name + ".eclass")

    def resolve_eclass(self, name):
        for where in ("o", "m"):
            p = self.eclass_path(where, name)
            if os.path.isfile(p):
                return p
        return None

    def entry_path(self, cpv):
        if self.kind == "md5":
            return os.path.join(self.O, "metadata", "md5-cache", cpv)
        return os.path.join(self.O, "fcache", cpv)

    def ebuild_path(self, cpv):
        from .. import ebd
        return ebd.ebuild_path(self.O, cpv)

    def open_repo(self, cached=True):
        from pkgcore.cache import flat_hash
        from pkgcore.ebuild import eclass_cache as ecm
        from pkgcore.ebuild import repo_objs, repository
        ec = ecm.StackedCaches([ecm.cache(os.path.join(self.O, "eclass"), location=self.M),
                                ecm.cache(os.path.join(self.M, "eclass"), location=self.M)],
                               location=self.M, eclassdir=self.M)
        if not cached:
            db = ()
        elif self.kind == "md5":
            db = (flat_hash.md5_cache(self.O, readonly=False),)
        else:
            db = (flat_hash.database(os.path.join(self.O, "fcache"), readonly=False),)
        mrepo = repository.UnconfiguredTree(self.M, repo_config=repo_objs.RepoConfig(location=self.M))
        return repository.UnconfiguredTree(self.O, eclass_cache=ec, masters=(mrepo,), cache=db,
                                           repo_config=repo_objs.RepoConfig(location=self.O))

    # -- independent validity model ---------------------------------------------------
    def parse_entry(self, cpv):
        p = self.entry_path(cpv)
        try:
            with open(p, encoding="utf8") as f:
                lines = f.read().split("\n")
        except OSError:
            return None
        d = {}
        for ln in lines:
            if "=" in ln:
                k, v = ln.split("=", 1)
                d[k] = v
        return d

    def entry_valid(self, cpv):
        """(valid, reason)"""
        d = self.parse_entry(cpv)
        if d is None:
            return False, "no-entry"
        eb = self.ebuild_path(cpv)
        if self.kind == "md5":
            if d.get("_md5_") is None:
                return False, "no-ebuild-checksum"
            try:
                if int(d["_md5_"], 16) != int(md5_of(eb), 16):
                    return False, "ebuild-md5-differs"
            except ValueError:
                return False, "ebuild-checksum-garbled"
        else:
            if d.get("_mtime_") is None:
                return False, "no-ebuild-mtime"
            try:
                if math.floor(float(d["_mtime_"])) != math.floor(os.stat(eb).st_mtime):
                    return False, "ebuild-mtime-differs"
            except ValueError:
                return False, "ebuild-checksum-garbled"
        ecl = d.get("_eclasses_")
        if ecl is None:
            return True, "valid-no-eclasses"
        fields = ecl.strip().split("\t")
        if fields == [""]:
            return (True, "valid-empty-eclasses") if d.get("INHERIT") is not None else (False, "no-INHERIT")
        if d.get("INHERIT") is None:
            return False, "no-INHERIT"
        width = 2 if self.kind == "md5" else 3
        if len(fields) % width:
            return False, "eclasses-truncated"
        for i in range(0, len(fields), width):
            name = fields[i]
            cur = self.resolve_eclass(name)
            if cur is None:
                return False, "eclass-missing"
            if self.kind == "md5":
                try:
                    if int(fields[i + 1], 16) != int(md5_of(cur), 16):
                        return False, "eclass-md5-differs"
                except ValueError:
                    return False, "eclass-checksum-garbled"
            else:
                if os.path.normpath(fields[i + 1]) != os.path.dirname(cur):
                    return False, "eclass-location-differs"
                try:
                    if math.floor(float(fields[i + 2])) != math.floor(os.stat(cur).st_mtime):
                        return False, "eclass-mtime-differs"
                except ValueError:
                    return False, "eclass-checksum-garbled"
        return True, "valid"


def gen_world(ctx, tag, kind=None):
    from .. import ebd
    rng = ctx.rng
    base = os.path.join(os.environ["VT_SCRATCH"], "w_" + tag)
    shutil.rmtree(base, ignore_errors=True)
    kind = kind or rng.choice(["md5", "flat"])
    w = World(base, kind, rng)
    ebd.make_repo(w.M, repo_id="m")
    ebd.make_repo(w.O, repo_id="o", masters=("m",))
    placement = {}
    for i, nm in enumerate(ECL_NAMES):
        placement[nm] = rng.choice(["o", "m"])
        nested = ""
        if i + 1 < len(ECL_NAMES) and rng.random() < 0.4:
            nested = "inherit %s\n" % ECL_NAMES[i + 1]
        w.write(w.eclass_path(placement[nm], nm), 'IUSE="%s_flag"\n%s' % (nm, nested))
    cpvs = []
    prev_inh = []
    for j in range(rng.choice([1, 2, 2, 3])):
        cpv = "cat/p%d-1" % j
        if j and rng.random() < 0.6:
            inh = list(prev_inh)     # packages sharing an inherit list are the common case in real trees
        else:
            inh = rng.sample(ECL_NAMES, rng.choice([0, 1, 1, 2, 3]))
        prev_inh = inh
        text = "EAPI=%s\nSLOT=0\nDESCRIPTION=\"d0\"\n" % rng.choice(["5", "6", "7", "8"])
        if inh:
            text += "inherit %s\n" % " ".join(inh)
        w.write(w.ebuild_path(cpv), text)
        cpvs.append(cpv)
    return w, cpvs


def edit(ctx, w, cpvs):
    """Apply one random edit; returns its kind (str)."""
    rng = w.rng
    cpv = rng.choice(cpvs)
    eb = w.ebuild_path(cpv)
    kinds = ["ebuild-content", "ebuild-content-same-mtime", "ebuild-touch", "eclass-content", "eclass-content-same-mtime",
             "eclass-touch", "eclass-remove", "eclass-move", "entry-drop-INHERIT", "entry-wrong-checksum",
             "entry-truncate-eclasses", "entry-remove", "unrelated-file", "ebuild-drop-inherit",
             "ebuild-content-older-mtime", "ebuild-touch-older", "eclass-content-older-mtime", "eclass-touch-older",
             "entry-wrong-checksum-later", "eclass-shadow", "eclass-shadow", "eclass-unshadow"]
    k = rng.choice(kinds)
    w.counter += 1
    older = lambda st: st.st_mtime - rng.choice([1, 3, 60, 86400, 40000000])  # restored / synced with an earlier timestamp
    if k in ("ebuild-content", "ebuild-content-same-mtime", "ebuild-content-older-mtime"):
        st = os.stat(eb)
        with open(eb) as f:
            text = f.read()
        text += 'KEYWORDS="~k%d"\n' % w.counter
        w.write(eb, text, mtime=st.st_mtime if k.endswith("same-mtime") else older(st) if k.endswith("older-mtime") else None)
    elif k == "ebuild-touch":
        t = w.now()
        os.utime(eb, (t, t))
    elif k == "ebuild-touch-older":
        t = older(os.stat(eb))
        os.utime(eb, (t, t))
    elif k == "ebuild-drop-inherit":
        st = os.stat(eb)
        with open(eb) as f:
            lines = f.read().split("\n")
        lines = [ln for ln in lines if not ln.startswith("inherit ")]
        w.write(eb, "\n".join(lines))
    elif k.startswith("eclass-"):
        name = rng.choice(ECL_NAMES)
        cur = w.resolve_eclass(name)
        if cur is None:
            # re-create a removed eclass
            w.write(w.eclass_path(rng.choice(["o", "m"]), name), 'IUSE="%s_flag re%d"\n' % (name, w.counter))
            return "eclass-recreate"
        if k == "eclass-shadow":
            # the overlay starts shipping its own (different) copy of an eclass that so far came from the master; the
            # master's file stays untouched
            mp, op = w.eclass_path("m", name), w.eclass_path("o", name)
            if os.path.isfile(mp) and not os.path.exists(op):
                with open(mp) as f:
                    text = f.read()
                st = os.stat(mp)
                w.write(op, text + 'IUSE+=" sh%d"\n' % w.counter, mtime=st.st_mtime if rng.random() < 0.3 else None)
                return k
            return "eclass-shadow-noop"
        if k == "eclass-unshadow":
            mp, op = w.eclass_path("m", name), w.eclass_path("o", name)
            if os.path.isfile(mp) and os.path.isfile(op):
                os.unlink(op)
                return k
            return "eclass-unshadow-noop"
        if k in ("eclass-content", "eclass-content-same-mtime", "eclass-content-older-mtime"):
            st = os.stat(cur)
            with open(cur) as f:
                text = f.read()
            w.write(cur, text + 'IUSE+=" c%d"\n' % w.counter,
                    mtime=st.st_mtime if k.endswith("same-mtime") else older(st) if k.endswith("older-mtime") else None)
        elif k == "eclass-touch":
            t = w.now()
            os.utime(cur, (t, t))
        elif k == "eclass-touch-older":
            t = older(os.stat(cur))
            os.utime(cur, (t, t))
        elif k == "eclass-remove":
            os.unlink(cur)
        elif k == "eclass-move":
            other = w.eclass_path("m" if cur.startswith(w.O + "/") else "o", name)
            st = os.stat(cur)
            with open(cur) as f:
                text = f.read()
            os.unlink(cur)
            # identical content; same or new mtime
            w.write(other, text, mtime=st.st_mtime if rng.random() < 0.5 else None)
    elif k.startswith("entry-"):
        p = w.entry_path(cpv)
        if not os.path.exists(p):
            return "entry-edit-noop"
        with open(p) as f:
            lines = f.read().split("\n")
        if k == "entry-drop-INHERIT":
            lines = [ln for ln in lines if not ln.startswith("INHERIT=")]
        elif k in ("entry-wrong-checksum", "entry-wrong-checksum-later"):
            key = "_md5_=" if w.kind == "md5" else "_mtime_="
            bad = ("0" * 32 if w.kind == "md5" else "12345") if k == "entry-wrong-checksum" else ("f" * 32 if w.kind == "md5" else "1999999999")
            lines = [(key + bad) if ln.startswith(key) else ln for ln in lines]
        elif k == "entry-truncate-eclasses":
            new = []
            for ln in lines:
                if ln.startswith("_eclasses_=") and "\t" in ln:
                    ln = ln.rsplit("\t", 1)[0]
                new.append(ln)
            lines = new
        elif k == "entry-remove":
            os.unlink(p)
            return k
        st = os.stat(p)
        with open(p, "w") as f:
            f.write("\n".join(lines))
        os.utime(p, (st.st_mtime, st.st_mtime))
    elif k == "unrelated-file":
        w.write(os.path.join(w.O, "cat", "README%d" % w.counter), "x\n")
        w.write(os.path.join(w.M, "eclass", "notes%d.txt" % w.counter), "x\n")
    return k


def plain(d):
    """Comparable view of a metadata mapping: string keys only."""
    if d is None:
        return None
    out = {}
    for k, v in d.items():
        if k.startswith("_") or not isinstance(v, str):
            continue
        out[k] = " ".join(v.split())
    return out


class Observer:
    def __init__(self, ctx):
        from pkgcore.ebuild import ebuild_src, processor
        self.ctx = ctx
        self.calls = 0
        self.meta = {}
        orig_get_keys = processor.EbuildProcessor.get_keys
        obs = self

        def counting_get_keys(self_, package_inst, eclass_cache):
            obs.calls += 1
            ctx.count("contract_get_keys_calls")
            return orig_get_keys(self_, package_inst, eclass_cache)

        processor.EbuildProcessor.get_keys = counting_get_keys
        orig_get = ebuild_src.package_factory._get_metadata

        def recording_get(self_, pkg, ebp=None, force_regen=False):
            res = orig_get(self_, pkg, ebp=ebp, force_regen=force_regen)
            obs.meta[pkg.cpvstr] = dict(res)
            return res

        ebuild_src.package_factory._get_metadata = recording_get

    def read(self, w, cpv, cached=True, repo=None, hold=None):
        """-> (regenerated?, metadata or None, error or None); repo: reuse one repository object for several reads;
        hold: a list that keeps the package objects (and their metadata) alive, as a caller iterating a repository does"""
        from pkgcore.ebuild.cpv import VersionedCPV
        c = VersionedCPV(cpv)
        if repo is None:
            repo = w.open_repo(cached=cached)
        before = self.calls
        self.meta.pop(cpv, None)
        err = None
        try:
            pkg = repo.package_class(c.category, c.package, c.fullver)
            data = pkg.data
            if hold is not None:
                hold.append((pkg, data, getattr(pkg, "inherited", None)))
        except Exception as e:
            err = "%s: %s" % (type(e).__name__, str(e)[:300])
        return self.calls > before, plain(self.meta.get(cpv)), err


def one_history(ctx, obs, tag, script=None, kind=None):
    from .. import ebd
    w, cpvs = gen_world(ctx, tag, kind)
    rng = ctx.rng
    log = []
    pending = {c: ["initial"] for c in cpvs}
    nsteps = ctx.budget(10, 16)
    for step in range(nsteps):
        if rng.random() < 0.55 and step:
            k = edit(ctx, w, cpvs)
            ctx.count("edit:" + k)
            w.all_edits.append(k)
            log.append(["edit", k])
            for c in cpvs:
                pending[c].append(k)
            continue
        if len(cpvs) > 1 and rng.random() < 0.4:
            # several packages through ONE repository object (what a repo scan does): per-repo memoisation
            # of validation results must not leak from one entry to another
            todo = list(cpvs)
            rng.shuffle(todo)
            shared = w.open_repo(cached=True)
            ctx.count("multi_package_reads_on_one_repo_object")
            held = [] if rng.random() < 0.5 else None
        else:
            todo, shared, held = [rng.choice(cpvs)], None, None
        for cpv in todo:
          valid, reason = w.entry_valid(cpv)
          ebd.take_stalls()
          regen, meta, err = obs.read(w, cpv, repo=shared, hold=held)
          stalls = ebd.take_stalls()
          _judge_read(ctx, w, obs, cpv, valid, reason, regen, meta, err, stalls, log, pending, step)
    # directed epilogue: partially refreshed cache.  Two packages record the same eclass; the eclass changes;
    # only one package is re-read (its entry is refreshed); then ONE repository object reads the refreshed
    # package first and the stale one second.
    shared_ecl = None
    if len(cpvs) > 1:
        inh = {}
        for c in cpvs:
            d = w.parse_entry(c) or {}
            names = (d.get("_eclasses_") or "").split("\t")[:: (2 if w.kind == "md5" else 3)]
            inh[c] = set(n for n in names if n)
        common = set.intersection(*inh.values()) if inh else set()
        common = [n for n in common if w.resolve_eclass(n)]
        if common:
            shared_ecl = rng.choice(sorted(common))
    if shared_ecl is not None and not ctx.out_of_time(60):
        cur = w.resolve_eclass(shared_ecl)
        with open(cur) as f:
            text = f.read()
        w.counter += 1
        w.write(cur, text + 'IUSE+=" ep%d"\n' % w.counter)
        w.all_edits.append("eclass-content")
        log.append(["edit", "eclass-content(epilogue:%s)" % shared_ecl])
        for c in cpvs:
            pending[c].append("eclass-content")
        first = rng.choice(cpvs)
        order = [first] + [c for c in cpvs if c != first]
        for cpv, repo_obj in [(first, None)]:
            valid, reason = w.entry_valid(cpv)
            ebd.take_stalls()
            regen, meta, err = obs.read(w, cpv, repo=repo_obj)
            _judge_read(ctx, w, obs, cpv, valid, reason, regen, meta, err, ebd.take_stalls(), log, pending, 99)
        shared = w.open_repo(cached=True)
        ctx.count("partial_refresh_epilogues")
        held = []      # the caller keeps every package it has read (a repository scan collecting results)
        for cpv in order:
            valid, reason = w.entry_valid(cpv)
            ebd.take_stalls()
            regen, meta, err = obs.read(w, cpv, repo=shared, hold=held)
            _judge_read(ctx, w, obs, cpv, valid, reason, regen, meta, err, ebd.take_stalls(), log, pending, 99)
    # directed epilogue: sources restored with an EARLIER timestamp (rsync/tar/git checkout preserve old mtimes).  Refresh one
    # package's entry, then change its ebuild (and, when it records one, an eclass) while moving the mtime backwards.
    if not ctx.out_of_time(50):
        cpv = rng.choice(cpvs)
        targets = [("ebuild", w.ebuild_path(cpv))]
        d = w.parse_entry(cpv) or {}
        names = [n for n in (d.get("_eclasses_") or "").split("\t")[:: (2 if w.kind == "md5" else 3)] if n and w.resolve_eclass(n)]
        if names:
            targets.append(("eclass", w.resolve_eclass(rng.choice(names))))
        for what, path in targets:
            valid, reason = w.entry_valid(cpv)
            ebd.take_stalls()
            regen, meta, err = obs.read(w, cpv)   # refresh: afterwards the entry records the current state
            _judge_read(ctx, w, obs, cpv, valid, reason, regen, meta, err, ebd.take_stalls(), log, pending, 99)
            if not os.path.exists(path):
                continue
            st = os.stat(path)
            with open(path) as f:
                text = f.read()
            w.counter += 1
            back = rng.choice([1, 2, 60, 86400, 40000000])
            add = ('KEYWORDS="~bk%d"\n' if what == "ebuild" else 'IUSE+=" bk%d"\n') % w.counter
            w.write(path, text + add, mtime=st.st_mtime - back)
            k = "%s-content-older-mtime" % what
            w.all_edits.append(k)
            log.append(["edit", "%s(epilogue, -%ds)" % (k, back)])
            for c in cpvs:
                pending[c].append(k)
            ctx.count("backdated_source_epilogues:" + w.kind)
            valid, reason = w.entry_valid(cpv)
            ebd.take_stalls()
            regen, meta, err = obs.read(w, cpv)
            _judge_read(ctx, w, obs, cpv, valid, reason, regen, meta, err, ebd.take_stalls(), log, pending, 99)
    # directed epilogue: the overlay starts shadowing an eclass the entry recorded from the master (master file untouched)
    if not ctx.out_of_time(50):
        for cpv in cpvs:
            d = w.parse_entry(cpv) or {}
            names = [n for n in (d.get("_eclasses_") or "").split("\t")[:: (2 if w.kind == "md5" else 3)] if n]
            cands = [n for n in names if os.path.isfile(w.eclass_path("m", n)) and not os.path.exists(w.eclass_path("o", n))]
            if not cands:
                continue
            valid, reason = w.entry_valid(cpv)
            ebd.take_stalls()
            regen, meta, err = obs.read(w, cpv)   # refresh first
            _judge_read(ctx, w, obs, cpv, valid, reason, regen, meta, err, ebd.take_stalls(), log, pending, 99)
            name = rng.choice(cands)
            mp = w.eclass_path("m", name)
            with open(mp) as f:
                text = f.read()
            w.counter += 1
            w.write(w.eclass_path("o", name), text + 'IUSE+=" shep%d"\n' % w.counter)
            w.all_edits.append("eclass-shadow")
            log.append(["edit", "eclass-shadow(epilogue:%s)" % name])
            for c in cpvs:
                pending[c].append("eclass-shadow")
            ctx.count("shadowing_epilogues:" + w.kind)
            ctx.count("shadowing_epilogues")
            valid, reason = w.entry_valid(cpv)
            ebd.take_stalls()
            regen, meta, err = obs.read(w, cpv)
            _judge_read(ctx, w, obs, cpv, valid, reason, regen, meta, err, ebd.take_stalls(), log, pending, 99)
            break
    shutil.rmtree(w.base, ignore_errors=True)


def _judge_read(ctx, w, obs, cpv, valid, reason, regen, meta, err, stalls, log, pending, step):
        from .. import ebd
        if stalls:
            # both sides blocked reading: that is property C35's subject; this read cannot be judged here
            ctx.count("daemon_stalls_observed")
            ctx.note("daemon stall during read: %r" % (stalls[0],))
            ctx.skip_unspecified("daemon stalled during the read (reported by C35)")
            log.append(["read-stalled", cpv])
            return
        ctx.count("reads")
        ctx.count("reads_regenerated" if regen else "reads_served_from_cache")
        ctx.count("model:" + reason)
        log.append(["read", cpv, {"model_valid": valid, "reason": reason, "regenerated": regen, "err": err}])
        edits = pending[cpv]
        if edits:
            ctx.nontrivial((w.kind, tuple(sorted(set(edits))), valid, reason))
        pending[cpv] = []
        wit = {"cache": w.kind, "cpv": cpv, "history": list(log), "model_valid": valid, "reason": reason,
               "regenerated": regen, "error": err, "edits_since_last_read": edits}
        ctx.evaluated()
        if valid and regen:
            ctx.violation("regenerated-although-valid", dict(wit, rule=reason))
        elif not valid and not regen:
            ctx.violation("stale-entry-served", dict(wit, rule=reason))
        # the metadata must equal a cache-less regeneration of the current sources
        regen2, truth, err2 = obs.read(w, cpv, cached=False)
        if ebd.take_stalls():
            ctx.count("daemon_stalls_observed")
            ctx.skip_unspecified("daemon stalled during the reference regeneration (reported by C35)")
            return
        ctx.evaluated()
        if err2 is None and err is None:
            if not regen and w.kind == "flat" and any(e.endswith("same-mtime") for e in w.all_edits):
                ctx.skip_unspecified("mtime cache served after a same-mtime content edit: content equality not implied")
            elif meta != truth:
                diff = sorted(k for k in set(meta or {}) | set(truth or {}) if (meta or {}).get(k) != (truth or {}).get(k))
                ctx.violation("metadata-differs-from-fresh-regen", dict(wit, got=meta, truth=truth, keys=diff, rule=reason))
        elif (err is None) != (err2 is None):
            if err2 is not None and not regen:
                # served from cache although the sources cannot be regenerated (e.g. eclass removed)
                if valid:
                    pass  # entry valid per model yet fresh regen fails: only possible via nested eclass removal; not judged
                else:
                    ctx.violation("stale-entry-served", dict(wit, rule=reason, fresh_error=err2))
            elif err is not None and err2 is None:
                ctx.violation("read-failed-but-fresh-regen-works", dict(wit, fresh=truth))
        # after a successful regeneration the stored entry validates
        if regen and err is None:
            v2, r2 = w.entry_valid(cpv)
            ctx.evaluated()
            if not v2:
                ctx.violation("entry-not-replaced-after-regen", dict(wit, after_reason=r2, rule=r2))
        if ctx.want_sample() and step > 4:
            ctx.sample({"cache": w.kind, "history": log})


def run(ctx):
    from .. import ebd
    ebd.install_trace()
    obs = Observer(ctx)
    n = ctx.budget(8, 40)
    try:
        for i in range(n):
            if ctx.out_of_time(40):
                break
            one_history(ctx, obs, "h%d" % i, kind=("flat", "md5")[i % 2] if i < 2 else None)
            ctx.count("histories")
    finally:
        ebd.shutdown_all()


def classify(w):
    return None
