"""C15 Successful resolutions produce dependency-closed, slot-consistent plans; building a resolver and
resolving never crash on well-formed repositories."""

import json
import time

from ..gen import c15_harness as hz
from ..gen import c15_problems as gp
from ..ref import c15_plan as ref

ID = "C15"
LEVEL = "exploration"
TECHNIQUE = "runtime monitoring of the real resolver; plan validity judged by an independent PMS model"
RULE = ("random resolver problems: a source SimpleTree and a livefs SimpleTree of EAPI-8 FakePkgs (<=12 source packages over "
        "<=5 names x <=3 versions x 2 slots; DEPEND/BDEPEND/RDEPEND/IDEPEND/PDEPEND with plain, versioned (= ~ >= > <= <) and "
        "slotted atoms, any-of groups with nested all-of groups, weak and strong blockers, self and mutual cycles), 1-3 targets; "
        "each problem is given to upgrade_resolver, min_install_resolver and upgrade_resolver(resolver_cls=empty_tree_merge_plan) "
        "built from fresh repositories.  When add_atoms() reports success the operations of state.iter_ops(True) are applied to "
        "the installed set by the reference and the final set is judged: every target matched, every dependency clause of every "
        "merged package satisfied, <=1 member per (name, slot), no member matched by a blocker of a merged package; any exception "
        "from construction/resolution is a crash.  A case is non-trivial when the resolver reported success and the plan merges "
        "a package that has at least one dependency clause, or replaces an installed package; distinct = (problem, resolver kind).  "
        "Every fifth problem comes from a directed-but-random family: one package installed in 2-3 slots at once, newer "
        "versions in the repository, and a target (or a package it pulls in) that depends on one slot and carries a weak or "
        "strong version-bounded blocker matching installed members of several slots.")
ASSUMPTIONS = [
    "resolver failures (add_atoms returns a failure stack) are not judged; the statement only constrains reported successes",
    "atom matching and version order in the oracle come from vt/ref/c15_plan.py + vt/ref/pms_version.py (PMS), not from pkgcore",
    "default resolver options (verify_vdb=True, no nodeps/drop_cycles/force_replace): the options that deliberately drop dependencies are outside the statement",
    "a DEPEND/BDEPEND clause that is satisfied by the packages present immediately before its owner is merged but not by the final "
    "set (the plan later replaces the provider) is left unjudged: PMS asks for build-time availability, the statement speaks of the final set",
    "a blocker does not block the package that carries it",
    "a resolution that does not finish within the per-problem time limit is not a verdict (counted, skipped)",
    "USE-conditional dependencies are not generated (FakePkgs are unconfigured)",
]
SHARDS = {"quick": 4, "thorough": 16}
TIMEOUT = {"quick": 240, "thorough": 1800}
MIN_EVALS = 1500
REQUIRED_COUNTERS = ("constructed:upgrade", "constructed:min_install", "constructed:empty_tree",
                     "judged_success:upgrade", "judged_success:min_install", "judged_success:empty_tree",
                     "clauses_checked")

K_IDEPEND = "idepend-from-pdepend"
K_SLOT_CYCLE = "slot-cycle-assumed-satisfied"
K_DISPLACED = "replace-displaces-satisfying-package"
K_RECURSION = "cycle-check-first-candidate-only"
K_STALE = "force-next-keeps-stale-deps"
K_CTOR = "resolver-constructor-instance-cache"
K_SHARED_BLOCKER = "shared-blocker-second-registration-unchecked"
K_UNLOADED = "blocker-skips-unloaded-installed-package"


def _cpv(ident):
    return "%s/%s-%s" % (gp.CATEGORY, ident[0], ident[1])


def _atoms_by_class(spec):
    return {(cls.lower(), gp.render_atom(a)) for cls in gp.DEP_CLASSES for cl in spec["deps"].get(cls, ())
            for a in gp.clause_atoms(cl)}


def relevant_trace(problem, res, viol):
    """(how, foreign): `how` = the trace events that tell how the resolver came to regard the violated
    requirement as satisfied (last event per atom); `foreign` = atoms the resolver processed on behalf of the
    owner as (class, atom) although the owner's dependency class does not contain them."""
    trace = res.get("trace") or []
    if viol["rule"] == "target-unmatched":
        want = gp.render_atom(viol["target"])
        return [e for e in trace if e["parent"] is None and e["atom"] == want], []
    if viol["rule"].startswith("unsatisfied-") or viol["rule"] == "blocked-member":
        c = viol.get("clause") or viol.get("blocker")
        atoms = {gp.render_atom(a) for a in gp.clause_atoms(c)}
        owner = _cpv(viol["owner"])
        mode = viol["dep_class"].lower()
        spec = [s for s in problem["source"] if ref.ident(s) == tuple(viol["owner"])]
        own = _atoms_by_class(spec[0]) if spec else set()
        # the invocation that put the owner into the reported plan = the last successful one that chose it
        chose = [e for e in trace if e["ok"] and e["pkg"] and e["pkg"]["cpv"] == owner and not e["pkg"]["livefs"]
                 and e["how"] in ("chosen", "vdb-limited") and e.get("serial") is not None]
        evs, last = [], {}
        if chose:
            # ... more precisely the last such invocation that walked this dependency class at all (a later one may
            # have found the owner "already in the plan" and returned before walking e.g. PDEPEND)
            for ch in reversed(chose):
                evs = [e for e in trace if e.get("parent_serial") == ch["serial"]]
                last = {}
                for e in evs:
                    if e["mode"] == mode and e["atom"] in atoms:
                        last[e["atom"]] = e       # the last event per atom of that invocation
                if last:
                    break
        else:
            evs = [e for e in trace if e["parent"] and e["parent"]["cpv"] == owner and not e["parent"]["livefs"]]
            for e in evs:
                if e["mode"] == mode and e["atom"] in atoms:
                    last[e["atom"]] = e
        foreign = sorted({(e["mode"], e["atom"]) for e in evs if (e["mode"], e["atom"]) not in own})
        how = list(last.values())
        if viol["rule"] == "blocked-member":
            mine = {e.get("parent_serial") for e in how}
            for e in how:
                e["also_registered_by"] = sorted({x["parent"]["cpv"] for x in trace if x["how"] == "blocker" and x["ok"]
                                                  and x["atom"] == e["atom"] and x["parent"]
                                                  and x.get("parent_serial") not in mine})
        return how, [list(x) for x in foreign]
    return [], []


def make_witness(problem, kind, res, viol=None):
    w = {"problem": problem, "resolver": kind, "rendered": gp.describe(problem), "status": res["status"],
         "ops": res.get("ops")}
    if viol is not None:
        w["rule"] = viol["rule"]
        w["detail"] = {k: v for k, v in viol.items() if k != "rule"}
        for k in ("clause", "blocker", "target"):
            if k in viol:
                w["detail"][k + "_text"] = gp.render_clause(viol[k]) if k == "clause" else gp.render_atom(viol[k])
        w["how"], w["foreign_atoms"] = relevant_trace(problem, res, viol)
        if w["foreign_atoms"]:
            # which other candidates of the same name carry all of those atoms (in those classes)
            names = set()
            for s in problem["source"] + problem["installed"]:
                if s["name"] == viol["owner"][0] and ref.ident(s) != tuple(viol["owner"]):
                    if {tuple(x) for x in w["foreign_atoms"]} <= _atoms_by_class(s):
                        names.add(_cpv(ref.ident(s)))
            w["foreign_atoms_belong_to"] = sorted(names)
        w["trace_capped"] = len(res.get("trace") or []) >= hz.MAX_TRACE
    else:
        w["rule"] = (res.get("exc") or "").split(":")[0] or res["status"]
        w["phase"] = res.get("phase")
        w["exc"] = res.get("exc")
        w["where"] = res.get("where")
        if "recursion" in res:
            w["recursion"] = res["recursion"]
    return w


def classify(w):
    if w.get("kind") == "crash":
        if w.get("phase") == "construct" and (w.get("exc") or "").startswith("TypeError") and \
                "WeaklyCached class MutableContainmentRestriction" in (w.get("exc") or ""):
            return K_CTOR
        rec = w.get("recursion") or {}
        if (w.get("exc") or "").startswith("RecursionError"):
            # the resolver stack is one dependency cycle over and over, and the frames of that cycle are past their
            # first candidate (the only one check_for_cycles looked at)
            if rec.get("period") and rec.get("cycle_moved_past_first_candidate"):
                return K_RECURSION
            top = rec.get("most_repeated") or []
            if not rec.get("period") and top and top[0][1] >= 10 and top[0][2] >= 2:
                return K_RECURSION
        return None
    rule = w.get("rule") or ""
    if w.get("trace_capped"):
        return None
    how = w.get("how") or []
    replaced = {(_cpv(gp_ident(o["old"])), True) for o in (w.get("ops") or [])
                if o["desc"] == "replace" and o.get("old") and o["old"]["livefs"]}
    if rule.startswith("unsatisfied-") or rule == "blocked-member":
        ok = [e for e in how if e["ok"]]
        if not how:
            # the requirement was never handed to the resolver on behalf of its owner
            if w.get("foreign_atoms") and w.get("foreign_atoms_belong_to"):
                # ... which instead walked the atoms of another candidate of the same name
                return K_STALE
            if rule == "unsatisfied-IDEPEND" and not w.get("foreign_atoms"):
                return K_IDEPEND
            return None
        if rule == "blocked-member":
            # the blocker was registered without complaint although another package had registered the very same
            # blocker before (second registrations used to skip the match check)
            if ok and all(e["how"] == "blocker" and e.get("also_registered_by") for e in ok):
                return K_SHARED_BLOCKER
            # the blocked packages are installed packages no operation of the plan ever mentions, and when the
            # blocker was registered the plan already held some other match of it - the only case in which
            # _ensure_livefs_is_loaded does not look at the installed packages
            touched = {(gp_ident(o["pkg"]), o["pkg"]["livefs"]) for o in (w.get("ops") or [])}
            touched |= {(gp_ident(o["old"]), o["old"]["livefs"]) for o in (w.get("ops") or []) if o.get("old")}
            blocked = (w.get("detail") or {}).get("blocked") or []
            if ok and blocked and all(b[3] == "vdb" and (tuple(b[:3]), True) not in touched for b in blocked) \
                    and all(e["how"] == "blocker" and e.get("plan_matched_before") for e in ok):
                return K_UNLOADED
            return None
        if any(e["how"] == "slot-cycle" for e in ok):
            return K_SLOT_CYCLE
        if any(e["pkg"] and (e["pkg"]["cpv"], e["pkg"]["livefs"]) in replaced for e in ok):
            return K_DISPLACED
        return None
    if rule == "target-unmatched":
        ok = [e for e in how if e["ok"]]
        if ok and all(e["pkg"] and (e["pkg"]["cpv"], e["pkg"]["livefs"]) in replaced for e in ok):
            return K_DISPLACED
        return None
    return None


def gp_ident(p):
    return (p["name"], p["ver"], p["slot"])


# ----------------------------------------------------------------------------------------------------

class Runner:
    def __init__(self, ctx):
        self.ctx = ctx
        self.time_limit = 20.0
        self.shrink_budget_s = ctx.budget(8.0, 150.0)
        self.shrunk_groups = {}

    def observe(self, problem, kind, time_limit=None):
        return hz.run_problem(problem, kind, time_limit or self.time_limit, trace=True)

    def signature(self, problem, kind, res):
        """[(dedup group, kind of violation, violation dict|None)]"""
        if res["status"] == "crash":
            w = make_witness(problem, kind, res)
            w["kind"] = "crash"
            return [("crash:" + (classify(w) or w["rule"]), "crash", None)]
        if res["status"] != "success":
            return []
        out = []
        for v in ref.judge_plan(problem, res["ops"]):
            w = make_witness(problem, kind, res, v)
            out.append((v["rule"] + ":" + str(classify(w)), "plan-invalid", v))
        return out

    def maybe_shrink(self, problem, kind, group):
        """Greedy shrinking of the first witness of each group (bounded time)."""
        ctx = self.ctx
        if self.shrunk_groups.get(group, 0) >= 1 or self.shrink_budget_s <= 0 or ctx.out_of_time(30):
            return problem
        self.shrunk_groups[group] = self.shrunk_groups.get(group, 0) + 1
        t0 = time.monotonic()

        def still(q):
            if time.monotonic() - t0 > min(8.0, self.shrink_budget_s):
                return False
            r = self.observe(q, kind, 4.0)
            return any(g == group for g, _k, _v in self.signature(q, kind, r))

        small = gp.shrink(problem, still, max_tests=160)
        self.shrink_budget_s -= time.monotonic() - t0
        ctx.count("witnesses_shrunk")
        return small

    def check(self, problem, kind, shrink=True):
        ctx = self.ctx
        res = self.observe(problem, kind)
        ctx.count("runs:" + kind)
        ctx.count("status:" + res["status"])
        if res["phase"] != "build" and res["phase"] != "construct":
            ctx.count("constructed:" + kind)
        if res["status"] == "timeout":
            ctx.skip_unspecified("resolution did not finish within %.0f s" % self.time_limit)
            ctx.note("timeout: %s %s" % (kind, json.dumps(gp.describe(problem))[:600]))
            return res
        # crash clause: one evaluation per construct+resolve
        ctx.evaluated()
        sigs = self.signature(problem, kind, res)
        if res["status"] == "crash":
            group = sigs[0][0]
            if shrink:
                small = self.maybe_shrink(problem, kind, group)
                if small is not problem:
                    r2 = self.observe(small, kind)
                    if any(g == group for g, _k, _v in self.signature(small, kind, r2)):
                        problem, res = small, r2
            w = make_witness(problem, kind, res)
            ctx.violation("crash", w)
            return res
        if res["status"] == "failure":
            ctx.count("failure_unjudged:" + kind)
            return res
        # success: judge the plan
        stats = {}
        viols = ref.judge_plan(problem, res["ops"], stats)
        ctx.evaluated(stats["checks"])
        ctx.count("clauses_checked", stats["checks"])
        ctx.count("judged_success:" + kind)
        if stats["buildtime_before_only"]:
            for _ in range(stats["buildtime_before_only"]):
                ctx.skip_unspecified("build-time clause satisfied before the owner's merge, provider replaced later")
        merged = [o for o in res["ops"] if not o["pkg"]["livefs"]]
        src = {ref.ident(s): s for s in problem["source"]}
        has_deps = any(any(src.get(gp_ident(o["pkg"]), {"deps": {}})["deps"].get(c) for c in gp.DEP_CLASSES) for o in merged)
        has_replace = any(o["desc"] == "replace" for o in res["ops"])
        ctx.count("plans_merging_%d" % min(len(merged), 4))
        if has_replace:
            ctx.count("plans_with_replace")
        if has_deps or has_replace:
            ctx.nontrivial(json.dumps([problem, kind], sort_keys=True))
        if ctx.want_sample() and has_deps and len(merged) >= 2:
            ctx.sample({"problem": gp.describe(problem), "resolver": kind,
                        "ops": [[o["desc"], _cpv(gp_ident(o["pkg"])), "vdb" if o["pkg"]["livefs"] else "src"] for o in res["ops"]],
                        "violations": [v["rule"] for v in viols]})
        done_groups = set()
        for group, _k, v in sigs:
            p2, r2, v2 = problem, res, v
            if shrink and group not in done_groups:
                done_groups.add(group)
                small = self.maybe_shrink(problem, kind, group)
                if small is not problem:
                    rs = self.observe(small, kind)
                    hit = [x for x in self.signature(small, kind, rs) if x[0] == group]
                    if hit:
                        p2, r2, v2 = small, rs, hit[0][2]
            ctx.violation("plan-invalid", make_witness(p2, kind, r2, v2))
        return res


def run(ctx):
    import logging

    logging.disable(logging.WARNING)   # pkgcore's "EAPI 9 disabled" start-up warning
    runner = Runner(ctx)
    n = ctx.budget(140, 2500)
    for i in range(n):
        if i % 5 == 4:
            problem = gp.gen_multislot_blocker_problem(ctx.rng)
            ctx.count("problems_multislot_blocker")
        else:
            problem = gp.gen_problem(ctx.rng)
        ctx.count("problems")
        for kind in hz.KINDS:
            runner.check(problem, kind)
        if ctx.out_of_time(25):
            ctx.note("stopped early by the soft deadline after %d problems" % (i + 1))
            break


def replay(ctx, w):
    import logging

    logging.disable(logging.WARNING)
    runner = Runner(ctx)
    kinds = [w["resolver"]] if w.get("resolver") else list(hz.KINDS)
    for kind in kinds:
        runner.check(w["problem"], kind, shrink=False)
