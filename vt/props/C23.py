"""C23 Merge-time permission hardening never lets unsafe modes through."""

import posixpath

ID = "C23"
LEVEL = "exploration"
TECHNIQUE = "invariant on engine.csets['new_cset'] before/after the real pre_merge hook"
RULE = ("content sets of 1-40 entries (files, dirs, symlinks, fifos, char/block devices incl. numbers 0:0, 0:n, n:0) covering every one of the 4096 "
        "permission values x 5 entry types (enumerated round-robin over the shards) with owners from {0, build uid, "
        "other} and groups from {0, build gid, other}, symlink targets in and out of normalised form (../lib//x, a/../b, "
        "./x, dir/), plus random sets; passed through MergeEngine.install(...)."
        "pre_merge() with fix_uid_perms(uid=U), fix_gid_perms(gid=G), fix_set_bits(), detect_world_writable(fix_perms "
        "True/False) registered explicitly (disable_plugins=True), offset '/' and a nested offset, several registration "
        "orders. Non-trivial entry = set-id + world-writable, or owned by the build user/group; distinct = (type, mode, "
        "uid class, gid class).")
ASSUMPTIONS = [
    "the build user/group are the uid/gid given to fix_uid_perms/fix_gid_perms (this sandbox has no portage user: the defaults are 0/0 and vacuous); root = 0",
    "symlink entries are not judged for mode bits (a symlink has no permission bits of its own on Linux; the statement's 'entry to be merged' is read as an entry whose mode is applied)",
    "unchanged data = the same data-source object; unchanged type = same fs class; the target of a symlink that a fix "
    "trigger re-owns is compared with the target in the package's own contents (before the engine inserts the offset)",
    "mode bits other than set-id/world-writable, owners that are not the build user, and mtimes are not constrained by the statement: deviations there are counted, not reported",
]
SHARDS = {"quick": 4, "thorough": 16}
TIMEOUT = {"quick": 240, "thorough": 1800}
MIN_EVALS = 100000
REQUIRED_COUNTERS = ("entries_setid_and_world_writable", "entries_owned_by_build_user", "entries_owned_by_build_group",
                     "pre_merge_runs", "reowned_symlinks_with_unnormalised_target",
                     "zero_numbered_devices_needing_a_fix", "type:file", "type:dir", "type:symlink", "type:fifo", "type:dev")

TYPES = ("file", "dir", "symlink", "fifo", "dev")


def _mk(fs, data_source, spec):
    """spec: {"t", "loc", "mode", "uid", "gid", "mtime", ("target"), ("data")} -> fs object"""
    t = spec["t"]
    kw = {"mode": spec["mode"], "uid": spec["uid"], "gid": spec["gid"], "mtime": spec["mtime"]}
    if t == "file":
        return fs.fsFile(spec["loc"], data=data_source.data_source(spec.get("data", "x").encode()),
                         chksums={"size": len(spec.get("data", "x"))}, dev=spec.get("st_dev", 1),
                         inode=spec.get("st_ino", 1000 + spec["mtime"] % 100000), **kw)
    if t == "dir":
        return fs.fsDir(spec["loc"], **kw)
    if t == "symlink":
        return fs.fsSymlink(spec["loc"], spec["target"], **kw)
    if t == "fifo":
        return fs.fsFifo(spec["loc"], **kw)
    if t == "dev":
        import stat

        kw["mode"] = spec["mode"] | (stat.S_IFCHR if spec.get("chr", True) else stat.S_IFBLK)
        return fs.fsDev(spec["loc"], major=spec.get("major", 1), minor=spec.get("minor", 3), **kw)
    raise ValueError(t)


def _type_of(x):
    for t, a in (("file", "is_reg"), ("dir", "is_dir"), ("symlink", "is_sym"), ("fifo", "is_fifo"), ("dev", "is_dev")):
        if getattr(x, a, False):
            return t
    return "?"


class _Pkg:
    def __init__(self, contents):
        self.contents = contents

    def __str__(self):
        return "stub-pkg"


class _Sink:
    def __init__(self):
        self.n = 0

    def warn(self, msg, *a, **k):
        self.n += 1

    error = info = debug = write = warn

    def flush(self):
        pass


def judge(ctx, case):
    """case: {"entries": [spec...], "U": int, "G": int, "fix_perms": bool, "offset": "/"|"/some/prefix", "order": [..]}"""
    from pkgcore.fs import contents, fs
    from pkgcore.merge import triggers
    from pkgcore.merge.engine import MergeEngine
    from pkgcore.operations import observer
    from snakeoil import data_source

    U, G = case["U"], case["G"]
    objs = [_mk(fs, data_source, s) for s in case["entries"]]
    pkg = _Pkg(contents.contentsSet(objs))
    sink = _Sink()
    eng = MergeEngine.install("/var/tmp/vt-c23-unused-tempdir", pkg, offset=case["offset"],
                              observer=observer.repo_observer(sink), disable_plugins=True)
    made = {"uid": lambda: triggers.fix_uid_perms(uid=U, replacement=0),
            "gid": lambda: triggers.fix_gid_perms(gid=G, replacement=0),
            "setbits": lambda: triggers.fix_set_bits(),
            "ww": lambda: triggers.detect_world_writable(fix_perms=case["fix_perms"])}
    for name in case["order"]:
        made[name]().register(eng)
    off = case["offset"].rstrip("/")
    orig_target = {posixpath.normpath(off + s_["loc"]): s_["target"] for s_ in case["entries"] if s_["t"] == "symlink"}
    try:
        before = {x.location: x for x in eng.csets["new_cset"]}
    except Exception as e:  # the engine refused the package's contents loudly: nothing reaches pre-merge
        ctx.count("cset_generation_raised:" + type(e).__name__)
        ctx.note("generating new_cset raised %r" % (e,))
        ctx.skip_unspecified("generating new_cset raised")
        return
    snap = {loc: {"type": _type_of(x), "mode": x.mode, "uid": x.uid, "gid": x.gid, "mtime": x.mtime,
                  "target": getattr(x, "target", None) if x.is_sym else None,
                  "data_id": id(x.data) if x.is_reg else None,
                  "dev": (x.major, x.minor) if x.is_dev else None} for loc, x in before.items()}
    try:
        eng.pre_merge()
    except Exception as e:  # a raising pre-merge stage never reaches "after the pre-merge stage"
        ctx.count("pre_merge_raised:" + type(e).__name__)
        ctx.note("pre_merge raised %r" % (e,))
        ctx.skip_unspecified("pre_merge raised")
        return
    ctx.count("pre_merge_runs")
    after = {x.location: x for x in eng.csets["new_cset"]}
    bad = []

    def flag(rule, loc, **kw):
        b = snap.get(loc)
        a = after.get(loc)
        bad.append(dict(kw, rule=rule, location=loc, before={k: v for k, v in (b or {}).items() if k != "data_id"},
                        after=None if a is None else {"type": _type_of(a), "mode": a.mode, "uid": a.uid, "gid": a.gid}))

    if len(before) != len(case["entries"]):
        ctx.note("generator produced duplicate locations")
    ctx.evaluated()
    if set(after) != set(before):
        for loc in sorted(set(before) - set(after)):
            flag("entry-dropped", loc)
        for loc in sorted(set(after) - set(before)):
            flag("entry-added", loc)
    for loc, b in snap.items():
        a = after.get(loc)
        if a is None:
            continue
        t = b["type"]
        ctx.count("type:" + t)
        setid_ww = bool(b["mode"] & 0o6000) and bool(b["mode"] & 0o002)
        ctx.evaluated()
        key = None
        if t != "symlink":
            if setid_ww:
                ctx.count("entries_setid_and_world_writable")
                key = True
            if (a.mode & 0o6000) and (a.mode & 0o002):
                flag("setid-and-world-writable-after-pre-merge", loc)
        else:
            if setid_ww:
                ctx.skip_unspecified("set-id + world-writable mode on a symlink entry")
        if b["uid"] == U:
            ctx.count("entries_owned_by_build_user")
            key = True
            if a.uid != 0:
                flag("build-user-owner-kept", loc)
        elif a.uid != b["uid"]:
            ctx.count("unconstrained:other-owner-changed")
        if b["gid"] == G:
            ctx.count("entries_owned_by_build_group")
            key = True
            if a.gid != 0:
                flag("build-group-owner-kept", loc)
        elif a.gid != b["gid"]:
            ctx.count("unconstrained:other-group-changed")
        if _type_of(a) != t or type(a) is not type(before[loc]):
            flag("type-changed", loc)
        if a.location != loc:
            flag("location-changed", loc)
        if t == "symlink":
            want = b["target"]
            if (b["uid"] == U or b["gid"] == G) and loc in orig_target:
                # an entry a fix trigger rebuilds: judged against the target the package itself recorded
                want = orig_target[loc]
                ctx.count("reowned_symlinks_judged")
                if want != posixpath.normpath(want):
                    ctx.count("reowned_symlinks_with_unnormalised_target")
            if a.target != want:
                flag("target-changed", loc, original_target=want, target_after=a.target)
        if t == "file" and id(a.data) != b["data_id"]:
            flag("data-changed", loc)
        if t == "dev" and 0 in b["dev"] and (setid_ww or b["uid"] == U or b["gid"] == G):
            ctx.count("zero_numbered_devices_needing_a_fix")
        if t == "dev" and (a.major, a.minor) != b["dev"]:
            flag("device-numbers-changed", loc)
        # counted only: the statement does not constrain these
        lost = b["mode"] & ~a.mode
        gained = a.mode & ~b["mode"]
        if gained or (lost & ~0o6002):
            ctx.count("unconstrained:other-mode-bits-changed")
        if a.mtime != b["mtime"]:
            ctx.count("unconstrained:mtime-changed")
        if key:
            uc = "U" if b["uid"] == U else ("0" if b["uid"] == 0 else "o")
            gc = "G" if b["gid"] == G else ("0" if b["gid"] == 0 else "o")
            ctx.nontrivial("%s %o %s %s" % (t, b["mode"] & 0o7777, uc, gc))
    if ctx.want_sample() and snap:
        loc = sorted(snap)[0]
        ctx.sample({"entry": snap[loc]["type"], "mode_before": oct(snap[loc]["mode"]), "mode_after": oct(after[loc].mode),
                    "owner_before": [snap[loc]["uid"], snap[loc]["gid"]], "owner_after": [after[loc].uid, after[loc].gid],
                    "U": U, "G": G, "fix_perms": case["fix_perms"]})
    groups = {}
    for b_ in bad:
        groups.setdefault(b_["rule"], []).append(b_)
    for rule, items in groups.items():
        ctx.violation(rule, {"rule": rule, "items": items[:10], "nitems": len(items), "case": case})


def classify(w):
    return None


def replay(ctx, w):
    judge(ctx, w.get("case", w))


ORDERS = [["uid", "gid", "setbits", "ww"], ["ww", "setbits", "gid", "uid"], ["setbits", "uid", "ww", "gid"],
          ["gid", "ww", "uid", "setbits"]]


def _entry(rng, t, mode, idx, U, G):
    other_u = U + 7 if U + 7 != 0 else 11
    other_g = G + 9 if G + 9 != 0 else 13
    spec = {"t": t, "loc": "/vt/d%d/e%d_%s" % (idx % 5, idx, t), "mode": mode,
            "uid": rng.choice([0, U, U, other_u]), "gid": rng.choice([0, G, G, other_g]),
            "mtime": 1_500_000_000 + idx}
    if t == "symlink":
        spec["target"] = rng.choice(["../x", "/abs/target", "e0_file", "../lib//x", "a/../b", "./x", "dir/",
                                     "..//y/", "/abs//t/../u", "."])
    if t == "file":
        spec["data"] = "payload %d" % idx
    if t == "dev":
        spec["chr"] = rng.random() < 0.5
        # boundary device numbers included: 0:0 (overlayfs-style whiteout), 0:n, n:0, 255
        spec["major"] = rng.choice([0, 0, 1, 255, rng.randrange(1, 200)])
        spec["minor"] = rng.choice([0, 0, 1, 255, rng.randrange(0, 200)])
    return spec


def run(ctx):
    rng = ctx.rng
    # (a) every (mode, type) pair, round-robin over the shards, grouped into sets of 1..40 entries
    pairs = [(m, t) for m in range(4096) for t in TYPES]
    mine = [p for i, p in enumerate(pairs) if i % ctx.nshards == ctx.shard]
    rng.shuffle(mine)
    i = 0
    k = 0
    while i < len(mine):
        n = rng.randrange(1, 41)
        chunk = mine[i:i + n]
        i += n
        U, G = rng.choice([(250, 250), (1000, 100), (250, 0), (0, 250), (65534, 65533)])
        # a build uid/gid of 0 would make "re-owned to root" vacuous for that half; still legal
        case = {"entries": [_entry(rng, t, m, k * 100 + j, U, G) for j, (m, t) in enumerate(chunk)],
                "U": U, "G": G, "fix_perms": rng.random() < 0.5,
                "offset": rng.choice(["/", "/", "/var/tmp/vt-c23-offset"]), "order": ORDERS[k % len(ORDERS)]}
        judge(ctx, case)
        k += 1
        if k % 16 == 0 and ctx.out_of_time(30):
            ctx.note("enumeration stopped early by the soft deadline")
            break
    else:
        ctx.count("exhaustive_complete")
    # (b) random sets biased to the dangerous corner
    for r in range(ctx.budget(2500, 25000)):
        U, G = rng.choice([(250, 250), (1000, 100), (123, 456)])
        ents = []
        for j in range(rng.randrange(1, 41)):
            t = rng.choice(TYPES)
            mode = rng.randrange(4096)
            if rng.random() < 0.5:
                mode |= rng.choice([0o4000, 0o2000, 0o6000]) | 0o002
            ents.append(_entry(rng, t, mode, r * 100 + j, U, G))
        order = ORDERS[r % len(ORDERS)][:]
        if rng.random() < 0.3:
            rng.shuffle(order)
        judge(ctx, {"entries": ents, "U": U, "G": G, "fix_perms": rng.random() < 0.5,
                    "offset": rng.choice(["/", "/var/tmp/vt-c23-offset"]), "order": order})
        if r % 32 == 0 and ctx.out_of_time(10):
            break
