"""C41 Parallel map (pkgcore.util.thread_pool.map_async) processes every item exactly once.

Runtime monitoring of the real map_async (and of its two users, operations.regen.regen_repository and
merge.triggers.ThreadedTrigger.trigger) under perturbed thread schedules:

* sys.setswitchinterval down to 1 microsecond,
* workers (and generator inputs) that sleep(0)/sleep a few microseconds at random points,
* sys.monitoring LINE events restricted to the code objects of thread_pool.py which yield the GIL with probability p
  *between* the queue operations (never inside queue.Queue's lock: queue.py is not instrumented).

The oracle only looks at the monitor's own log: multiset of items pulled by the worker functions == multiset of the
input, and the deque returned by map_async holds every non-empty value the worker functions produced (and nothing that
no worker produced).
"""

import collections
import itertools
import json
import random
import sys
import threading
import time

ID = "C41"
LEVEL = "exploration"
TECHNIQUE = "runtime monitoring of the real thread pool under schedule perturbation; multiset (exactly-once) oracle"
RULE = ("random configurations (0-300 items incl. duplicates/None/falsy values; list/tuple/range/deque/generator inputs, "
        "generator inputs that stall; threads 1-32, more threads than items, threads=None; worker styles: generator function "
        "(the regen_iter shape), list/tuple/str return, None return; extra positional args, per_thread_args, keyword args, "
        "per_thread_kwds), each run under its own seed with switch interval 1us-5ms, random sleeps in workers and "
        "sys.monitoring LINE-event yield injection in thread_pool.py code; plus regen_repository over fake packages and "
        "ThreadedTrigger.trigger over a stub engine. One evaluation = one complete parallel map judged by the multiset "
        "oracle. A run is non-trivial when >= 2 items were really pulled by >= 2 different threads; distinct = distinct "
        "(driver, #items, #threads, style, input kind, sequence of pulling threads in global pull order).")
ASSUMPTIONS = [
    "worker functions exhaust the iterator they are handed (a worker that stops early is outside the statement); the only "
    "raising worker judged is the 'poison' style: exactly one item makes ONE thread's worker raise while at least one other "
    "thread survives - every item must still be pulled exactly once",
    "threads >= 1 (threads=0 with a non-empty input is not judged); items are never the snakeoil sentinel object",
    "'non-empty result': None, '', [], () produced by a worker may be present or absent in the returned deque; every other "
    "produced value must be there exactly as often as it was produced; for generator workers the results are the yielded values",
    "extra args / kwargs pass-through is only counted (counter args_passthrough_mismatch), not judged",
    "schedules are sampled (perturbation), not enumerated: a race that needs a window the perturbation never opens is missed",
    "a map that makes no progress for 30 s (120 s in total) is reported as a deadlock violation",
]
SHARDS = {"quick": 4, "thorough": 16}
TIMEOUT = {"quick": 240, "thorough": 1500}
MIN_EVALS = 100
REQUIRED_COUNTERS = ("runs_map_async", "runs_regen_repository", "runs_threaded_trigger", "injected_yields",
                     "runs_multi_thread_interleaved", "falsy_but_nonempty_results_produced", "runs_with_one_raising_worker")

_TOOL = 4
_EMPTY = (None, "", [], ())


def _key(v):
    return json.dumps(v, sort_keys=True, default=repr)


def _nonempty(v):
    if v is None:
        return False
    try:
        return len(v) != 0
    except TypeError:
        return True


# ------------------------------------------------------------------------------------------------------------------
# schedule perturbation


class Perturb:
    """sys.monitoring LINE callback on the code objects of thread_pool.py only."""

    def __init__(self, ctx):
        self.ctx = ctx
        self.p = 0.0
        self.rng = random.Random(ctx.rng.random())
        self.fired = 0
        self.installed = False
        self.codes = []

    def install(self):
        from pkgcore.util import thread_pool as tp

        mon = getattr(sys, "monitoring", None)
        if mon is None:
            return False

        def walk(code):
            yield code
            for c in code.co_consts:
                if hasattr(c, "co_code"):
                    yield from walk(c)

        fn = tp.__file__
        codes = []
        for name in dir(tp):
            obj = getattr(tp, name)
            code = getattr(obj, "__code__", None)
            if code is not None and code.co_filename == fn:
                codes.extend(walk(code))
        self.codes = codes
        try:
            mon.use_tool_id(_TOOL, "vt-c41")
        except ValueError:
            return False
        mon.register_callback(_TOOL, mon.events.LINE, self._line)
        for c in codes:
            mon.set_local_events(_TOOL, c, mon.events.LINE)
        self.installed = True
        return True

    def _line(self, code, lineno):
        p = self.p
        if p and self.rng.random() < p:
            self.fired += 1
            if self.rng.random() < 0.3:
                time.sleep(self.rng.random() * 2e-5)
            else:
                time.sleep(0)

    def uninstall(self):
        if self.installed:
            mon = sys.monitoring
            for c in self.codes:
                mon.set_local_events(_TOOL, c, 0)
            mon.register_callback(_TOOL, mon.events.LINE, None)
            mon.free_tool_id(_TOOL)
            self.installed = False


class Log:
    """Monitor log: deque.append is atomic under the GIL."""

    def __init__(self, seed, sleep_p):
        self.pulled = collections.deque()     # (thread index, item)
        self.produced = collections.deque()   # values handed back by worker functions
        self.calls = collections.deque()      # (thread index, extra args, kwds)
        self.tcount = itertools.count()
        self.seed = seed
        self.sleep_p = sleep_p
        self.threads = collections.deque()

    def enter(self, args, kwds):
        t = next(self.tcount)
        self.calls.append((t, list(args), dict(kwds)))
        self.threads.append(threading.current_thread())
        return t, random.Random(self.seed * 7919 + t)

    def nap(self, rng):
        if rng.random() < self.sleep_p:
            r = rng.random()
            if r < 0.5:
                time.sleep(0)
            elif r < 0.9:
                time.sleep(rng.random() * 3e-5)
            else:
                time.sleep(rng.random() * 4e-4)

    def consume(self, it, t, rng):
        for x in it:
            self.nap(rng)
            self.pulled.append((t, x))
            self.nap(rng)
            yield x


def _res(t, x, j):
    return ["r", t, j, x]


def make_functor(style, log, yield_mod):
    """Worker functions handed to map_async; they get (iterator, *args, **kwds)."""

    def f_gen(it, *args, **kwds):
        t, rng = log.enter(args, kwds)
        j = 0
        for x in log.consume(it, t, rng):
            j += 1
            if yield_mod and j % yield_mod == 0:
                continue          # regen_iter shape: only some items produce a result
            r = _res(t, x, j)
            log.produced.append(r)
            yield r
            log.nap(rng)

    def f_list(it, *args, **kwds):
        t, rng = log.enter(args, kwds)
        r = [_res(t, x, j) for j, x in enumerate(log.consume(it, t, rng))]
        log.produced.append(r)
        return r

    def f_tuple(it, *args, **kwds):
        t, rng = log.enter(args, kwds)
        r = tuple(_key(x) for x in log.consume(it, t, rng))
        log.produced.append(list(r))
        return r

    def f_str(it, *args, **kwds):
        t, rng = log.enter(args, kwds)
        r = "|".join(_key(x) for x in log.consume(it, t, rng))
        log.produced.append(r)
        return r

    def f_none(it, *args, **kwds):
        t, rng = log.enter(args, kwds)
        for x in log.consume(it, t, rng):
            pass
        return None

    def f_genempty(it, *args, **kwds):
        # generator function that never yields
        t, rng = log.enter(args, kwds)
        for x in log.consume(it, t, rng):
            pass
        return
        yield  # pragma: no cover

    def f_count(it, *args, **kwds):
        # a worker that reports how many items it handled: 0 for a thread that got none (a result, not "no result")
        t, rng = log.enter(args, kwds)
        n = 0
        for x in log.consume(it, t, rng):
            n += 1
        r = n if n < 2 else ["count", t, n]
        log.produced.append(r)
        return r

    def f_flag(it, *args, **kwds):
        # a worker that reports a success flag: False is as much a result as True
        t, rng = log.enter(args, kwds)
        seen = [x for x in log.consume(it, t, rng)]
        r = bool(len(seen) % 2)
        log.produced.append(r)
        return r

    def f_poison(it, *args, **kwds):
        # one designated item makes the worker function raise out of its thread (what regen_iter does when the regen
        # helper raises RuntimeError): that thread is gone, the items still queued belong to the surviving threads
        t, rng = log.enter(args, kwds)
        for x in log.consume(it, t, rng):
            if x == POISON:
                raise RuntimeError("poisoned item")
        return None

    return {"gen": f_gen, "list": f_list, "tuple": f_tuple, "str": f_str, "none": f_none, "genempty": f_genempty,
            "count": f_count, "flag": f_flag, "poison": f_poison}[style]


POISON = "poison-item"


STYLES = ["gen", "gen", "gen", "list", "tuple", "str", "none", "genempty", "count", "flag"]
KINDS = ["list", "list", "tuple", "range", "deque", "gen", "gen", "slowgen"]


def gen_cfg(rng, quick):
    r = rng.random()
    if r < 0.08:
        n = rng.choice([0, 0, 1, 1, 2])
    elif r < 0.55:
        n = rng.randrange(2, 25)
    elif r < 0.9:
        n = rng.randrange(25, 120)
    else:
        n = rng.randrange(120, 301)
    kind = rng.choice(KINDS)
    if kind == "range":
        items = list(range(n))
    else:
        mode = rng.random()
        if mode < 0.6:
            items = list(range(n))
        elif mode < 0.8:      # duplicates
            items = [rng.randrange(max(1, n // 3)) for _ in range(n)]
        else:                 # hostile values: None / falsy / strings / nested
            pool = [None, 0, "", "a", False, [], [1, 2], "sentinel", 0.0, -1]
            items = [rng.choice(pool) if rng.random() < 0.5 else i for i in range(n)]
    r = rng.random()
    if r < 0.1:
        threads = None
    elif r < 0.2:
        threads = 1
    elif r < 0.75:
        threads = rng.randrange(2, 9)
    elif r < 0.9:
        threads = rng.randrange(9, 33)
    else:
        threads = min(n, 12) + rng.randrange(1, 6)     # more threads than items (for short inputs)
    style = rng.choice(STYLES)
    cfg = {
        "driver": "map_async",
        "items": items, "kind": kind, "threads": threads, "style": style,
        "yield_mod": rng.choice([0, 0, 2, 3]) if style == "gen" else 0,
        "args": rng.choice([[], [], ["A"], ["A", 7]]),
        "pt_args": rng.random() < 0.3,
        "kwds": {"kw": 1} if rng.random() < 0.06 else {},
        "pt_kwds": rng.random() < 0.05,
        "sleep_p": rng.choice([0.0, 0.05, 0.2, 0.5, 0.9]),
        "switch": rng.choice([1e-6, 1e-6, 1e-5, 1e-4, 5e-3]),
        "inject_p": rng.choice([0.0, 0.0, 0.1, 0.3, 0.7] if quick else [0.0, 0.1, 0.3, 0.7, 1.0]),
        "seed": rng.randrange(1 << 30),
    }
    if rng.random() < 0.08 and n >= 3:
        # exactly one poisoned item somewhere in the first two thirds, at least two threads: one thread dies, the rest
        # must still drain the queue
        cfg["style"] = "poison"
        cfg["yield_mod"] = 0
        cfg["threads"] = rng.randrange(2, 9)
        items = [i for i in range(n)]
        items[rng.randrange(0, max(1, (2 * n) // 3))] = POISON
        cfg["items"] = items
        if cfg["kind"] == "range":
            cfg["kind"] = "list"
    return cfg


def _make_input(cfg, log):
    items = cfg["items"]
    kind = cfg["kind"]
    if kind == "list":
        return list(items)
    if kind == "tuple":
        return tuple(items)
    if kind == "range":
        return range(len(items))
    if kind == "deque":
        return collections.deque(items)
    if kind == "gen":
        return (x for x in items)
    if kind == "slowgen":
        rng = random.Random(cfg["seed"] ^ 0x5A5A)

        def slow():
            for x in items:
                log.nap(rng)
                if rng.random() < 0.05:
                    time.sleep(rng.random() * 3e-4)
                yield x
        return slow()
    if kind == "stallgen":
        # a producer that pauses for seconds while every worker is idle (slowly enumerated
        # package iterables do this): an idle worker must keep waiting, not give up
        stall = cfg.get("stall_s", 2.2)
        mid = len(items) // 2

        def stalling():
            for i, x in enumerate(items):
                if i in (0, mid):
                    time.sleep(stall)
                yield x
        return stalling()
    raise ValueError(kind)


# ------------------------------------------------------------------------------------------------------------------
# drivers: each returns (returned results list or None, expected-items list)


def drive_map_async(cfg, log):
    from pkgcore.util.thread_pool import map_async

    functor = make_functor(cfg["style"], log, cfg.get("yield_mod", 0))
    kw = dict(cfg["kwds"])
    if cfg["threads"] is not None:
        kw["threads"] = cfg["threads"]
    pt = itertools.count()
    if cfg["pt_args"]:
        kw["per_thread_args"] = lambda: ("pt%d" % next(pt),)
    if cfg["pt_kwds"]:
        kw["per_thread_kwds"] = lambda: {"ptk": 1}
    res = map_async(_make_input(cfg, log), functor, *cfg["args"], **kw)
    return list(res)


class _FakePkg:
    def __init__(self, i, mode, log):
        self.i, self.mode, self.log = i, mode, log

    def __str__(self):
        return "fake/pkg-%s" % self.i

    def touch(self):
        # called from the worker thread, through the real regen_iter
        log = self.log
        tl = log.tls
        if not hasattr(tl, "t"):
            tl.t, tl.rng = log.enter((), {})
        log.nap(tl.rng)
        log.pulled.append((tl.t, self.i))
        log.nap(tl.rng)
        if self.mode == "err":
            e = ValueError("boom %s" % self.i)   # not one of snakeoil IGNORED_EXCEPTIONS
            log.produced.append(["err", self.i])
            raise e
        if self.mode == "meta":
            from pkgcore.package.errors import MetadataException
            raise MetadataException(self, "keywords", "bad")
        return ()

    @property
    def keywords(self):
        return self.touch()


def drive_regen(cfg, log):
    from pkgcore.operations.regen import regen_repository

    log.tls = threading.local()
    pkgs = [_FakePkg(i, m, log) for i, m in cfg["items"]]
    finished = []

    class PlainRepo:
        pass

    class HelperRepo:
        def _regen_operation_helper(self, **kwargs):
            def helper(pkg):
                return pkg.touch()
            return helper

    repo = HelperRepo() if cfg["helper"] else PlainRepo()
    if cfg["kind"] == "gen":
        src = (p for p in pkgs)
    else:
        src = pkgs
    out = list(regen_repository(repo, src, None, threads=cfg["threads"]))
    res = []
    for pkg, e in out:
        res.append(["err", pkg.i] if isinstance(e, ValueError) else ["?", pkg.i, repr(e)])
    return res


def drive_trigger(cfg, log):
    from pkgcore.merge import triggers

    functor = make_functor("none", log, 0)
    items = cfg["items"]
    extra_kw = dict(cfg["kwds"])

    class T(triggers.ThreadedTrigger):
        required_csets = ()

        def identify_work(self, engine, *csets):
            return iter(items)

        def threading_get_args(self, engine, *csets):
            return tuple(cfg["args"])

        def threading_get_kwargs(self, engine, *csets):
            return dict(extra_kw)

        def thread_trigger(self, iterable, observer, *args, **kwds):
            return functor(iterable, *args, **kwds)

    class Obs:
        def error(self, *a, **k):
            pass

        def warn(self, *a, **k):
            pass

        def info(self, *a, **k):
            pass

    class Engine:
        observer = Obs()
        parallelism = cfg["threads"]
        mode = "install"

    import os
    os.environ.pop("PKGCORE_TRIGGER_PARALLELISM", None)
    T().trigger(Engine())
    return []


DRIVERS = {"map_async": drive_map_async, "regen_repository": drive_regen, "threaded_trigger": drive_trigger}


def gen_cfg_regen(rng, quick):
    n = rng.choice([0, 1, 2, 3]) if rng.random() < 0.1 else rng.randrange(2, 80)
    items = [[i, rng.choice(["ok", "ok", "ok", "err", "meta"])] for i in range(n)]
    return {
        "driver": "regen_repository", "items": items, "kind": rng.choice(["list", "gen"]),
        "threads": rng.choice([1, 2, 3, 4, 8, 16]), "helper": rng.random() < 0.5, "style": "regen_iter",
        "kwds": {}, "pt_kwds": False, "args": [], "pt_args": False,
        "sleep_p": rng.choice([0.0, 0.2, 0.5, 0.9]), "switch": rng.choice([1e-6, 1e-5, 5e-3]),
        "inject_p": rng.choice([0.0, 0.3, 0.7]), "seed": rng.randrange(1 << 30),
    }


def gen_cfg_trigger(rng, quick):
    n = rng.choice([0, 1, 2]) if rng.random() < 0.1 else rng.randrange(2, 80)
    return {
        "driver": "threaded_trigger", "items": list(range(n)), "kind": "list",
        "threads": rng.choice([1, 2, 3, 4, 8, 16]), "style": "none",
        "kwds": {"kw": 1} if rng.random() < 0.06 else {}, "pt_kwds": False,
        "args": rng.choice([[], ["x"]]), "pt_args": False,
        "sleep_p": rng.choice([0.0, 0.2, 0.5, 0.9]), "switch": rng.choice([1e-6, 1e-5, 5e-3]),
        "inject_p": rng.choice([0.0, 0.3, 0.7]), "seed": rng.randrange(1 << 30),
    }


# ------------------------------------------------------------------------------------------------------------------
# one monitored execution


class Runner:
    def __init__(self, ctx):
        self.ctx = ctx
        self.pert = Perturb(ctx)
        self.have_mon = self.pert.install()
        if not self.have_mon:
            ctx.note("sys.monitoring unavailable: LINE-event yield injection disabled")
        self.hung = False

    def close(self):
        self.pert.uninstall()

    def execute(self, cfg):
        """Run one configuration; returns the observation dict (never judges)."""
        # bound the number of sleeps / injected yields per run (~80 / ~120): every one of them costs a trip through the
        # OS scheduler, which is milliseconds on a loaded machine
        n = max(1, len(cfg["items"]))
        log = Log(cfg["seed"], min(cfg["sleep_p"], 40.0 / n))
        errors = []
        old_hook = threading.excepthook

        def hook(a):
            errors.append("%s: %s" % (getattr(a.exc_type, "__name__", a.exc_type), a.exc_value))

        box = {}

        def body():
            try:
                box["res"] = DRIVERS[cfg["driver"]](cfg, log)
            except BaseException as e:  # noqa: BLE001 - recorded, judged by the oracle
                box["exc"] = "%s: %s" % (type(e).__name__, e)

        old_sw = sys.getswitchinterval()
        threading.excepthook = hook
        sys.setswitchinterval(cfg["switch"])
        self.pert.p = min(cfg["inject_p"], 20.0 / n) if self.have_mon else 0.0
        fired0 = self.pert.fired
        th = threading.Thread(target=body, daemon=True)
        t0 = time.monotonic()
        th.start()
        progress = -1
        waited = 0
        while True:
            th.join(30)
            if not th.is_alive():
                break
            waited += 30
            now = len(log.pulled) + len(log.produced)
            if now == progress or waited >= 120:
                box["hang"] = True
                break
            progress = now
        self.pert.p = 0.0
        sys.setswitchinterval(old_sw)
        threading.excepthook = old_hook
        obs = {
            "pulled": list(log.pulled), "produced": list(log.produced), "calls": list(log.calls),
            "results": box.get("res"), "exc": box.get("exc"), "hang": box.get("hang", False),
            "thread_errors": errors, "injected": self.pert.fired - fired0,
            "alive_after": sum(1 for t in log.threads if t.is_alive()) if not box.get("hang") else None,
            "wall": time.monotonic() - t0,
        }
        if obs["hang"]:
            self.hung = True
        return obs

    def judge(self, cfg, obs, record=True):
        """Multiset oracle over the monitor log.  Returns list of (kind, witness)."""
        ctx = self.ctx
        out = []
        if cfg["driver"] == "regen_repository":
            items = [i for i, _m in cfg["items"]]
            exp_produced_all = [["err", i] for i, m in cfg["items"] if m == "err"]
        else:
            items = cfg["items"]
            exp_produced_all = None
        base = {"cfg": cfg, "thread_errors": obs["thread_errors"][:4], "n_thread_errors": len(obs["thread_errors"]),
                "exc": obs["exc"], "n_items": len(items), "n_pulled": len(obs["pulled"]),
                "uses_kwds": bool(cfg["kwds"] or cfg["pt_kwds"]),
                "worker_calls": len(obs["calls"])}
        if obs["hang"]:
            out.append(("deadlock", dict(base, rule="no-progress-30s")))
            return out
        if obs["exc"] is not None:
            out.append(("map-raised", dict(base, rule="exception-from-map")))
            return out
        exp = collections.Counter(_key(x) for x in items)
        got = collections.Counter(_key(x) for _t, x in obs["pulled"])
        lost = exp - got
        dup = got - exp
        if lost or dup:
            rule = "+".join(r for r, c in (("lost", lost), ("duplicated-or-invented", dup)) if c)
            out.append(("items-not-exactly-once", dict(
                base, rule=rule, lost=sorted(lost.elements())[:20], n_lost=sum(lost.values()),
                extra=sorted(dup.elements())[:20], n_extra=sum(dup.values()))))
        produced = obs["produced"]
        if exp_produced_all is not None and not (lost or dup):
            # regen: the monitor's "produced" log must itself be what the statement predicts
            if collections.Counter(map(_key, produced)) != collections.Counter(map(_key, exp_produced_all)):
                ctx.note("monitor inconsistency in regen driver")
        res = obs["results"] or []
        need = collections.Counter(_key(v) for v in produced if _nonempty(v))
        allowed = collections.Counter(_key(v) for v in produced)
        have = collections.Counter(_key(v) for v in res)
        missing = need - have
        # empties are tolerated in any number
        extra = collections.Counter({k: c for k, c in (have - allowed).items()
                                     if k not in [_key(e) for e in _EMPTY]})
        if missing or extra:
            rule = "+".join(r for r, c in (("result-lost", missing), ("result-extra", extra)) if c)
            out.append(("results-mismatch", dict(
                base, rule=rule, missing=sorted(missing.elements())[:10], n_missing=sum(missing.values()),
                extra=sorted(extra.elements())[:10], n_extra=sum(extra.values()), n_results=len(res),
                n_produced=len(produced))))
        if record:
            if cfg.get("style") == "poison":
                ctx.count("runs_with_one_raising_worker")
            if any(v is False or (type(v) is int and v == 0) for v in produced):
                ctx.count("falsy_but_nonempty_results_produced")
            if obs["alive_after"]:
                ctx.count("worker_threads_alive_after_return", obs["alive_after"])
            # pass-through (counted only)
            if cfg["driver"] == "map_async":
                for _t, a, k in obs["calls"]:
                    want_k = dict(cfg["kwds"])
                    if cfg["pt_kwds"]:
                        want_k["ptk"] = 1
                    a_ok = a[:len(cfg["args"])] == cfg["args"] and len(a) == len(cfg["args"]) + (1 if cfg["pt_args"] else 0)
                    if not a_ok or k != want_k:
                        ctx.count("args_passthrough_mismatch")
        return out

    def run_cfg(self, cfg):
        ctx = self.ctx
        obs = self.execute(cfg)
        viol = self.judge(cfg, obs)
        ctx.evaluated()
        ctx.count("runs_" + cfg["driver"])
        ctx.count("style:" + cfg["style"])
        ctx.count("kind:" + cfg["kind"])
        ctx.count("items_pulled", len(obs["pulled"]))
        ctx.count("injected_yields", obs["injected"])
        if cfg["kwds"] or cfg["pt_kwds"]:
            ctx.count("runs_with_kwargs")
        tseq = [t for t, _x in obs["pulled"]]
        nthreads_used = len(set(tseq))
        if len(tseq) >= 2 and nthreads_used >= 2:
            ctx.count("runs_multi_thread_interleaved")
            switches = sum(1 for a, b in zip(tseq, tseq[1:]) if a != b)
            ctx.count("thread_switches_between_pulls", switches)
            ctx.nontrivial(_key([cfg["driver"], len(tseq), cfg["threads"], cfg["style"], cfg["kind"], tseq]))
        elif len(tseq) >= 2:
            ctx.count("runs_single_thread_did_all")
        if ctx.want_sample() and len(tseq) >= 4 and nthreads_used >= 2 and len(tseq) <= 16:
            ctx.sample({"driver": cfg["driver"], "items": len(tseq), "threads": cfg["threads"], "style": cfg["style"],
                        "pulling_thread_sequence": tseq, "results": len(obs["results"] or []),
                        "violations": [k for k, _ in viol]})
        for kind, w in viol:
            ctx.violation(kind, w)
        return obs, viol


def run(ctx):
    rng = ctx.rng
    r = Runner(ctx)
    try:
        n = ctx.budget(450, 4000)
        cap = time.monotonic() + ctx.budget(38, 600)      # wall cap: threads at a 1 us switch interval crawl on a loaded box
        nstall = ctx.budget(1, 5)
        for i in range(n):
            x = i % 10
            if i < nstall:
                cfg = gen_cfg(rng, ctx.quick)
                cfg.update(kind="stallgen", items=list(range(rng.randrange(6, 14))), stall_s=rng.choice([1.6, 2.2, 3.1]),
                           threads=rng.choice([1, 2, 4, 7]), kwds={}, pt_kwds=False, inject_p=0.0, sleep_p=0.0)
                ctx.count("runs_with_stalling_producer")
            elif x == 8:
                cfg = gen_cfg_regen(rng, ctx.quick)
            elif x == 9:
                cfg = gen_cfg_trigger(rng, ctx.quick)
            else:
                cfg = gen_cfg(rng, ctx.quick)
            r.run_cfg(cfg)
            if r.hung:
                ctx.note("stopped after a deadlocked map (stuck threads would disturb later runs)")
                break
            if ctx.out_of_time(45) or time.monotonic() > cap:
                ctx.note("stopped early by the soft deadline after %d runs" % (i + 1))
                break
    finally:
        r.close()


# ------------------------------------------------------------------------------------------------------------------


def classify(w):
    """One mechanism: the inner `worker(*args)` does not accept the keyword arguments map_async hands to Thread(kwargs=...),
    so every worker thread dies with TypeError before pulling anything."""
    if w.get("kind") != "items-not-exactly-once" or w.get("rule") != "lost":
        return None
    if not w.get("uses_kwds"):
        return None
    errs = w.get("thread_errors") or []
    if not errs or w.get("n_pulled") != 0 or w.get("worker_calls") != 0:
        return None
    if w.get("n_lost") != w.get("n_items"):
        return None
    if all(e.startswith("TypeError:") and "worker() got an unexpected keyword argument" in e for e in errs):
        return "C41:worker-drops-kwargs-typeerror"
    return None


def replay(ctx, w):
    cfg = w.get("cfg", w)
    r = Runner(ctx)
    try:
        # schedule-dependent witnesses: repeat under many seeds
        reps = 1 if (cfg.get("kwds") or cfg.get("pt_kwds")) else 150
        rng = random.Random(cfg.get("seed", 0))
        for k in range(reps):
            c = dict(cfg)
            if k:
                c["seed"] = rng.randrange(1 << 30)
                c["inject_p"] = rng.choice([0.1, 0.3, 0.7, 1.0])
                c["sleep_p"] = rng.choice([0.05, 0.2, 0.5, 0.9])
                c["switch"] = rng.choice([1e-6, 1e-5])
            obs = r.execute(c)
            ctx.evaluated()
            viol = r.judge(c, obs, record=False)
            for kind, wit in viol:
                ctx.violation(kind, wit)
            if viol or r.hung:
                break
    finally:
        r.close()
