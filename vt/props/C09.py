"""C09 Dependency strings round-trip; USE evaluation preserves meaning."""

from ..gen import c09_depstrings as G
from ..ref import c09_depmodel as M

ID = "C09"
LEVEL = "exploration"
TECHNIQUE = "round trip + propositional equivalence against a PMS reference model"
RULE = ("grammar-generated DEPEND / LICENSE / RESTRICT / SRC_URI(->) / REQUIRED_USE strings (nesting <=4, <=6 leaves, <=4 flags) "
        "parsed through the real ebuild_src attribute code, rendered with str() and re-parsed; each string also gets "
        "token-level corruptions (drop/insert parentheses, dangling ||, ^^, ??, flag?, ->, '|' in a word, glued/dropped/"
        "duplicated/swapped tokens, empty groups) judged by a reference bracket grammar; every valid string is evaluated "
        "with evaluate_depset(F) for every subset F of its flags and the result is compared, for every token subset T, "
        "with the reference meaning of the original text under F. Non-trivial = (a) an evaluation where at least one "
        "conditional is unmet and something remains, (b) a corrupted string the grammar must reject, (c) a round trip of "
        "a string nested >=2 deep; distinct = distinct (kind, text[, F]).")
ASSUMPTIONS = [
    "structure equality is the implementation's DepSet.__eq__ (both directions) plus, for generator strings, equality of "
    "the reference parse of the rendered text with the generated tree after collapsing single-member groups",
    "only unbalanced standalone parentheses and group operators / use-conditionals / trailing '->' that lack their operand "
    "are required to be rejected; empty groups, '|' inside words, glued parentheses, odd words are accepted either way",
    "rejected = DepsetParseError (possibly wrapped in MetadataException by the attribute loader) or another pkgcore error; a "
    "builtin exception escaping counts as a crash",
    "where an emptied group is nested inside an any-of/^^/?? group next to other members the statement does not say whether "
    "it counts as a satisfied member (PMS literal) or disappears (Portage use_reduce, pkgcore): either reading is accepted, "
    "consistently per (string, flag set)",
    "single-member '?? ( x )' groups are reduced to 'x' by the parser; the evaluation clause is not judged for such strings",
    "atoms come from a fixed pool of spellings that str() reproduces verbatim; transitive use deps follow PMS 8.3.4",
]
SHARDS = {"quick": 4, "thorough": 16}
TIMEOUT = {"quick": 240, "thorough": 1800}
MIN_EVALS = 50000
REQUIRED_COUNTERS = ("roundtrip_checked", "eval_pairs", "must_reject_checked", "parsed:depend", "parsed:license",
                     "parsed:restrict", "parsed:srcuri", "parsed:requse")

M.register_atoms(G.ATOMS + G.TRANSITIVE_ATOMS)


class UriElem:
    """Harness element for SRC_URI: keeps (uri, rename) and renders the way SRC_URI is written."""

    __slots__ = ("uri", "name")

    def __init__(self, uri, name=None):
        self.uri, self.name = uri, name

    def __str__(self):
        return self.uri if self.name is None else "%s -> %s" % (self.uri, self.name)

    __repr__ = __str__

    def __eq__(self, other):
        return isinstance(other, UriElem) and (self.uri, self.name) == (other.uri, other.name)

    def __hash__(self):
        return hash((self.uri, self.name))


class NotConditionalFree(Exception):
    pass


class Impl:
    """Drives the real parser the way ebuild_src does."""

    ATTR = {"depend": ("DEPEND", "depend"), "license": ("LICENSE", "license"), "restrict": ("RESTRICT", "restrict"),
            "requse": ("REQUIRED_USE", "required_use"), "distfiles": ("SRC_URI", "distfiles"),
            "properties": ("PROPERTIES", "properties"), "rdepend": ("RDEPEND", "rdepend")}

    def __init__(self):
        from pkgcore.ebuild import atom as atom_mod
        from pkgcore.ebuild import conditionals, errors
        from pkgcore.ebuild.eapi import get_eapi
        from pkgcore.ebuild.ebuild_src import base as ebuild
        from pkgcore.exceptions import PkgcoreException
        from pkgcore.restrictions import boolean, packages, values

        self.conditionals = conditionals
        self.DepSet = conditionals.DepSet
        self.DepsetParseError = errors.DepsetParseError
        self.PkgcoreException = PkgcoreException
        self.eapi = get_eapi("8", suppress_unsupported=True)
        self.ebuild = ebuild
        self.boolean, self.packages, self.values = boolean, packages, values
        self.atom = atom_mod.atom

    def parse(self, kind, text):
        if kind == "srcuri":
            return self.DepSet.parse(text, UriElem, operators={}, element_func=UriElem, attr="SRC_URI",
                                     allow_src_uri_file_renames=self.eapi.options.src_uri_renames)
        key, attr = self.ATTR[kind]
        o = self.ebuild(None, "dev-util/diffball-0.1-r1")
        object.__setattr__(o, "eapi", self.eapi)
        object.__setattr__(o, "data", {key: text})
        return getattr(o, attr)

    def rejection(self, exc):
        """-> 'depset' | 'pkgcore' | None (None: a crash, not a rejection)"""
        e, seen = exc, 0
        while e is not None and seen < 6:
            if isinstance(e, self.DepsetParseError):
                return "depset"
            e, seen = (e.__cause__ or e.__context__), seen + 1
        if isinstance(exc, self.PkgcoreException):
            return "pkgcore"
        return None

    # -- independent reading of a (conditional-free) restriction structure --------------------
    def leaf_text(self, node):
        if isinstance(node, self.values.ContainmentMatch):
            v = sorted(node.vals)
            return ("!" if node.negate else "") + ",".join(v)
        return str(node)

    def sat(self, node, T, requse):
        b = self.boolean
        if isinstance(node, self.packages.Conditional):
            raise NotConditionalFree(repr(node))
        if isinstance(node, self.values.ContainmentMatch):
            if len(node.vals) != 1 or node.all:
                raise ValueError("unexpected ContainmentMatch %r" % (node,))
            (f,) = node.vals
            if requse:
                return (f in T) != bool(node.negate)
            return (self.leaf_text(node) in T)
        if isinstance(node, self.atom) or isinstance(node, (str, UriElem)):
            return str(node) in T
        if isinstance(node, b.base):
            vals = [self.sat(c, T, requse) for c in node.restrictions]
            if isinstance(node, b.OrRestriction):
                r = any(vals)
            elif isinstance(node, b.AndRestriction):
                r = all(vals)
            elif isinstance(node, b.JustOneRestriction):
                r = sum(vals) == 1
            elif isinstance(node, b.AtMostOneOfRestriction):
                r = sum(vals) <= 1
            else:
                raise ValueError("unknown boolean node %r" % (node,))
            return r != bool(node.negate)
        raise ValueError("unknown node %r" % (node,))

    def leaves(self, node, acc):
        if isinstance(node, self.packages.Conditional):
            for c in node.payload:
                self.leaves(c, acc)
        elif isinstance(node, self.boolean.base) and not isinstance(node, self.atom):
            for c in node.restrictions:
                self.leaves(c, acc)
        else:
            acc.append(self.leaf_text(node))
        return acc


# what boolean.py's / packages.py's __str__ methods print for the subtree of a ^^ / ?? group (the specific wrong
# rendering that is a recorded finding: stringify_boolean has no branch for JustOne/AtMostOneOf and falls back to str())
def _wrong_render_node(n):
    k = n[0]
    if k == "tok":
        return n[1]
    if k == "cond":
        ch = [_wrong_render_node(c) for c in n[3]]
        return "( Conditional: ('use',) %s%s payload: [ %s ] )" % ("!" if n[2] else "", n[1], ", ".join(ch))
    ch = [_wrong_render_node(c) for c in n[1]]
    if k == "all":
        return "( " + " && ".join(ch) + " )"
    if k == "any":
        return "( " + " || ".join(ch) + " )"
    if k == "xor":
        return "exactly-one-of ( " + " ".join(ch) + " )"
    if k == "amo":
        return "at-most-one-of ( " + " ".join(ch) + " )"
    raise ValueError(k)


def wrong_render_named_groups(nodes):
    """Rendering of a collapsed tree in which ^^/?? groups come out as their descriptive __str__ and everything
    outside such groups is rendered correctly."""
    out = []
    for n in nodes:
        k = n[0]
        if k == "tok":
            out.append(n[1])
        elif k in ("xor", "amo"):
            out.append(_wrong_render_node(n))
        elif k == "cond":
            out.append(("!" if n[2] else "") + n[1] + "? ( " + wrong_render_named_groups(n[3]) + " )")
        else:
            out.append((M.OP_TEXT[k] + " " if k in M.OP_TEXT else "") + "( " + wrong_render_named_groups(n[1]) + " )")
    return " ".join(out)


def amo_reduced_to_one(nodes, F):
    """Some ?? group keeps exactly one member under F although it was written with more (reading B)."""
    for n in nodes:
        k = n[0]
        if k == "tok":
            continue
        if k == "cond":
            if (n[1] in F) != bool(n[2]) and amo_reduced_to_one(n[3], F):
                return True
            continue
        if k == "amo" and len(n[1]) >= 2 and len(M.reduce_B(n[1], F)) == 1:
            return True
        if amo_reduced_to_one(n[1], F):
            return True
    return False


def _sat_amo_collapse_node(n, T):
    k = n[0]
    if k == "tok":
        return M._leaf_true(n, T, True)
    vals = [_sat_amo_collapse_node(c, T) for c in n[1]]
    if k == "all":
        return all(vals)
    if k == "any":
        return any(vals)
    if k == "xor":
        return sum(vals) == 1
    if k == "amo":
        return vals[0] if len(vals) == 1 else sum(vals) <= 1
    raise ValueError(k)


def sat_amo_collapse(nodes, F, T):
    """The specific wrong model of a recorded finding: like reading B, except that a ?? group left with a single
    member is replaced by that member (so the member becomes mandatory)."""
    return all(_sat_amo_collapse_node(n, T) for n in M.reduce_B(nodes, F))


# ---------------------------------------------------------------------------------------------
class Checker:
    def __init__(self, ctx):
        self.ctx = ctx
        self.impl = Impl()

    def try_parse(self, kind, text):
        try:
            return self.impl.parse(kind, text), None
        except Exception as e:  # judged by the caller
            return None, e

    def check_text(self, kind, text, ast=None, origin="generated", eval_limit=None, flag_container=frozenset):
        """Full judgement of one string. -> parsed DepSet or None"""
        ctx, impl = self.ctx, self.impl
        base_kind = {"distfiles": "srcuri", "properties": "restrict", "rdepend": "depend"}.get(kind, kind)
        verdict, why = M.classify_text(text, base_kind)
        d, exc = self.try_parse(kind, text)
        ctx.count("strings:%s:%s" % (origin, verdict))
        wit = {"skind": kind, "text": text, "verdict": verdict, "why": why, "origin": origin}
        if exc is not None:
            how = impl.rejection(exc)
            ctx.evaluated()
            if how is None:
                ctx.violation("crash-instead-of-reject", dict(wit, exc=repr(exc)[:300], rule=type(exc).__name__))
                return None
            ctx.count("rejected:%s:%s" % (verdict, how))
            if verdict == M.MUST_REJECT:
                ctx.count("must_reject_checked")
                ctx.nontrivial("rej|%s|%s" % (kind, text))
            elif verdict == M.VALID:
                ctx.count("valid_string_rejected:%s" % kind)
                if not (base_kind in ("restrict", "srcuri") and M.has_kind(M.parse(text, base_kind), ("all",))):
                    ctx.note("valid %s string rejected: %r (%s)" % (kind, text, str(exc)[:120]))
            return None
        ctx.count("parsed:%s" % kind)
        if verdict == M.MUST_REJECT:
            ctx.evaluated()
            ctx.count("must_reject_checked")
            ctx.nontrivial("rej|%s|%s" % (kind, text))
            try:
                rendered = str(d)
            except Exception as e:
                rendered = "<str raised %r>" % (e,)
            rule = "unbalanced-parens" if ("close" in why or "unclosed" in why) else "dangling-operator"
            ctx.violation("malformed-string-accepted", dict(wit, rendered=rendered, rule=rule))
            return d
        # ---- round trip
        self.check_roundtrip(kind, base_kind, text, d, verdict, ast, wit)
        # ---- evaluation
        if verdict == M.VALID and kind in ("depend", "license", "restrict", "srcuri", "requse"):
            if ast is None:
                ast = M.parse(text, base_kind)
            self.check_eval(kind, text, ast, d, eval_limit, flag_container)
        return d

    def check_roundtrip(self, kind, base_kind, text, d, verdict, ast, wit):
        ctx, impl = self.ctx, self.impl
        ctx.evaluated()
        ctx.count("roundtrip_checked")
        try:
            rendered = str(d)
        except Exception as e:
            ctx.violation("render-raises", dict(wit, exc=repr(e)[:300]))
            return
        wit = dict(wit, rendered=rendered)
        if verdict == M.VALID and ast is None:
            ast = M.parse(text, base_kind)
        if ast is not None and verdict == M.VALID:
            wit["expected_structure"] = M.render(M.collapse_single(ast))
            if M.depth_of(ast) >= 2:
                ctx.nontrivial("rt|%s|%s" % (kind, text))
        d2, exc = self.try_parse(kind, rendered)
        if exc is not None:
            ctx.violation("rendered-text-does-not-parse", dict(wit, exc=repr(exc)[:300], rule=self._rt_rule(ast)))
            return
        try:
            eq = (d == d2) and (d2 == d) and not (d != d2)
        except Exception as e:
            ctx.violation("eq-raises", dict(wit, exc=repr(e)[:300]))
            return
        if not eq:
            ctx.violation("reparse-not-equal", dict(wit, rerendered=str(d2), rule=self._rt_rule(ast)))
            return
        # independent structural reading of the rendered text (generator strings only; distfiles drops uris by design)
        if ast is not None and verdict == M.VALID and kind != "distfiles":
            ctx.evaluated()
            ctx.count("roundtrip_reference_structure_checked")
            want = M.collapse_single(ast)
            try:
                got = M.parse(rendered, base_kind)
            except M.Reject as r:
                ctx.violation("rendered-text-rejected-by-reference", dict(wit, ref_reason=r.why, rule=self._rt_rule(ast)))
                return
            if got != want:
                ctx.violation("rendered-structure-differs", dict(wit, got=M.render(got), rule=self._rt_rule(ast)))

    @staticmethod
    def _rt_rule(ast):
        if ast is None:
            return "corrupted-but-accepted"
        c = M.collapse_single(ast)
        if M.has_kind(c, ("xor", "amo")):
            return "xor-amo-group"
        return "plain"

    def check_eval(self, kind, text, ast, d, eval_limit, flag_container):
        ctx, impl = self.ctx, self.impl
        requse = kind == "requse"
        if M.has_single_amo(ast):
            ctx.skip_unspecified("single-member ?? group is reduced to its member by the parser: evaluation clause not judged")
            return
        flags = sorted(M.flags_of(ast) | set().union(*[M.transitive_flags(t) for t in M.tokens_of(ast)] or [set()]))
        fsets = list(M.subsets(flags))
        if eval_limit is not None and len(fsets) > eval_limit:
            ctx.rng.shuffle(fsets)
            fsets = fsets[:eval_limit]
        for F in fsets:
            ctx.count("eval_pairs")
            astF = M.map_tokens(ast, lambda t: M.transitive_text(t, F)) if kind == "depend" else ast
            toks = M.tokens_of(astF)
            if requse:
                toks = sorted({t.lstrip("!") for t in toks})
            wit = {"skind": kind, "text": text, "F": sorted(F), "origin": "eval"}
            try:
                ev = d.evaluate_depset(flag_container(F))
            except Exception as e:
                ctx.evaluated()
                ctx.violation("evaluate-raises", dict(wit, exc=repr(e)[:300]))
                continue
            try:
                wit["evaluated"] = str(ev)
            except Exception as e:
                wit["evaluated"] = "<str raised %r>" % (e,)
            redB = M.reduce_B(astF, F)
            unmet = any(True for _ in _unmet(ast, F))
            if unmet and redB:
                ctx.nontrivial("ev|%s|%s|%s" % (kind, text, ",".join(sorted(F))))
            wit["expected"] = M.render(redB)
            bad_B = bad_A = None
            nT = 0
            vec = []
            try:
                for T in M.subsets(toks):
                    nT += 1
                    got = all(impl.sat(n, T, requse) for n in ev.restrictions)
                    vec.append(got)
                    b = M.sat_plain(redB, T, requse)
                    if got != b and bad_B is None:
                        bad_B = (T, got, b)
                    a = M.sat_A(astF, F, T, requse)
                    if got != a and bad_A is None:
                        bad_A = (T, got, a)
            except NotConditionalFree as e:
                ctx.evaluated()
                ctx.violation("result-not-conditional-free", dict(wit, node=str(e)[:200]))
                continue
            ctx.evaluated(nT)
            # extra leaves in the result that the original never mentions
            extra = sorted(set(impl.leaves(ev, [])) - set(M.tokens_of(astF)))
            if extra:
                ctx.violation("result-has-foreign-token", dict(wit, extra=extra))
                continue
            if bad_B is None:
                ctx.count("eval_agrees_vanishing_reading")
                if bad_A is not None:
                    ctx.skip_unspecified("emptied group nested in any-of/^^/??: PMS-literal and vanishing readings differ")
                continue
            if bad_A is None:
                ctx.count("eval_agrees_pms_literal_reading_only")
                ctx.skip_unspecified("emptied group nested in any-of/^^/??: PMS-literal and vanishing readings differ")
                continue
            T, got, b = bad_B
            w = dict(wit, T=sorted(T), impl=got, want=b, want_pms_literal=M.sat_A(astF, F, T, requse),
                     tokens=list(toks), impl_vector=vec)
            if requse and M.has_kind(ast, ("amo",)):
                w["rule"] = "amo-group"
            elif requse and M.has_kind(ast, ("xor",)):
                w["rule"] = "xor-group"
            elif M.has_kind(ast, ("any",)):
                w["rule"] = "any-of-group"
            else:
                w["rule"] = "all-of-only"
            ctx.violation("evaluated-meaning-differs", w)


def _unmet(nodes, F):
    for n in nodes:
        k = n[0]
        if k == "cond":
            if (n[1] in F) == bool(n[2]):
                yield n
            else:
                yield from _unmet(n[3], F)
        elif k != "tok":
            yield from _unmet(n[1], F)


CONTAINERS = [frozenset, set, list, tuple, lambda F: sorted(F), lambda F: dict.fromkeys(F, True)]


def run(ctx):
    ck = Checker(ctx)
    rng = ctx.rng
    # sanity of the atom pool: str() must reproduce the spelling, else the token identity used by the oracle is void
    for a in G.ATOMS + G.TRANSITIVE_ATOMS:
        d, exc = ck.try_parse("depend", a)
        if exc is not None or str(d) != a:
            ctx.set_inconclusive("atom pool entry %r is not reproduced by str(): %r %r" % (a, exc, d and str(d)))
            return
    n = ctx.budget(4000, 40000)
    kinds = ["depend", "depend", "license", "restrict", "srcuri", "requse", "requse"]
    for i in range(n):
        kind = kinds[i % len(kinds)]
        bare_all = kind in ("depend", "license", "requse") or rng.random() < 0.1
        ast = G.gen(rng, kind, max_depth=rng.choice([2, 3, 4, 4]), max_leaves=6,
                    transitive=(kind == "depend" and rng.random() < 0.3), bare_all=bare_all)
        text = M.render(ast)
        if M.parse(text, kind) != ast:
            ctx.set_inconclusive("reference parser does not invert the renderer on %r" % text)
            return
        cont = CONTAINERS[i % len(CONTAINERS)]
        d = ck.check_text(kind, text, ast=ast, origin="generated", flag_container=cont)
        if i < 4:
            ctx.sample({"kind": kind, "text": text, "rendered": None if d is None else str(d)})
        # the same text through sibling attributes that share the parser configuration
        if kind == "restrict" and i % 3 == 0:
            ck.check_text("properties", text, ast=ast, origin="generated")
        if kind == "srcuri" and i % 2 == 0:
            ck.check_text("distfiles", text, ast=ast, origin="generated")
        # corruptions
        for _ in range(ctx.budget(5, 6)):
            name, bad = G.corrupt(rng, text, kind)
            if rng.random() < 0.25:
                name2, bad = G.corrupt(rng, bad, kind)
                name += "+" + name2
            if bad == text:
                continue
            ctx.count("corruption:" + name.split("+")[0])
            ck.check_text(kind, bad, origin="corrupted")
        if i % 16 == 0 and ctx.out_of_time(20):
            ctx.note("stopped early by the soft deadline after %d strings" % i)
            break
    # fixed boundary strings (from the statement and the anchors)
    for kind, text in FIXED:
        ck.check_text(kind, text, origin="fixed")


FIXED = [
    ("depend", "|| ( ssl? ( dev-libs/foo ) )"),
    ("depend", "|| ( ssl? ( dev-libs/foo ) !ssl? ( virtual/a ) )"),
    ("depend", "|| ( ssl? ( dev-libs/foo virtual/a ) app-arch/xz-utils )"),
    ("depend", "|| ( ( ssl? ( dev-libs/foo ) ) virtual/a )"),
    ("depend", "|| ( || ( ssl? ( dev-libs/foo ) ) virtual/a )"),
    ("depend", "ssl? ( gtk? ( !X? ( dev-libs/foo ) ) )"),
    ("depend", "dev-libs/foo ("), ("depend", "dev-libs/foo )"), ("depend", "||"), ("depend", "ssl?"),
    ("depend", "|| dev-libs/foo"), ("depend", "ssl? dev-libs/foo"), ("depend", "( dev-libs/foo"),
    ("depend", "|| ( dev-libs/foo ) )"), ("depend", "!ssl? ( dev-libs/foo ) ) ("),
    ("license", "|| ( GPL-2 MIT ) ssl? ( BSD )"), ("license", "|| ( GPL-2 ssl? ( MIT"),
    ("restrict", "test? ( test ) !ssl? ( mirror fetch )"), ("restrict", "test? ( test"), ("restrict", "test?"),
    ("srcuri", "https://example.org/a-1.tar.gz -> a-1.tgz ssl? ( http://h/p/c.zip -> c.zip d-3.tar.bz2 )"),
    ("srcuri", "https://example.org/a-1.tar.gz ->"), ("srcuri", "ssl? ( http://h/p/c.zip -> )"),
    ("srcuri", "ssl? ( http://h/p/c.zip -> ) )"),
    ("requse", "^^ ( a b ) ?? ( c d ) a? ( !b )"), ("requse", "|| ( a b"), ("requse", "^^"), ("requse", "?? a"),
    ("requse", "?? ( a? ( b ) c )"), ("requse", "^^ ( a? ( b ) c )"), ("requse", "|| ( ?? ( a b ) c )"),
]


def classify(w):
    kind = w.get("kind")
    if kind in ("reparse-not-equal", "rendered-structure-differs", "rendered-text-does-not-parse",
                "rendered-text-rejected-by-reference"):
        # ^^ / ?? groups are rendered with boolean.py's descriptive __str__ ("exactly-one-of ( a b )")
        if w.get("skind") == "requse" and "text" in w:
            try:
                ast = M.collapse_single(M.parse(w["text"], "requse"))
            except M.Reject:
                return None
            if M.has_kind(ast, ("xor", "amo")) and wrong_render_named_groups(ast) == w.get("rendered"):
                return "exactly-one/at-most-one-stringify"
        return None
    if kind == "evaluated-meaning-differs" and w.get("rule") == "amo-group" and "T" in w:
        try:
            ast = M.parse(w["text"], "requse")
        except M.Reject:
            return None
        F = set(w["F"])
        # narrow: the implementation's whole truth table equals the table of the specific wrong model
        model = [sat_amo_collapse(ast, F, T) for T in M.subsets(w.get("tokens", []))]
        if amo_reduced_to_one(ast, F) and w.get("impl_vector") == model and w.get("impl") != w.get("want"):
            return "at-most-one-reduced-to-single-member-becomes-mandatory"
        return None
    if kind == "malformed-string-accepted" and w.get("rule") == "unbalanced-parens" and w.get("skind") == "srcuri":
        # SRC_URI: the token after "word ->" is taken as the file name whatever it is, including a parenthesis.
        # Narrow: the string is well-formed under exactly that modified grammar and a parenthesis was swallowed.
        ok, swallowed = _balanced_with_greedy_rename(w.get("text", "").split())
        if ok and swallowed:
            return "rename-arrow-swallows-parenthesis"
        return None
    return None


def _balanced_with_greedy_rename(toks):
    """Bracket grammar in which 'word -> X' consumes X unconditionally.  -> (well-formed, parentheses swallowed)"""
    depth = 0
    swallowed = 0
    i, n = 0, len(toks)
    last_open = False
    while i < n:
        t = toks[i]
        if t == "(":
            depth += 1
            last_open = True
            i += 1
        elif t == ")":
            if last_open or depth == 0:
                return False, swallowed
            depth -= 1
            i += 1
            last_open = False
        elif t[-1] == "?":
            if i + 1 >= n or toks[i + 1] != "(":
                return False, swallowed
            depth += 1
            last_open = True
            i += 2
        else:
            last_open = False
            if "|" in t:
                return False, swallowed
            if i + 1 < n and toks[i + 1] == "->":
                if i + 2 >= n:
                    return False, swallowed
                if toks[i + 2] in ("(", ")"):
                    swallowed += 1
                i += 3
            else:
                i += 1
    return depth == 0, swallowed


def replay(ctx, w):
    ck = Checker(ctx)
    ck.check_text(w["skind"], w["text"], origin="replay")
