"""C32 Every IPC helper request gets exactly one truthful single-line reply; the channel stays synchronised."""

import os
import re

from ..gen import c32_harness as hx
from ..gen import c32_requests as mgen
from ..gen import c33_requests as igen
from ..ref import c33_placement as ref

ID = "C32"
LEVEL = "exploration"
TECHNIQUE = ("runtime monitoring: scripted daemon request streams over a recording fake channel into the real helpers; "
             "real-daemon src_install scripts whose helper exit statuses are recorded by bash itself")
RULE = ("request streams played from the daemon side (command, nonfatal flag, cwd, phase, option string, NUL-joined "
        "arguments) through run_generic_phase -> EbuildProcessor.generic_handler -> ebd_ipc.<Helper>.__call__ with one helper "
        "object per helper for the whole stream: (A) install helpers with valid operands, missing files, directories, "
        "unknown options and *opts strings that force the external `install` fallback (-s, --bogus, symbolic modes, -v, -C, "
        "-b), including multi-target fallback requests in which a target that is not the last one cannot be installed "
        "(a directory tree sits at its destination), and recursive installs that fail part way followed by valid "
        "recursive installs on the same helper object; (B) eapply/eapply_user/unpack (good, non-applying, corrupt, missing inputs), has_version/best_version, "
        "docompress/dostrip, filter_env; (C) single install requests with EACCES/ENOSPC/EIO/EROFS injected at the k-th "
        "call of os.makedirs/chmod/lchown/symlink/link/utime/unlink, shutil.copyfile, open under the image (every k in the "
        "thorough tier).  Judged per request: exactly one reply (write or raised IpcError whose .ret run_generic_phase "
        "writes), one line, form 0 | <code>BEL<text>, the 6 frame lines consumed exactly, status 0 iff there is no "
        "evidence of failure (missing source, non-zero exit of the external command observed at spawn_get_output, "
        "injected fault not recovered, inputs constructed to fail) and failure only when the action was not completed; "
        "nonfatal failures returned with code and message, fatal ones end the phase.  Non-trivial: every judged request "
        "with at least one operand (distinct by helper, options, arguments, nonfatal, outcome, evidence).  (D) real bash side: "
        "generated src_install bodies (EAPI 5-8; dodir/doins/doins -r/dosym/dobin/dodoc/doman/keepdir/has_version, valid and "
        "invalid, also an operand with blanks, backslashes, `*` and `$`, fatal and nonfatal) run in a real ebuild daemon through the helper scripts, "
        "__ebd_ipc_cmd, __ebd_read_array and __ipc_exit against run_generic_phase with the real helper objects; bash appends the "
        "exit status it received after every call; judged: every step before a fatal failure answered once and in order, status "
        "0 iff the request was constructed to succeed (and then its entries are in the image), nonfatal failures return "
        "non-zero and the script goes on, a fatal failure is never seen as success by bash and fails the build (the daemon is "
        "killed asynchronously, so what the script still does before it dies is only counted), and the processor pkgcore "
        "hands out next answers a metadata request with the right package's data.")
ASSUMPTIONS = [
    "the processor object (read/write/lock/shutdown_processor) and the operation object are stubs; write() renders "
    "text the way EbuildProcessor.write does (str(x) + newline)",
    "whether a valid request is *placed* correctly (modes, owners, extra entries) is C33's business: a success reply is "
    "called untruthful on positive evidence of failure or when a requested file/link is absent from the image (wrong type, "
    "content or link target included); requests PMS forbids (directory without -r, ...) are judged for framing only",
    "an IpcInternalError ('internal failure', build aborted) counts as a truthful failure *status*; on a nonfatal request "
    "it is accepted only when something really failed (injected fault, inputs constructed to fail, external command): a "
    "valid nonfatal request without any failing operation that ends the build violates 'for nonfatal requests the "
    "failure code and message are returned'",
    "expected contents/mtimes of installed files are those of the source files at request time (the work tree is read "
    "again before every request once eapply/unpack/filter_env ... ran in the scenario)",
    "exit status of the external install command is taken from the real spawn_get_output call (observed, not modelled)",
    "real-daemon scripts (section D) run in a child process that is killed after 200 s; a killed child is counted "
    "(daemon_script_timeouts) and says nothing",
]
NEEDS_EBD = True
SHARDS = {"quick": 4, "thorough": 16}
TIMEOUT = {"quick": 330, "thorough": 1500}
MIN_EVALS = 800
REQUIRED_COUNTERS = ("requests_judged", "fallback_requests", "fault_runs_fired", "misc_requests", "phase_fatal_failures",
                     "nonfatal_failures_returned", "fallback_blocked_target_requests", "failed_walk_then_valid_walk",
                     "same_name_symlink:fallback-links", "same_name_symlink:dirlink-trees")

P = hx.PKG_ID
REPLY_RE = re.compile(r"^(?:0|-?\d+\x07[^\n\r]*)$")


# ---------------------------------------------------------------------------------------------------------

def replies_of(rec):
    """Wire texts of everything that answers the request."""
    out = list(rec.writes)
    if rec.mode == "direct" and rec.exc is not None and rec.exc.get("is_ipc_error"):
        out.append(str(rec.exc.get("ret")) + "\n")  # what run_generic_phase would write
    return out


def base_witness(sc, history, idx, rec, extra=None):
    w = {"eapi": sc.eapi, "umask": sc.umask, "tree": sc.tree_spec, "domain": sc.op.domain is not None,
         "history": history[: idx + 1], "index": idx, "helper": rec.req["helper"], "args": rec.req["args"],
         "nonfatal": bool(rec.req.get("nonfatal")), "frame": rec.frame, "mode": rec.mode, "writes": rec.writes,
         "exc": rec.exc, "phase_raised": rec.phase_raised, "spawn": rec.spawn, "injected": rec.injected,
         "reads": rec.reads, "msgs": rec.msgs[:4]}
    if extra:
        w.update(extra)
    return w


def neutral_opts_request(req):
    """Same request with *opts strings the model cannot read replaced by the defaults (placement is unaffected)."""
    sc = dict(hx.DEFAULT_SCOPE)
    sc.update(req.get("scope") or {})
    changed = False
    for k, dflt in (("insopts", "-m0644"), ("diropts", "-m0755"), ("exeopts", "-m0755"), ("libopts", "-m0644")):
        if not ref.parse_install_opts(sc[k])["known"]:
            sc[k] = dflt
            changed = True
    r = dict(req)
    r["scope"] = sc
    return r, changed


def judge(ctx, sc, history, idx, rec):
    req = rec.req
    h = req["helper"]
    nonfatal = bool(req.get("nonfatal"))
    W = lambda extra=None: base_witness(sc, history, idx, rec, extra)  # noqa: E731
    ctx.count("requests")
    ctx.count("helper:" + h)

    # ---- framing
    reps = replies_of(rec)
    ctx.evaluated()
    if len(reps) != 1:
        ctx.violation("reply-count", W({"rule": "%d replies" % len(reps), "replies": reps}))
        if not reps:
            return
    wire = reps[0]
    body = wire[:-1] if wire.endswith("\n") else wire
    ctx.evaluated()
    single = wire.endswith("\n") and "\n" not in body and "\r" not in body
    if not single:
        ctx.violation("reply-not-single-line", W({"rule": h, "wire": wire, "lines": wire.count("\n"),
                                                  "truth": req.get("truth")}))
        body = body.split("\n", 1)[0]
    ctx.evaluated()
    if not REPLY_RE.match(body):
        ctx.violation("reply-malformed", W({"rule": h, "wire": wire}))
        return
    code_s, _, text = body.partition("\x07")
    status = "success" if int(code_s) == 0 else "failure"
    ctx.evaluated()
    if rec.reads != 6 or (rec.reads_at_first_write is not None and rec.reads_at_first_write != 6):
        ctx.violation("frame-desync", W({"rule": "reads=%s at-reply=%s" % (rec.reads, rec.reads_at_first_write)}))
    if getattr(rec, "leftover", None):
        ctx.violation("frame-desync", W({"rule": "unread frame lines", "leftover": rec.leftover}))

    # ---- failure protocol
    build_failed = rec.exc is not None
    internal = build_failed and (rec.exc.get("type") == "IpcInternalError" or not rec.exc.get("is_ipc_error")
                                 or body.endswith("\x07internal failure"))
    ctx.evaluated()
    if status == "failure":
        if text == "":
            ctx.violation("failure-without-message", W({"rule": h, "wire": wire}))
        if nonfatal and build_failed and not internal:
            ctx.violation("nonfatal-failure-not-returned", W({"rule": h, "wire": wire}))
        if not nonfatal and not build_failed:
            ctx.violation("fatal-failure-did-not-fail-build", W({"rule": h, "wire": wire}))
        if nonfatal and not build_failed:
            ctx.count("nonfatal_failures_returned")
        if not nonfatal and build_failed and rec.mode == "phase":
            ctx.count("phase_fatal_failures")
    elif build_failed:
        ctx.violation("build-failed-on-success-reply", W({"rule": h, "wire": wire, "status": status}))
    ctx.count("status:" + status)

    # ---- truth
    if "truth" in req:
        judge_misc(ctx, sc, rec, req, status, text, W)
    else:
        judge_install(ctx, sc, rec, req, status, text, wire, W, internal)


def judge_install(ctx, sc, rec, req, status, text, wire, W, internal=False):
    h = req["helper"]
    exp = ref.model(req, sc.tree, sc.work, rec.pre, P, umask=sc.umask)
    inst = [c for c in rec.spawn if c["argv"] and c["argv"][0] == "install"]
    fallback = bool(inst)
    if fallback:
        ctx.count("fallback_requests")
        ctx.count("fallback_install_rets:" + ",".join(str(c["ret"]) for c in inst)[:20])
    placement = exp
    if exp["verdict"] == "unspecified" and exp["rule"] == "opts-unmodelled":
        r2, changed = neutral_opts_request(req)
        placement = ref.model(r2, sc.tree, sc.work, rec.pre, P, umask=sc.umask)
    if placement["verdict"] == "reject":
        ctx.skip_unspecified("PMS-forbidden request: framing judged, truth left to C33")
        return
    if not req["args"]:
        ctx.skip_unspecified("no operands")
        return
    evidence = []
    if placement["verdict"] == "fail":
        evidence.append("missing-source")
    if any(c["ret"] != 0 for c in inst):
        evidence.append("external-install-failed")
    if rec.injected:
        evidence.append("fault")
        ctx.count("fault_runs_fired")
    # was the requested state reached?
    completed = None
    absent = []
    if placement["verdict"] in ("ok", "either"):
        bad = ref.compare(placement, rec.pre, rec.post, rec.src_snap)
        # requested entries that are simply not there afterwards (placement details such as modes are C33's business)
        absent = [b for b in bad if b["problem"] in ("missing", "type", "link-target", "content",
                                                     "relative-link-does-not-resolve", "not-a-hardlink-of")]
        if placement is not exp or fallback:
            bad = [b for b in bad if b["problem"] in ("missing", "type", "link-target")]  # modes: the external tool's
        completed = not bad
    ctx.evaluated()
    ctx.count("requests_judged")
    ctx.nontrivial((h, hx.render(req)[1], tuple(req["args"]), req.get("nonfatal"), status, tuple(evidence), sc.eapi,
                    str(rec.injected)))
    extra = {"status": status, "evidence": evidence, "completed": completed, "model_verdict": placement["verdict"],
             "fallback": fallback, "reply_body": wire.rstrip("\n")}
    if status == "success":
        if "missing-source" in evidence or "external-install-failed" in evidence:
            ctx.violation("untruthful-success", W(dict(extra, rule="+".join(evidence))))
        elif "fault" in evidence:
            if completed is False:
                ctx.violation("swallowed-error", W(dict(extra, rule=rec.injected[1], fault_ops=rec.fault_ops)))
        elif fallback and completed is False:
            ctx.violation("untruthful-success", W(dict(extra, rule="incomplete")))
        elif absent:
            # success was reported, yet a requested file/link is not in the image (or an older entry is still there)
            ctx.violation("untruthful-success", W(dict(extra, rule="requested-entry-absent", absent=absent[:6])))
    elif internal:
        ctx.count("internal_failures_accepted")  # the helper crashed: 'internal failure' is what it can truthfully say
        # ... as a status.  But "for nonfatal requests the failure code and message are returned": a nonfatal request
        # that is valid, met no failing operation and still ends the build was not answered the way the statement asks
        if req.get("nonfatal") and not evidence and placement["verdict"] == "ok" and placement["entries"]:
            ctx.violation("nonfatal-valid-request-aborted-build",
                          W(dict(extra, rule=h, cause=str((rec.exc or {}).get("cause") or (rec.exc or {}).get("type")))))
    else:
        if not evidence and completed is True and placement["entries"] and placement["verdict"] == "ok":
            # ("either": the helper is allowed to refuse, e.g. a directory symlink that is already there)
            ctx.violation("untruthful-failure", W(dict(extra, rule="action-completed")))
    if ctx.want_sample() and (fallback or evidence):
        ctx.sample({"frame": rec.frame, "reply": wire, "evidence": evidence, "install": inst[:2]})


def judge_misc(ctx, sc, rec, req, status, text, W):
    h = req["helper"]
    truth = req["truth"]
    ctx.count("misc_requests")
    if truth.get("expect") is None:
        ctx.skip_unspecified(truth.get("why", "unspecified")[:60])
        return
    ctx.evaluated()
    ctx.count("requests_judged")
    ctx.nontrivial((h, tuple(req["args"]), req.get("nonfatal"), status, truth.get("why"), sc.eapi))
    extra = {"status": status, "truth": truth, "reply_text": text[:200]}
    if status != truth["expect"]:
        ctx.violation("untruthful-" + status, W(dict(extra, rule=h + ":" + str(truth.get("why")))))
        return
    if status != "success":
        return
    if truth.get("payload") is not None and text != truth["payload"]:
        ctx.violation("wrong-payload", W(dict(extra, rule=h, impl=text, want=truth["payload"])))
    f = truth.get("file")
    if f:
        try:
            with open(os.path.join(sc.work, f["path"])) as fh:
                got = fh.read()
        except OSError as e:
            got = repr(e)
        if got != f["content"]:
            ctx.violation("untruthful-success", W(dict(extra, rule=h + ":file-not-as-requested", got=got[:200])))
    for p in truth.get("exists", ()):
        if not os.path.lexists(os.path.join(sc.work, p)):
            ctx.violation("untruthful-success", W(dict(extra, rule=h + ":result-missing", path=p)))
            break
    for name, items in (truth.get("sets") or {}).items():
        cur = getattr(sc.op._ipc_helpers[h], name, set())
        if not set(items) <= set(cur):
            ctx.violation("untruthful-success", W(dict(extra, rule=h + ":not-registered", have=sorted(cur))))


# ---------------------------------------------------------------------------------------------------------
# workloads

def make_domain():
    from pkgcore.test.misc import FakePkg, FakeRepo

    return hx.Domain(FakeRepo([FakePkg(c) for c in mgen.INSTALLED]))


def run_records(ctx, sc, source, direct=False):
    try:
        sc.run(source, direct=direct)
    except Exception:
        # a harness problem must not hide what was already observed: judge the recorded requests, then say so
        import traceback

        ctx.count("harness_errors")
        ctx.set_inconclusive("harness exception (recorded requests were judged): " + traceback.format_exc()[-1500:])
    recs = list(sc.all_records)
    for idx, rec in enumerate(recs):
        judge(ctx, sc, source.issued, idx, rec)
    if sc.src_resnaps:
        ctx.count("source_tree_reread_before_request", sc.src_resnaps)
    if sc.revived:
        ctx.count("helpers_replaced_after_dead_coroutine", sc.revived)
    for n in sc.harness_notes:
        ctx.note(n)
    if sc.strays:
        ctx.evaluated()
        ctx.violation("stray-write", {"writes": sc.strays[:5], "history": source.issued, "eapi": sc.eapi, "tree": sc.tree_spec,
                                      "umask": sc.umask, "domain": sc.op.domain is not None, "mode": "phase",
                                      "index": len(source.issued) - 1})
    return recs


def scen_install(ctx, base, allow_chown, with_fallback):
    """with_fallback: the *opts state may force the external install command (each use costs a fork+exec)."""
    rng = ctx.rng
    eapi = rng.choice(igen.EAPIS)
    tree = igen.gen_tree(rng)
    sc = hx.Scenario(base, eapi, tree)
    st = {"scope": igen.gen_scope(rng), "n": 0, "max": rng.randrange(2, 5) if with_fallback else rng.randrange(4, 10)}

    only = [None]

    def rescope():
        s = igen.gen_scope(rng)
        only[0] = None
        if not with_fallback:
            return s
        r = rng.random()
        if r < 0.55:
            s["insopts"] = rng.choice(igen.FALLBACK_INSOPTS)
            only[0] = ("doins", "doins", "doconfd", "doheader", "doenvd")
        elif r < 0.75:
            s["diropts"] = rng.choice(igen.FALLBACK_DIROPTS)
            only[0] = ("dodir", "keepdir", "doins")
        elif r < 0.90:
            s["exeopts"] = rng.choice(igen.FALLBACK_INSOPTS)
            s["exedesttree"] = s["exedesttree"] or "/opt/vt/libexec"
            only[0] = ("doexe", "doinitd")
        else:
            s["libopts"] = rng.choice(igen.FALLBACK_INSOPTS)
            only[0] = ("dolib",) if int(eapi) <= 6 else ("doins",)
        return s

    st["scope"] = rescope()

    def nxt():
        if st["n"] >= st["max"]:
            return None
        st["n"] += 1
        if rng.random() < 0.3:
            st["scope"] = rescope()
        # now and then a request to another helper in between (the fallback state must not leak into its reply)
        sel = only[0] if rng.random() < 0.8 else None
        return igen.gen_request(rng, eapi, tree, st["scope"], hx.WORK, sc.post, allow_chown=allow_chown, only=sel)

    try:
        run_records(ctx, sc, hx.ReviveSource(sc, fn=nxt), direct=(rng.random() < 0.2))
    finally:
        sc.cleanup()


def scen_blocked_fallback(ctx, base):
    """External install fallback with several targets of which one that is not the last cannot be installed (a directory
    tree sits at its destination name): the reply has to be a failure although later targets install fine."""
    rng = ctx.rng
    eapi = rng.choice(igen.EAPIS)
    tree = igen.gen_tree(rng)
    names = sorted(rng.sample(["ChangeLog", "README", "conf", "init", "prog", "tool.sh", "vt.h"], rng.randrange(2, 4)))
    blocked = rng.choice(names[:-1])
    helper, key, into = rng.choice([("doins", "insopts", "insdesttree"), ("doins", "insopts", "insdesttree"),
                                    ("doexe", "exeopts", "exedesttree")])
    sc0 = dict(hx.DEFAULT_SCOPE)
    sc0[into] = "/usr/share/vt"
    sc1 = dict(sc0)
    sc1[key] = rng.choice(["-m0644 -C", "-m0644 -b", "-m u=rw,go=r", "-m0644 -S .bak", "-m0644 --compare"])
    rng.shuffle(names)
    script = [{"helper": "dodir", "eapi": eapi, "scope": sc0, "nonfatal": False,
               "args": ["/usr/share/vt/%s/%s" % (blocked, blocked)]},
              {"helper": helper, "eapi": eapi, "scope": sc1, "nonfatal": rng.random() < 0.5, "args": names}]
    sc = hx.Scenario(base, eapi, tree)
    try:
        recs = run_records(ctx, sc, hx.ReviveSource(sc, reqs=script), direct=(rng.random() < 0.2))
        rets = [c["ret"] for c in recs[-1].spawn if c["argv"][0] == "install"]
        if rets and any(rets):
            ctx.count("fallback_blocked_target_requests")
    finally:
        sc.cleanup()


def scen_failed_walk_then_walk(ctx, base):
    """A recursive install that fails part way (ordinary, reportable error raised while the tree is walked, or by the
    symlink step) followed by valid recursive installs served by the SAME helper object."""
    rng = ctx.rng
    eapi = rng.choice(igen.EAPIS[4:])
    tree = igen.gen_tree(rng)
    sc0 = dict(hx.DEFAULT_SCOPE)
    sc0["insdesttree"] = "/usr/share/vt"

    def rq(helper, args, nonfatal=True, **over):
        s = dict(sc0)
        s.update(over)
        return {"helper": helper, "eapi": eapi, "scope": s, "nonfatal": nonfatal, "args": args}

    how = rng.choice(["dir-at-file-destination", "symlink-exists"])
    if how == "dir-at-file-destination":
        # a directory sits where plain/one.txt has to go: the copy step fails inside the walk
        script = [rq("dodir", ["/usr/share/vt/plain/one.txt/x"], nonfatal=False), rq("doins", ["-r", "plain"])]
    else:
        # linky/dlink is a symlink to a directory: the second run fails in the symlink step (File exists)
        script = [rq("doins", ["-r", "linky"], nonfatal=False), rq("doins", ["-r", "linky"])]
    later = [["-r", "relinks"], ["-r", "over"], ["-r", "alt", "README"], ["-r", "sym"]]
    rng.shuffle(later)
    for args in later[: rng.randrange(1, 3)]:
        script.append(rq(rng.choice(["doins", "doins", "doconfd", "doheader"]), args, nonfatal=rng.random() < 0.8))
    sc = hx.Scenario(base, eapi, tree)
    try:
        recs = run_records(ctx, sc, hx.ReviveSource(sc, reqs=script), direct=(rng.random() < 0.2))
        if len(recs) >= 3 and (recs[1].exc or not recs[1].writes or not recs[1].writes[0].startswith("0")):
            ctx.count("failed_walk_then_valid_walk")
    finally:
        sc.cleanup()


def scen_same_name_symlinks(ctx, base):
    """A symlink is installed under a name that an earlier request installed as a symlink with a different target, on
    the two paths that create links themselves: symlink sources under *opts that force the external install, and
    symlinks to directories found by a recursive install."""
    rng = ctx.rng
    eapi = rng.choice(igen.EAPIS[4:])
    tree = igen.gen_tree(rng)
    sc0 = dict(hx.DEFAULT_SCOPE)
    sc0["insdesttree"] = "/usr/share/vt"

    def rq(helper, args, **over):
        s = dict(sc0)
        s.update(over)
        return {"helper": helper, "eapi": eapi, "scope": s, "nonfatal": rng.random() < 0.6, "args": args}

    fb = rng.choice(["-m0644 -C", "-m u=rw,go=r", "-m0644 --compare", "-m0644 -b"])
    how = rng.choice(["fallback-links", "fallback-links", "dirlink-trees"])
    if how == "fallback-links":
        names = rng.sample(["README", "conf", "vt.h"], rng.randrange(1, 4))
        first = rq("doins", ["sym/" + n for n in names], insopts=rng.choice(["-m0644", fb]))
        script = [first, rq("doins", ["sym2/" + n for n in names], insopts=fb)]
    else:
        a, b = rng.sample(["t1/pack", "t2/pack"], 2)
        script = [rq("doins", ["-r", a]), rq(rng.choice(["doins", "doconfd"]), ["-r", b],
                                              **({} if rng.random() < 0.5 else {"insopts": fb}))]
        script[1]["scope"]["insdesttree"] = "/usr/share/vt"
        if script[1]["helper"] == "doconfd":
            script[0]["helper"] = "doconfd"
    sc = hx.Scenario(base, eapi, tree)
    try:
        run_records(ctx, sc, hx.ReviveSource(sc, reqs=script), direct=(rng.random() < 0.2))
        ctx.count("same_name_symlink_second_install")
        ctx.count("same_name_symlink:" + how)
    finally:
        sc.cleanup()


def scen_misc(ctx, base, allow_chown):
    rng = ctx.rng
    eapi = rng.choice(["4", "5", "6", "7", "8", "6", "7", "8"])
    tree = mgen.misc_tree()
    sc = hx.Scenario(base, eapi, tree, domain=make_domain())
    used = {}
    st = {"n": 0, "max": rng.randrange(5, 11), "scope": igen.gen_scope(rng)}
    itree = [e for e in tree if e["type"] != "tar" and not e["path"].startswith("..")]

    def nxt():
        while st["n"] < st["max"]:
            st["n"] += 1
            if rng.random() < 0.2:
                return igen.gen_request(rng, eapi, itree, st["scope"], hx.WORK, sc.post, allow_chown=allow_chown)
            r = mgen.gen_misc_request(rng, eapi, hx.WORK, used)
            if r is not None:
                return r
        return None

    try:
        run_records(ctx, sc, hx.ReviveSource(sc, fn=nxt), direct=(rng.random() < 0.2))
    finally:
        sc.cleanup()


def scen_fault(ctx, base, max_k):
    """One install request on a fresh image, re-run with a fault injected at the k-th filesystem call."""
    rng = ctx.rng
    eapi = rng.choice(igen.EAPIS)
    tree = mgen.small_tree(rng)
    scope = igen.gen_scope(rng)
    if rng.random() < 0.5:
        scope["insopts"] = rng.choice(["-m0644 -p", "-m0600 -o 0 -g 0", "-m0644"])
    req = mgen.gen_fault_request(rng, eapi, scope)
    direct = rng.random() < 0.5
    # dry run: how many interposed calls does the request make?
    sc = hx.Scenario(base, eapi, tree)
    try:
        r0 = dict(req, inject={"k": 0, "err": "EIO"})
        recs = run_records(ctx, sc, hx.ListSource([r0]), direct=direct)
        nops = len(recs[0].fault_ops)
    finally:
        sc.cleanup()
    ctx.count("fault_base_requests")
    ks = list(range(1, nops + 1))
    if max_k and len(ks) > max_k:
        ks = sorted(rng.sample(ks, max_k))
    for k in ks:
        err = rng.choice(["EACCES", "ENOSPC", "EIO", "EROFS"])
        sc = hx.Scenario(base, eapi, tree)
        try:
            run_records(ctx, sc, hx.ListSource([dict(req, inject={"k": k, "err": err})]), direct=direct)
            ctx.count("fault_runs")
        finally:
            sc.cleanup()
        if ctx.out_of_time(20):
            break


DAEMON_DIRECTED = [
    # (eapi, [(kind, nonfatal)], fatal_at)
    ("7", [("doins", False), ("doins-missing", True), ("dosym", False), ("doins-missing-odd-name", True), ("dobin", False),
           ("unpack-missing", True), ("docompress", False), ("keepdir", False)], None),
    ("8", [("dodir", False), ("has_version-absent", False), ("doins-dir", False), ("dodir", False), ("dosym", False)], 2),
    ("5", [("has_version-present", False), ("doman-nosection", True), ("doins-r", True), ("keepdir", False), ("unpack-bad-path", True),
           ("dodoc", False), ("unpack-missing", False), ("dodir", False), ("dosym", False)], 6),
    ("6", [("doins-two", False), ("dosym-one-arg", True), ("doman", False), ("dobin-missing", False), ("dosym", False),
           ("dodir", False)], 3),
]


def daemon_scripts(ctx, n_random):
    """Helper requests issued by the real bash side (helper scripts, __ebd_ipc_cmd, __ipc_exit) inside a real daemon."""
    from ..gen import c32_daemon as dm

    scratch = os.path.join(os.environ.get("VT_SCRATCH", "/var/tmp/c32-scratch"), "daemon")
    scens = []
    eapi, steps, fatal_at = DAEMON_DIRECTED[ctx.shard % len(DAEMON_DIRECTED)]
    sl = []
    for i, (kind, nonfatal) in enumerate(steps):
        st = dm.step(kind, i, i % dm.NFILES, i % dm.NDIRS)
        st.update(kind=kind, nonfatal=nonfatal, idx=i)
        sl.append(st)
    scens.append({"eapi": eapi, "steps": sl, "fatal_at": fatal_at})
    for _ in range(n_random):
        scens.append(dm.gen_scenario(ctx.rng, ctx.rng.choice([4, 6, 8])))
    for sc in scens:
        if ctx.out_of_time(120):
            ctx.count("daemon_scripts_not_started_soft_deadline")
            break
        res = dm.run_child(sc, scratch, timeout=200)
        if "marks" not in res:
            # a killed or broken child says nothing about pkgcore
            ctx.count("daemon_script_timeouts" if res.get("timeout") else "daemon_script_child_errors")
            ctx.note("daemon script without result: %r" % (str(res)[:300],))
            continue
        ctx.count("daemon_scripts_judged")
        ctx.count("daemon_requests_answered", len([m for m in res["marks"] if m[0] != "done"]))
        ctx.count("daemon_trace_lines", len(res.get("trace") or []))
        for a, b in res["marks"]:
            if a != "done":
                ctx.count("daemon_status_seen_by_bash:" + ("0" if b == "0" else "nonzero"))
        if sc["fatal_at"] is not None:
            ctx.count("daemon_fatal_failure_scripts")
        bad = dm.judge(sc, res)
        for s_ in sc["steps"]:
            ctx.evaluated()
            ctx.nontrivial(("daemon", sc["eapi"], s_["kind"], s_["nonfatal"], sc["fatal_at"] == s_["idx"]))
        for rule, detail in bad:
            ctx.violation("daemon-side", {"kind": "daemon-side", "rule": rule, "detail": detail, "scenario": sc,
                                          "marks": res["marks"], "phase": res.get("phase"), "probe": res.get("probe"),
                                          "trace_tail": (res.get("trace") or [])[-30:]})


def run(ctx):
    base = os.path.join(os.environ.get("VT_SCRATCH", "/var/tmp/c32-scratch"), "sc")
    daemon_scripts(ctx, ctx.budget(0, 5))
    allow_chown = hx.chown_works()
    # spawning is the expensive part (about a second per external command on a loaded machine)
    n_inst, n_fb, n_misc, n_fault = ctx.budget(12, 150), ctx.budget(3, 50), ctx.budget(5, 70), ctx.budget(4, 45)
    max_k = ctx.budget(4, 0)
    n_blk, n_walk, n_sym = ctx.budget(2, 30), ctx.budget(3, 40), ctx.budget(4, 40)
    total = n_inst + n_fb + n_misc + n_fault + n_blk + n_walk + n_sym
    plan = ["i"] * n_inst + ["b"] * n_fb + ["m"] * n_misc + ["f"] * n_fault + ["k"] * n_blk + ["w"] * n_walk + ["s"] * n_sym
    ctx.rng.shuffle(plan)
    for i, kind in enumerate(plan):
        if kind in "ib":
            scen_install(ctx, base, allow_chown, with_fallback=(kind == "b"))
        elif kind == "k":
            scen_blocked_fallback(ctx, base)
        elif kind == "w":
            scen_failed_walk_then_walk(ctx, base)
        elif kind == "s":
            scen_same_name_symlinks(ctx, base)
        elif kind == "m":
            scen_misc(ctx, base, allow_chown)
        else:
            scen_fault(ctx, base, max_k)
        ctx.count("scenarios:" + kind)
        if ctx.out_of_time(30):
            ctx.note("stopped after %d of %d scenarios (soft deadline)" % (i + 1, total))
            break


# ---------------------------------------------------------------------------------------------------------

def classify(w):
    kind = w.get("kind")
    if kind == "daemon-side":
        return None
    h = w.get("helper")
    inst = [c for c in (w.get("spawn") or []) if c.get("argv") and c["argv"][0] == "install"]
    exc = w.get("exc") or {}
    body = str(w.get("reply_body") if w.get("reply_body") is not None else str(w.get("wire", "")).rstrip("\n"))
    if inst:
        # wrong model "IpcCommandError(code=exit status) is raised exactly when the exit status is 0": the helper goes on
        # after every failed install and stops at the first one that succeeds, i.e. only the last observed exit status
        # can be 0; then the reply is "0<BEL><stderr>" (error with code 0), otherwise the plain success "0".
        rets = [c["ret"] for c in inst]
        if any(r == 0 for r in rets[:-1]):
            return None
        if rets[-1] != 0:
            if kind == "untruthful-success" and body == "0":
                return "install-fallback-status-inverted"
            return None
        if not body.startswith("0\x07"):
            return None
        if kind == "build-failed-on-success-reply" and exc.get("code") == 0:
            return "install-fallback-status-inverted"
        if kind == "untruthful-success" and (w.get("rule") == "incomplete" or "external-install-failed" in (w.get("evidence") or [])):
            return "install-fallback-status-inverted"
        return None
    if kind == "reply-count" and w.get("rule") == "0 replies":
        # the option line is split (shlex) before the try block of IpcCommand.__call__: a line that cannot be split
        # escapes as a bare ValueError, for which run_generic_phase writes nothing
        fr = w.get("frame") or []
        if len(fr) == 6 and fr[4].count('"') % 2 == 1 and "No closing quotation" in str(exc.get("str", "")) + str(exc.get("cause", "")):
            return "unsplittable-option-line-no-reply"
        return None
    if kind == "reply-not-single-line":
        wire = str(w.get("wire", ""))
        truth = w.get("truth") or {}
        if h == "eapply" and wire.endswith("\n\n") and "\n" not in wire[:-2] and "\x07applying " in wire \
                and truth.get("expect") == "failure":
            # first line of patch's output is appended with its newline
            return "eapply-failure-reply-trailing-newline"
        if h == "unpack" and truth.get("expect") == "failure" and truth.get("why") in ("corrupt", "broken", "a+corrupt"):
            # the decompressor's whole stderr is the message
            return "unpack-failure-reply-multiline"
    return None


def replay_daemon(ctx, w):
    from ..gen import c32_daemon as dm

    sc = w["scenario"]
    res = dm.run_child(sc, os.path.join(os.environ.get("VT_SCRATCH", "/var/tmp/c32-scratch"), "daemon-replay"), timeout=200)
    if "marks" not in res:
        ctx.set_inconclusive("daemon replay produced no result: %r" % (str(res)[:200],))
        return
    ctx.evaluated()
    for rule, detail in dm.judge(sc, res):
        ctx.violation("daemon-side", {"kind": "daemon-side", "rule": rule, "detail": detail, "scenario": sc,
                                      "marks": res["marks"], "phase": res.get("phase"), "probe": res.get("probe")})


def replay(ctx, w):
    if w.get("kind") == "daemon-side":
        return replay_daemon(ctx, w)
    base = os.path.join(os.environ.get("VT_SCRATCH", "/var/tmp/c32-scratch"), "replay")
    hist = [dict(r) for r in w["history"]]
    sc = hx.Scenario(base, w["eapi"], w["tree"], umask=int(w.get("umask", 0o022)),
                     domain=make_domain() if w.get("domain") else None)
    try:
        src = hx.ReviveSource(sc, reqs=hist)
        recs = sc.run(src, direct=(w.get("mode") == "direct"))
        idx = w.get("index", len(hist) - 1)
        for i, rec in enumerate(recs):
            if i == idx:
                judge(ctx, sc, src.issued, i, rec)
    finally:
        sc.cleanup()
