"""C39 Bug update list changes compose like applying them in sequence; to_wire carries exactly the set fields."""

import itertools
import json

from ..ref import c39_listchange as ref

ID = "C39"
LEVEL = "exploration"
TECHNIQUE = "contract monitors on ListChange.__or__ and BugUpdate.to_wire judged by a sequential-application model"
RULE = ("(a) every ordered pair of the 97 well-formed changes over the alphabet {p,q,r,s} (81 disjoint add/remove pairs + "
        "16 sets), split over the shards; (b) random pairs and chains over a wider mixed str/int alphabet with duplicate "
        "and reordered members; every a|b that is not refused is applied to EVERY subset of the values the operands "
        "mention plus one bystander value and compared (as sets) with apply(b, apply(a, L)) of the reference model; "
        "(c) random BugUpdate objects, to_wire() compared with the payload the reference derives from the object's fields. "
        "A pair is non-trivial when the operands interact (share a value, or one of them is a set); distinct = distinct "
        "(a, b). An update is non-trivial when it holds a field whose 'was it set' differs from its truthiness "
        "(empty ListChange, explicit empty set, empty string, empty package list).")
ASSUMPTIONS = [
    "Bugzilla list fields are duplicate-free and unordered: results are compared as sets",
    "Bugzilla semantics of a change: set replaces the list, remove deletes, add inserts; add and remove of one change "
    "are disjoint (ListChange refuses anything else), so their relative order is immaterial",
    "a refused combination (BugzillaUsageError) satisfies the property; any other exception does not",
    "a field of a BugUpdate 'was set' when it is not None (scalars, comment, package list), a non-empty tuple (flags) or "
    "a ListChange that asks for anything, including an explicit empty set",
    "list-change members are compared after str() (Bugzilla accepts ids as strings or numbers)",
]
SHARDS = {"quick": 4, "thorough": 16}
TIMEOUT = {"quick": 240, "thorough": 1800}
MIN_EVALS = 50000
REQUIRED_COUNTERS = ("or_calls", "or_combined", "or_refused", "exhaustive_pairs", "wire_calls", "wire_list_fields_checked")

ALPHABET = ("p", "q", "r", "s")
WIDE = ("p", "q", "r", "s", "t", 7, 11, 13, "a@gentoo.org")


def _d(lc):
    """A real ListChange as the reference's plain change dict."""
    return ref.change(lc.add, lc.remove, lc.replace)


def _kind(ch):
    if ch["replace"] is not None:
        return "set"
    return {(0, 0): "empty", (1, 0): "add", (0, 1): "remove", (1, 1): "add+remove"}[(bool(ch["add"]), bool(ch["remove"]))]


class Mon:
    """Installs the two contracts on the real classes (every call in this process is judged)."""

    def __init__(self, ctx):
        from pkgcore.bugzilla import changes
        from pkgcore.bugzilla.errors import BugzillaUsageError

        self.ctx = ctx
        self.m = changes
        self.Usage = BugzillaUsageError
        LC = changes.ListChange
        self.LC = LC
        if getattr(LC.__or__, "_vt_c39", False):
            return
        orig_or = LC.__or__
        orig_wire = changes.BugUpdate.to_wire
        mon = self

        def monitored_or(a, b):
            ctx.count("or_calls")
            try:
                res = orig_or(a, b)
            except BugzillaUsageError:
                ctx.count("or_refused")
                ctx.evaluated()
                mon._note_pair(a, b)
                raise
            except Exception as e:
                try:
                    ctx.violation("combine-crash", {"a": _d(a), "b": _d(b), "exc": repr(e),
                                                    "rule": _kind(_d(a)) + "|" + _kind(_d(b))})
                except Exception:
                    pass
                raise
            try:
                mon.judge_or(a, b, res)
            except Exception as e:  # a monitor bug must not change behaviour
                ctx.note("monitor error in __or__: %r" % (e,))
            return res

        monitored_or._vt_c39 = True
        LC.__or__ = monitored_or

        def monitored_to_wire(self_, ids):
            res = orig_wire(self_, ids)
            try:
                mon.judge_wire(self_, ids, res)
            except Exception as e:
                ctx.note("monitor error in to_wire: %r" % (e,))
            return res

        changes.BugUpdate.to_wire = monitored_to_wire

    # -- list changes ------------------------------------------------------------------------
    def _note_pair(self, a, b):
        da, db = _d(a), _d(b)
        inter = (da["replace"] is not None or db["replace"] is not None
                 or bool(set(ref.values_of(da)) & set(ref.values_of(db))))
        self.ctx.count("pair:" + _kind(da) + "|" + _kind(db))
        if inter:
            self.ctx.nontrivial(json.dumps([da, db], sort_keys=True, default=str))
        return da, db

    def judge_or(self, a, b, res):
        ctx = self.ctx
        da, db = self._note_pair(a, b)
        rule = _kind(da) + "|" + _kind(db)
        if not isinstance(res, self.LC):
            ctx.evaluated()
            ctx.violation("combine-not-a-listchange", {"a": da, "b": db, "impl": repr(res), "rule": rule})
            return
        ctx.count("or_combined")
        dc = _d(res)
        n, bad = ref.disagreements(da, db, dc)
        ctx.evaluated(n)
        if ctx.want_sample():
            ctx.sample({"a": da, "b": db, "a|b": dc, "initial_lists_compared": n, "disagreeing_lists": len(bad)})
        if bad:
            ctx.violation("combine-vs-sequence", {
                "a": da, "b": db, "impl": dc, "rule": rule, "lists_compared": n, "lists_disagreeing": len(bad),
                "examples": [{"initial": L, "combined_gives": g, "a_then_b_gives": w} for L, g, w in bad[:3]],
            })

    # -- wire payload ------------------------------------------------------------------------
    def spec_of(self, upd):
        """Plain description of a real BugUpdate, read from its fields (not from to_wire)."""
        s = {}
        for k in ("status", "resolution", "summary", "assigned_to", "whiteboard"):
            v = getattr(upd, k)
            s[k] = None if v is None else str(v)
        s["dupe_of"] = upd.dupe_of
        s["deadline"] = None if upd.deadline is None else [upd.deadline.year, upd.deadline.month, upd.deadline.day]
        for k in ref.LIST_FIELDS:
            s[k] = _d(getattr(upd, k))
        s["flags"] = [{"name": f.name, "status": f.status.value, "requestee": f.requestee} for f in upd.flags]
        s["comment"] = None if upd.comment is None else {"body": upd.comment.body, "is_private": upd.comment.is_private}
        s["package_list"] = None if upd.package_list is None else upd.package_list.text
        rt = upd.runtime_testing_required
        s["runtime_testing_required"] = None if rt is None else str(rt)
        return s

    def judge_wire(self, upd, ids, res):
        ctx = self.ctx
        ctx.count("wire_calls")
        spec = self.spec_of(upd)
        want = ref.normalise_wire(ref.expected_wire(spec, ids))
        got = ref.normalise_wire(dict(res))
        ctx.evaluated()
        boundary = [k for k in ref.LIST_FIELDS if spec[k]["replace"] == []]
        boundary += [k for k in ("summary", "assigned_to", "whiteboard", "package_list") if spec[k] == ""]
        ctx.count("wire_list_fields_checked", sum(1 for k in ref.LIST_FIELDS if ref.change_is_set(spec[k])))
        ctx.count("wire_keys_expected", len(want))
        if boundary:
            ctx.nontrivial("wire " + json.dumps(spec, sort_keys=True, default=str))
            ctx.count("wire_boundary_updates")
        if ctx.counters.get("wire_calls", 0) <= 2:
            ctx.sample({"update": {k: v for k, v in spec.items() if v not in (None, [])}, "wire": got})
        if set(got) != set(want):
            ctx.violation("wire-keys", {"spec": spec, "ids": [int(i) for i in ids], "impl": got, "want": want,
                                        "missing": sorted(set(want) - set(got)), "extra": sorted(set(got) - set(want)),
                                        "rule": "missing" if set(want) - set(got) else "extra"})
        elif got != want:
            diff = sorted(k for k in want if got[k] != want[k])
            ctx.violation("wire-values", {"spec": spec, "ids": [int(i) for i in ids], "impl": got, "want": want,
                                          "differing": diff, "rule": "value"})

    # -- builders ----------------------------------------------------------------------------
    def lc(self, ch):
        """Real ListChange from a reference change dict (may raise BugzillaUsageError)."""
        if ch["replace"] is not None:
            return self.LC(add=tuple(ch["add"]), remove=tuple(ch["remove"]), replace=tuple(ch["replace"]))
        return self.LC(add=tuple(ch["add"]), remove=tuple(ch["remove"]))

    def combine(self, da, db):
        try:
            a, b = self.lc(da), self.lc(db)
        except self.Usage:
            self.ctx.count("operand_refused_by_constructor")
            return None
        try:
            return a | b
        except self.Usage:
            return None

    def update(self, spec):
        m = self.m
        from pkgcore.bugzilla import enums
        from pkgcore.bugzilla.pkglist import PackageList
        import datetime

        kw = {}
        if spec.get("status") is not None:
            kw["status"] = enums.Status(spec["status"])
        if spec.get("resolution") is not None:
            kw["resolution"] = enums.Resolution(spec["resolution"])
        for k in ("dupe_of", "summary", "assigned_to", "whiteboard"):
            if spec.get(k) is not None:
                kw[k] = spec[k]
        if spec.get("deadline") is not None:
            kw["deadline"] = datetime.date(*spec["deadline"])
        for k in ref.LIST_FIELDS:
            if spec.get(k) is not None:
                kw[k] = self.lc(spec[k])
        if spec.get("flags"):
            kw["flags"] = tuple(m.FlagChange(f["name"], enums.FlagStatus(f["status"]), f.get("requestee"))
                                for f in spec["flags"])
        if spec.get("comment") is not None:
            kw["comment"] = m.NewComment(spec["comment"]["body"], bool(spec["comment"].get("is_private")))
        if spec.get("package_list") is not None:
            kw["package_list"] = PackageList(spec["package_list"])
        if spec.get("runtime_testing_required") is not None:
            kw["runtime_testing_required"] = enums.RuntimeTesting(spec["runtime_testing_required"])
        return m.BugUpdate(**kw)


def enumerated_changes(alphabet=ALPHABET):
    out = []
    for assign in itertools.product((0, 1, 2), repeat=len(alphabet)):
        out.append(ref.change(add=[v for v, s in zip(alphabet, assign) if s == 1],
                              remove=[v for v, s in zip(alphabet, assign) if s == 2]))
    for n in range(len(alphabet) + 1):
        for sub in itertools.combinations(alphabet, n):
            out.append(ref.change(replace=sub))
    return out


def random_change(rng, alphabet):
    def pick(maxn):
        n = min(maxn, rng.choice([0, 1, 1, 2, 2, 3]))
        vals = [rng.choice(alphabet) for _ in range(n)]
        if vals and rng.random() < 0.25:
            vals.append(rng.choice(vals))  # a duplicate member
        return vals

    r = rng.random()
    if r < 0.3:
        return ref.change(replace=pick(3))
    add = pick(3) if rng.random() < 0.75 else []
    rem = [v for v in (pick(3) if rng.random() < 0.6 else []) if v not in add]
    return ref.change(add=add, remove=rem)


def random_update_spec(rng):
    s = {}
    mode = rng.randrange(6)
    if mode == 1:
        s["status"] = rng.choice(["UNCONFIRMED", "CONFIRMED", "IN_PROGRESS", "VERIFIED"])
    elif mode == 2:
        s["status"] = "RESOLVED"
        s["resolution"] = rng.choice(["FIXED", "INVALID", "WONTFIX", "OBSOLETE", "TEST-REQUEST", "PKGREMOVED"])
    elif mode == 3:
        s["status"] = rng.choice(["RESOLVED", "VERIFIED"])
        s["resolution"] = "DUPLICATE"
        s["dupe_of"] = rng.choice([0, 1, 5, 912345])
    elif mode == 4:
        s["status"] = "VERIFIED"
        s["resolution"] = "FIXED"
    for k in ("summary", "assigned_to", "whiteboard"):
        r = rng.random()
        if r < 0.2:
            s[k] = ""
        elif r < 0.5:
            s[k] = rng.choice(["x", "new summary", "m@gentoo.org", "B3 [ebuild]", "0", " "])
    if rng.random() < 0.3:
        s["deadline"] = [rng.choice([1999, 2024, 2031]), rng.randrange(1, 13), rng.randrange(1, 29)]
    for k in ref.LIST_FIELDS:
        r = rng.random()
        alphabet = (5, 6, 77, 0) if k in ("blocks", "depends_on") else ("p", "q", "r", "", "x y")
        if r < 0.3:
            continue
        if r < 0.45:
            s[k] = ref.change()
        elif r < 0.6:
            s[k] = ref.change(replace=[])
        else:
            s[k] = random_change(rng, alphabet)
    if rng.random() < 0.4:
        s["flags"] = [{"name": rng.choice(["sanity-check", "review", ""]), "status": rng.choice(["?", "+", "-", "X"]),
                       "requestee": rng.choice([None, None, "a@gentoo.org", ""])} for _ in range(rng.choice([1, 1, 2]))]
    if rng.random() < 0.4:
        s["comment"] = {"body": rng.choice(["", "done", "line1\nline2"]), "is_private": rng.random() < 0.4}
    r = rng.random()
    if r < 0.15:
        s["package_list"] = ""
    elif r < 0.4:
        s["package_list"] = rng.choice(["=dev-libs/a-1 amd64", "dev-libs/a *\r\ndev-libs/b ^\n", "# nothing\n"])
    if rng.random() < 0.3:
        s["runtime_testing_required"] = rng.choice(["---", "Yes", "No", "Manual"])
    return s


def run(ctx):
    mon = Mon(ctx)
    rng = ctx.rng
    # (a) exhaustive pairs over the small alphabet
    pool = enumerated_changes()
    done = True
    for idx, (i, j) in enumerate(itertools.product(range(len(pool)), repeat=2)):
        if idx % ctx.nshards != ctx.shard:
            continue
        mon.combine(pool[i], pool[j])
        ctx.count("exhaustive_pairs")
        if idx % 256 == 0 and ctx.out_of_time(30):
            done = False
            ctx.note("exhaustive pair enumeration stopped early by the soft deadline")
            break
    if done:
        ctx.count("exhaustive_complete")
    # (b) random pairs and chains over a wider alphabet
    for k in range(ctx.budget(1500, 12000)):
        alphabet = rng.sample(WIDE, rng.choice([3, 4, 5]))
        acc = None
        for _ in range(rng.choice([2, 2, 3, 4])):
            nxt = random_change(rng, alphabet)
            if acc is None:
                acc = nxt
                continue
            ctx.count("random_pairs")
            res = mon.combine(acc, nxt)
            if res is None:
                break
            acc = _d(res)
        if k % 128 == 0 and ctx.out_of_time(20):
            break
    # (c) wire payloads
    for k in range(ctx.budget(1500, 15000)):
        spec = random_update_spec(rng)
        ids = [rng.choice([1, 2, 3, 999999]) for _ in range(rng.choice([1, 1, 2, 4]))]
        try:
            upd = mon.update(spec)
        except mon.Usage:
            ctx.count("update_refused_by_constructor")
            continue
        upd.to_wire(ids)
        if k % 256 == 0 and ctx.out_of_time(10):
            break


def classify(w):
    if w.get("kind") != "combine-vs-sequence":
        return None
    a, b, impl = w.get("a"), w.get("b"), w.get("impl")
    if not (isinstance(a, dict) and isinstance(b, dict) and isinstance(impl, dict)):
        return None
    # the one recorded mechanism: a `set` on the left-hand side is forgotten when the right-hand side is not a set,
    # i.e. the result is exactly the right operand's (de-duplicated) add/remove and nothing else
    if a.get("replace") is not None and b.get("replace") is None and impl == ref.model_left_set_ignored(a, b):
        return "set-on-left-dropped"
    return None


def replay(ctx, w):
    mon = Mon(ctx)
    if "a" in w and "b" in w:
        mon.combine(w["a"], w["b"])
    elif "spec" in w:
        spec = {k: v for k, v in w["spec"].items()}
        # spec_of() writes defaults explicitly; drop the ones meaning "not passed"
        if not spec.get("flags"):
            spec.pop("flags", None)
        mon.update(spec).to_wire(w.get("ids") or [1])
