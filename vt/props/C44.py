"""C44 Query strings (pkgcore.util.parserestrict.parse_match) select exactly the packages they describe."""

import fnmatch

from ..gen import c44_queries as gen
from ..ref import c44_query as ref

ID = "C44"
LEVEL = "exploration"
TECHNIQUE = "runtime monitoring of parse_match/convert_glob against an fnmatch + PMS-version selection model"
RULE = ("random package universes (categories/names that are prefixes, suffixes and infixes of one another and contain "
        "+ . _ -; versions with revisions; slots/sub-slots; repositories) x query strings built from the universe's own field "
        "values: '*' replaces slices at start/middle/end/several places, near-miss literals, exact fields, optional "
        "version operator, :slot[/subslot] globs, ::repo; plus plain atoms, category-less atoms and blocker strings. "
        "Every (query, package) pair is one evaluation: parse_match(text).match(pkg) vs the field-wise fnmatch model "
        "(atoms: vs atom(text).match(pkg)). A query is NON-TRIVIAL when it selects at least one package of its universe "
        "and rejects at least one; distinct = distinct query text.")
ASSUMPTIONS = [
    "package objects are plain attribute holders built from the real CPV parser (category, package, version, revision, "
    "fullver, slot, subslot, use, iuse_stripped, repo.repo_id)",
    "glob alphabet is [A-Za-z0-9+_.-] and '*': fnmatch.fnmatchcase is the whole-string shell pattern semantics",
    "version constraints of globbed queries are judged with vt/ref/pms_version.py (operators <,<=,=,>=,>,~; no revision in "
    "the query: the docstring only promises 'limited version restrictions')",
    "plain atoms and category-less atoms are judged against atom(text).match / atom(op + pkg.category + '/' + rest).match "
    "as the statement says; atom matching itself is property C04",
    "texts the docstring does not define ('**', operator with globbed version, revision in a globbed query, field literals "
    "that are not valid names) may be rejected; if they are accepted they must obey the model",
    "any exception counts as 'rejected'; only ParseError is the documented one (others are counted)",
]
SHARDS = {"quick": 4, "thorough": 16}
TIMEOUT = {"quick": 240, "thorough": 1800}
MIN_EVALS = 50000
REQUIRED_COUNTERS = ("parse_match_calls", "convert_glob_calls", "shape:glob", "shape:glob-ver", "shape:atom",
                     "shape:bare", "shape:bare-atom", "shape:blocker", "blocker_rejected")

MODEL_SHAPES = ("glob", "bare", "glob-ver")


class _Repo:
    __slots__ = ("repo_id",)

    def __init__(self, repo_id):
        self.repo_id = repo_id


class _Pkg:
    """Attribute holder standing in for a package (what restrictions pull attributes from)."""

    def __init__(self, cpv_mod, p):
        fv = p["version"] + ("-r" + p["revision"] if p["revision"] else "")
        c = cpv_mod.VersionedCPV("%s/%s-%s" % (p["category"], p["package"], fv))
        self.category, self.package, self.key = c.category, c.package, c.key
        self.version, self.revision, self.fullver, self.cpvstr = c.version, c.revision, c.fullver, c.cpvstr
        self.slot, self.subslot = p["slot"], p["subslot"]
        self.use = frozenset(p.get("use", ()))
        self.iuse = frozenset(p.get("iuse", ()))
        self.iuse_stripped = self.iuse
        self.repo = _Repo(p["repo"])

    def __repr__(self):
        return "<pkg %s:%s/%s::%s>" % (self.cpvstr, self.slot, self.subslot, self.repo.repo_id)


class Mon:
    def __init__(self, ctx):
        from pkgcore.ebuild import atom as atom_mod
        from pkgcore.ebuild import cpv as cpv_mod
        from pkgcore.ebuild import errors
        from pkgcore.util import parserestrict as pr

        self.ctx = ctx
        self.pr = pr
        self.atom = atom_mod.atom
        self.cpv_mod = cpv_mod
        self.MalformedAtom = errors.MalformedAtom
        self.probe_values = ()
        if getattr(pr.convert_glob, "_c44", False):
            return
        orig = pr.convert_glob

        # contract on the real helper: every glob token anybody converts must behave like fnmatch
        def monitored_convert_glob(token):
            res = orig(token)
            try:
                ctx.count("convert_glob_calls")
                if isinstance(token, str) and "*" in token and "**" not in token and ref.glob_ok(token):
                    for v in self.probe_values:
                        got = True if res is None else bool(res.match(v))
                        ctx.evaluated()
                        if got != fnmatch.fnmatchcase(v, token):
                            ctx.violation("convert-glob-vs-fnmatch",
                                          {"glob": token, "value": v, "impl": got, "expected": not got, "rule": "convert_glob"})
            except Exception as e:  # a monitor bug must not change behaviour
                ctx.note("monitor error %r" % (e,))
            return res

        monitored_convert_glob._c44 = True
        pr.convert_glob = monitored_convert_glob

    def pkg(self, p):
        return _Pkg(self.cpv_mod, p)


def defined(q):
    """Is the query inside the grammar the statement talks about (so that rejecting it is a violation)?"""
    if q["shape"] not in MODEL_SHAPES:
        return False
    for k, pool in (("cat", gen.CATS), ("pkg", gen.NAMES), ("slot", gen.SLOTS), ("subslot", gen.SLOTS)):
        v = q.get(k)
        if v is None:
            continue
        if "**" in v or not ref.glob_ok(v) or not v:
            return False
        if "*" not in v and v not in pool:
            return False  # a literal that is not a known-valid name: rejecting it is fine
        if not (v[0] == "*" or v[0] == "_" or v[0].isalnum()):
            return False  # no valid category/package/slot starts with '-', '.', '+': such a glob is nonsense
    if q.get("ver") is not None and "-r" in q["ver"]:
        return False
    if q["shape"] == "glob-ver" and q.get("cat") is None:
        return False
    if q.get("slot") is None and q.get("subslot") is not None:
        return False
    return True


def check_query(ctx, mon, q, pkgs, objs=None):
    text = q["text"]
    shape = q["shape"]
    ctx.count("shape:" + shape)
    if objs is None:
        objs = [mon.pkg(p) for p in pkgs]
    ctx.count("parse_match_calls")
    err = None
    r = None
    try:
        r = mon.pr.parse_match(text)
    except mon.pr.ParseError as e:
        err = "ParseError: %s" % (e,)
    except Exception as e:
        err = "%s: %s" % (type(e).__name__, e)
        ctx.count("rejected_with_other_exception")

    if shape == "blocker":
        ctx.evaluated()
        if err is None:
            ctx.violation("blocker-accepted", {"q": q, "impl": repr(r), "expected": "ParseError", "rule": "blocker"})
        else:
            ctx.count("blocker_rejected")
            ctx.nontrivial("blocker " + text)
        return

    if shape in ("atom", "bare-atom"):
        _check_atom_like(ctx, mon, q, pkgs, objs, r, err)
        return

    # glob shapes: field-wise model
    if err is not None:
        ctx.evaluated()
        if defined(q):
            sel = [p for p in pkgs if ref.selects(q, p)]
            ctx.violation("rejected-defined-query",
                          {"q": q, "impl": err, "expected": "a restriction selecting %d of %d packages" % (len(sel), len(pkgs)),
                           "pkg": sel[0] if sel else None, "rule": shape})
        else:
            ctx.count("rejected_unspecified")
            ctx.skip_unspecified("query shape not defined by the docstring was rejected (allowed)")
        return
    if not all(ref.glob_ok(q.get(k)) for k in ("cat", "pkg", "slot", "subslot") if q.get(k) is not None):
        ctx.skip_unspecified("shell specials other than '*' in a glob")
        return
    nsel = 0
    nbad = 0
    for p, o in zip(pkgs, objs):
        exp = ref.selects(q, p)
        got = bool(r.match(o))
        ctx.evaluated()
        nsel += exp
        if got != exp:
            nbad += 1
            if nbad <= 3:
                ctx.violation("selection-mismatch",
                              {"q": q, "pkg": p, "impl": got, "expected": exp,
                               "rule": shape + (":extra" if got else ":missing")})
    ctx.count("accepted:" + shape)
    if 0 < nsel < len(pkgs):
        ctx.nontrivial(text)
        ctx.count("nontrivial:" + shape)


def _check_atom_like(ctx, mon, q, pkgs, objs, r, err):
    text, shape = q["text"], q["shape"]
    refs = {}

    def ref_atom(cat):
        if cat not in refs:
            s = text if shape == "atom" else (q["op"] or "") + cat + "/" + text[len(q["op"] or ""):]
            try:
                refs[cat] = mon.atom(s)
            except mon.MalformedAtom:
                refs[cat] = None
        return refs[cat]

    cats = sorted({p["category"] for p in pkgs}) or [q.get("cat") or "dev-libs"]
    if any(ref_atom(c) is None for c in cats):
        ctx.skip_unspecified("not a plain atom string")
        return
    if err is not None:
        ctx.evaluated()
        ctx.violation("atom-rejected", {"q": q, "impl": err, "expected": "selects what atom(text) matches",
                                        "pkg": pkgs[0] if pkgs else None, "rule": shape})
        return
    nsel = nbad = 0
    for p, o in zip(pkgs, objs):
        a = ref_atom(p["category"])
        exp = bool(a.match(o))
        got = bool(r.match(o))
        ctx.evaluated()
        nsel += exp
        if got != exp:
            nbad += 1
            if nbad <= 3:
                ctx.violation("atom-selection-mismatch",
                              {"q": q, "pkg": p, "impl": got, "expected": exp, "reference_atom": str(a),
                               "rule": shape + (":extra" if got else ":missing")})
    ctx.count("accepted:" + shape)
    if 0 < nsel < len(pkgs):
        ctx.nontrivial(text)
        ctx.count("nontrivial:" + shape)


def run(ctx):
    mon = Mon(ctx)
    rng = ctx.rng
    n_uni = ctx.budget(40, 400)
    n_q = ctx.budget(150, 250)
    n_pkg = ctx.budget(130, 160)
    for u in range(n_uni):
        uni = gen.universe(rng, n_pkg)
        objs = [mon.pkg(p) for p in uni]
        vals = set()
        for p in uni:
            vals.update((p["category"], p["package"], p["slot"], p["subslot"]))
        mon.probe_values = sorted(vals)
        ctx.count("universes")
        ctx.count("packages", len(uni))
        for k in range(n_q):
            q = gen.query(rng, uni)
            if ctx.want_sample() and k % 17 == 3:
                ctx.sample({"text": q["text"], "shape": q["shape"],
                            "model_selects": sum(ref.selects(q, p) for p in uni) if q["shape"] in MODEL_SHAPES else None,
                            "universe": len(uni)})
            check_query(ctx, mon, q, uni, objs)
        if ctx.out_of_time(20):
            ctx.note("stopped early by the soft deadline after %d universes" % (u + 1))
            break


def classify(w):
    q = w.get("q") or {}
    kind = w.get("kind")
    if kind == "rejected-defined-query":
        # an un-globbed cat/pkg sends the whole text to atom(), which refuses '*' in the slot part
        cat, pkg = q.get("cat"), q.get("pkg")
        if cat is not None and "*" not in cat and "*" not in (pkg or "*") \
                and any("*" in (q.get(k) or "") for k in ("slot", "subslot")) \
                and str(w.get("impl", "")).startswith("ParseError") and "slot target" in str(w.get("impl")):
            return "slot-glob-rejected-without-cpv-glob"
        return None
    if kind == "selection-mismatch" and q.get("shape") == "glob-ver":
        p = w.get("pkg")
        if p and w.get("impl") is True and w.get("expected") is False \
                and any(q.get(k) is not None for k in ("slot", "subslot", "repo")) \
                and ref.selects(q, p, ignore=("slot", "subslot", "repo")) and not ref.selects(q, p):
            return "globbed-version-drops-slot-repo"
    return None


def replay(ctx, w):
    mon = Mon(ctx)
    if "q" in w:
        pkgs = [w["pkg"]] if w.get("pkg") else []
        vals = set()
        for p in pkgs:
            vals.update((p["category"], p["package"], p["slot"], p["subslot"]))
        mon.probe_values = sorted(vals)
        check_query(ctx, mon, w["q"], pkgs)
    elif "glob" in w:
        mon.probe_values = [w["value"]]
        mon.pr.convert_glob(w["glob"])
