"""C13 Package visibility follows mask, keyword and license configuration."""

import os
import shutil
import traceback
from os.path import join as pjoin

from ..gen import c13_cfg as gen
from ..ref import c13_visibility as ref

ID = "C13"
LEVEL = "exploration"
TECHNIQUE = "reference visibility evaluator vs a real domain on generated profile/config directories"
RULE = ("random small repositories (SimpleTree of FakePkg with KEYWORDS/LICENSE/SLOT, real Licenses object over "
        "profiles/license_groups, repository-level profiles/package.mask) x random configurations (profile stack of 1-3 "
        "nodes with make.defaults ACCEPT_KEYWORDS/ACCEPT_LICENSE, package.mask/unmask with -atom lines, "
        "package.accept_keywords, package.keywords; make.conf-level ACCEPT_KEYWORDS/ACCEPT_LICENSE; user package.mask/"
        "unmask/accept_keywords/license as a file or a directory of files; a share of the entries is aimed at one package with "
        "tokens chosen next to its KEYWORDS / LICENSE: wildcard class present or absent, stability flipped, empty entry, its "
        "licenses and the groups holding them) materialised in temp dirs and loaded by a real "
        "pkgcore.ebuild.domain.domain; for every package the filtered repository's answer and the mask / keyword / "
        "license decisions taken separately are compared with a reference evaluator written from the statement. "
        "A (configuration, package) case is non-trivial when its verdict depends on more than the bare global "
        "ACCEPT_KEYWORDS list: a mask or unmask line selects it, a package.accept_keywords entry or a wildcard "
        "(** * ~*) decides the keyword clause, or the license clause involves a group, a negation, a wildcard, an "
        "any-of group or a package.license entry; distinct = distinct decision-relevant inputs of that package.")
ASSUMPTIONS = [
    "packages are FakePkg objects (real ebuild_src.package metadata parsing of KEYWORDS/LICENSE) in a SimpleTree; "
    "the repository-level mask set is RepoConfig(<repo>).pkg_masks attached to the tree the way ebuild repositories expose it",
    "atoms in configuration lines are matched by a PMS reference (vt/ref/pms_version.py for versions); `=...*` is judged "
    "only where the component and the string-prefix reading agree (C04 owns that operator)",
    "not judged (statement silent): ARCH or K accepted only because ~K is, profile package.keywords additions, "
    "ACCEPT_LICENSE unset everywhere, a profile -atom line equal to a repository-level mask, negated tokens in "
    "package.accept_keywords entries, USE-conditional LICENSE (the last two are not generated)",
    "ACCEPT_KEYWORDS / ACCEPT_LICENSE stack left to right over the profile nodes and then the make.conf level "
    "(incremental variables); package.license entries apply after the global value in file order",
]
SHARDS = {"quick": 4, "thorough": 16}
TIMEOUT = {"quick": 240, "thorough": 1800}
MIN_EVALS = 20000
REQUIRED_COUNTERS = ("configs", "judged:visible", "judged:mask", "judged:keywords", "judged:license",
                     "impl_visible", "impl_hidden")

CLAUSE_NAMES = ("mask", "keywords", "license")


# ---------------------------------------------------------------------------------------------------------------
# materialise a configuration on disk and load it with the real code

_seq = [0]


def _write(path, lines):
    """Write configuration lines with (deterministic) layout noise: comments, blank lines, tabs, trailing blanks."""
    with open(path, "w") as f:
        f.write("# c13 generated\n\n")
        for i, ln in enumerate(lines):
            k = (len(ln) * 7 + i) % 6
            if k == 0:
                ln = ln.replace(" ", "\t")
            elif k == 1:
                ln = ln.replace(" ", "  ") + " "
            elif k == 2:
                f.write("\n# note %d\n" % i)
            f.write(ln + "\n")


def materialise(cfg, base):
    repo = pjoin(base, "repo")
    os.makedirs(pjoin(repo, "profiles"))
    os.makedirs(pjoin(repo, "licenses"))
    os.makedirs(pjoin(repo, "metadata"))
    with open(pjoin(repo, "profiles", "repo_name"), "w") as f:
        f.write("c13repo\n")
    with open(pjoin(repo, "metadata", "layout.conf"), "w") as f:
        f.write("masters =\n")
    with open(pjoin(repo, "profiles", "eapi"), "w") as f:  # slot atoms in profiles/package.mask need EAPI >= 1
        f.write("8\n")
    lics = set()
    for p in cfg["repo"]["pkgs"]:
        lics |= ref.license_names(ref.parse_license(p["license"]))
    for _g, members in cfg["repo"].get("license_groups", []):
        lics.update(m for m in members if not m.startswith("@"))
    for lic in lics:
        with open(pjoin(repo, "licenses", lic), "w") as f:
            f.write("text\n")
    if cfg["repo"].get("license_groups"):
        with open(pjoin(repo, "profiles", "license_groups"), "w") as f:
            f.write("# groups\n")
            for g, members in cfg["repo"]["license_groups"]:
                f.write("%s %s\n" % (g, " ".join(members)))
    if cfg["repo"].get("masks"):
        _write(pjoin(repo, "profiles", "package.mask"), cfg["repo"]["masks"])
    prev = None
    for node in cfg["profile"]:
        d = pjoin(repo, "profiles", node["name"])
        os.makedirs(d)
        with open(pjoin(d, "eapi"), "w") as f:
            f.write("8\n")
        if prev is not None:
            with open(pjoin(d, "parent"), "w") as f:
                f.write("../%s\n" % prev)
        md = node.get("make_defaults") or {}
        if md:
            with open(pjoin(d, "make.defaults"), "w") as f:
                for k, v in md.items():
                    f.write('%s="%s"\n' % (k, v))
        for fname in ("package.mask", "package.unmask", "package.accept_keywords", "package.keywords"):
            if node.get(fname):
                _write(pjoin(d, fname), node[fname])
        prev = node["name"]
    conf = pjoin(base, "conf")
    os.makedirs(conf)
    for name, files in (cfg.get("user") or {}).items():
        if not files:
            continue
        if len(files) == 1 and files[0][0] is None:
            _write(pjoin(conf, name), files[0][1])
        else:
            os.makedirs(pjoin(conf, name))
            for fn, lines in files:
                _write(pjoin(conf, name, fn or "single"), lines)
    os.makedirs(pjoin(base, "root"))
    return repo, conf, pjoin(base, "root")


class Loaded:
    """The real objects for one configuration."""

    def __init__(self, cfg, base):
        from pkgcore.ebuild import domain as domain_mod
        from pkgcore.ebuild import profiles
        from pkgcore.ebuild.cpv import VersionedCPV
        from pkgcore.ebuild.repo_objs import Licenses, RepoConfig
        from pkgcore.repository.util import SimpleTree
        from pkgcore.test.misc import FakePkg

        repo, conf, root = materialise(cfg, base)
        specs = {p["cpv"]: p for p in cfg["repo"]["pkgs"]}
        cpv_dict = {}
        for c in specs:
            v = VersionedCPV(c)
            cpv_dict.setdefault(v.category, {}).setdefault(v.package, []).append(v.fullver)
        holder = {}

        def mk(cat, pkg, ver):
            s = specs["%s/%s-%s" % (cat, pkg, ver)]
            slot, _, sub = s["slot"].partition("/")
            return FakePkg(s["cpv"], eapi="8", slot=slot, subslot=sub or None, repo=holder["tree"],
                           data={"KEYWORDS": s["keywords"], "LICENSE": s["license"]})

        tree = SimpleTree(cpv_dict, pkg_klass=mk, repo_id="c13repo")
        holder["tree"] = tree
        tree.location = repo
        if cfg["repo"].get("own_licenses", True):
            tree.licenses = Licenses(tree)  # else: the domain's default license manager over its repositories
        tree.pkg_masks = RepoConfig(repo).pkg_masks

        class RepoRef:
            name = "c13repo"

            def instantiate(self):
                return tree

        self.tree = tree
        self.profile = profiles.OnDiskProfile(pjoin(repo, "profiles"), cfg["profile"][-1]["name"])
        self.domain = domain_mod.domain(self.profile, [RepoRef()], [], root=root, config_dir=conf,
                                        **dict(cfg.get("make_conf") or {}))


def observe(cfg, base):
    """Run the real code: -> {cpv: {"visible":, "mask":, "keywords":, "license":, "agree": {...}}}"""
    from pkgcore.ebuild.atom import atom
    from pkgcore.restrictions import packages

    ld = Loaded(cfg, base)
    dom, tree = ld.domain, ld.tree
    groups = dom.source_repos
    frepo = groups.repos[0]
    raw = {p.cpvstr: p for p in tree}
    vis = {p.cpvstr for p in frepo.itermatch(packages.AlwaysTrue)}
    vis_iter = {p.cpvstr for p in frepo}
    mask_only = {p.cpvstr for p in dom.filter_repo(tree, pkg_filters=()).itermatch(packages.AlwaysTrue)}
    filters = dom._pkg_filters()
    kwf = filters[0]
    licf = filters[1] if len(filters) > 1 else None
    out = {}
    for cpv, p in raw.items():
        o = {"visible": cpv in vis, "mask": cpv in mask_only, "keywords": bool(kwf.match(p)),
             "license": True if licf is None else bool(licf.match(p))}
        # other public routes to the same answer
        other = {"iter": cpv in vis_iter,
                 "match_atom": any(x.cpvstr == cpv for x in frepo.match(atom("=" + cpv))),
                 "restrict": bool(frepo.restrict.match(p))}
        o["routes"] = other
        out[cpv] = o
    return out


# ---------------------------------------------------------------------------------------------------------------
# judging


def _nontrivial_key(p, detail, exp):
    """None for a trivial case, else [boundaries exercised, decision-relevant inputs]."""
    d = detail
    interesting = []
    if d.get("masks") or d.get("unmasks"):
        interesting.append("mask")
    if d.get("kw_entries") or d.get("kw_rule") in ("**", "*", "~*"):
        interesting.append("kw")
    names = ref.license_names(ref.parse_license(p["license"]))
    if d.get("lic_entries") or "||" in p["license"] or any(t not in names for t in d.get("lic_deciding") or ()
                                                           if t != "None"):
        interesting.append("lic")
    if not interesting:
        return None
    return [interesting, d.get("masks"), d.get("unmasks"), p["keywords"], d.get("kw_allowed"), p["license"],
            d.get("lic_stream"), [exp[c] for c in CLAUSE_NAMES]]


def check_config(ctx, cfg, base, only=None, sample=False):
    """Load `cfg` with the real code, judge every package.  Returns the number of recorded violations."""
    nviol = 0
    try:
        impl = observe(cfg, base)
    except Exception as e:
        ctx.evaluated()
        ctx.count("impl_exception")
        ctx.violation("exception", {"cfg": cfg, "exc": "%s: %s" % (type(e).__name__, e),
                                     "trace": traceback.format_exc()[-1500:], "rule": type(e).__name__})
        return 1
    ctx.count("configs")
    for spec in cfg["repo"]["pkgs"]:
        cpv = spec["cpv"]
        if only is not None and cpv != only:
            continue
        p = ref.pkg_view(spec)
        exp = ref.evaluate(cfg, p, want_detail=True)
        detail = exp.pop("detail")
        got = impl[cpv]
        ctx.count("impl_visible" if got["visible"] else "impl_hidden")
        key = _nontrivial_key(p, detail, exp)
        if key is not None:
            ctx.nontrivial(key)
            for k in key[0]:
                ctx.count("nontrivial:" + k)
        if detail.get("kw_rule"):
            ctx.count("kw_rule:" + detail["kw_rule"])
        if sample and ctx.want_sample() and key is not None:
            ctx.sample({"cpv": cpv, "keywords": spec["keywords"], "license": spec["license"], "expected": exp,
                        "impl": {k: got[k] for k in ("visible",) + CLAUSE_NAMES}, "decided_by": detail})
        for what in ("visible",) + CLAUSE_NAMES:
            e = exp[what]
            if e is None:
                ctx.count("unjudged:" + what)
                ctx.skip_unspecified("%s verdict depends on a reading the statement leaves open" % what)
                continue
            ctx.evaluated()
            ctx.count("judged:" + what)
            ctx.count("expected:%s=%s" % (what, e))
            if got[what] != e:
                nviol += 1
                w = {"cfg": cfg, "cpv": cpv, "what": what, "impl": got[what], "expected": e,
                     "impl_all": {k: got[k] for k in ("visible",) + CLAUSE_NAMES}, "expected_all": exp,
                     "impl_column": {c: impl[c][what] for c in impl}, "decided_by": detail,
                     "rule": "%s:%s" % (what, "too-visible" if got[what] else "hidden")}
                ctx.violation("visibility" if what == "visible" else "clause-" + what, w)
        # the answer must not depend on the route it is asked through
        ctx.evaluated()
        ctx.count("route_checks")
        bad = {k: v for k, v in got["routes"].items() if v != got["visible"]}
        if bad:
            nviol += 1
            ctx.violation("routes-disagree", {"cfg": cfg, "cpv": cpv, "itermatch": got["visible"], "routes": got["routes"],
                                              "rule": ",".join(sorted(bad))})
        # the conjunction of the separate decisions is the overall answer
        ctx.evaluated()
        if got["visible"] != (got["mask"] and got["keywords"] and got["license"]):
            nviol += 1
            ctx.violation("clauses-vs-overall", {"cfg": cfg, "cpv": cpv, "impl_all": {k: got[k] for k in
                                                                                     ("visible",) + CLAUSE_NAMES}})
    return nviol


def _fresh_base():
    _seq[0] += 1
    base = pjoin(os.environ.get("VT_SCRATCH") or "/var/tmp", "c13-%d-%d" % (os.getpid(), _seq[0]))
    shutil.rmtree(base, ignore_errors=True)
    os.makedirs(base)
    return base


def _quiet():
    import logging

    logging.getLogger("pkgcore").setLevel(logging.CRITICAL)


def run(ctx):
    _quiet()
    n = ctx.budget(180, 1200)
    for i in range(n):
        if ctx.out_of_time(20):
            ctx.note("stopped early by the soft deadline after %d configurations" % i)
            break
        cfg = gen.gen_config(ctx.rng, npkgs=ctx.rng.choice([12, 20, 20, 28]))
        base = _fresh_base()
        try:
            check_config(ctx, cfg, base, sample=(i < 3))
        finally:
            shutil.rmtree(base, ignore_errors=True)


# ---------------------------------------------------------------------------------------------------------------
# known mechanisms

_KEYS = {
    "profile_license_collapsed": "profile-accept-license-negations-dropped",
    "global_kw_wildcards_unexpanded": "global-keyword-wildcards-ignored-without-entries",
    "matchall_empty_entry_chars": "empty-entry-on-match-all-spec-split-into-characters",
    "license_entry_dedup": "package-license-line-deduplicated",
}


_table_cache = {"key": None, "views": None, "rows": {}}


def _row(cfg, combo, cpv):
    """ref.evaluate(cfg, <cpv>, defects=combo), memoised for the configuration at hand."""
    import json

    key = json.dumps(cfg, sort_keys=True)
    c = _table_cache
    if c["key"] != key:
        c["key"], c["rows"] = key, {}
        c["views"] = {s["cpv"]: ref.pkg_view(s) for s in cfg["repo"]["pkgs"]}
    k = (combo, cpv)
    if k not in c["rows"]:
        c["rows"][k] = ref.evaluate(cfg, c["views"][cpv], defects=combo)
    return c["rows"][k]


def classify(w):
    """A deviation is attributed to a recorded mechanism only when the reference with specific recorded wrong models
    switched on (fewest first) reproduces the implementation's answer for the judged item for EVERY package of the
    configuration (wherever that model is decided) - for the overall verdict also the three separate decisions of the
    witness package - and the plain reference does not.  The key is the member of that set which changes the judged
    answer of the witness package.  Anything else stays unclassified."""
    import itertools

    if w.get("kind") not in ("visibility", "clause-mask", "clause-keywords", "clause-license"):
        return None
    cfg, cpv, what = w.get("cfg"), w.get("cpv"), w.get("what")
    column = w.get("impl_column") or {}
    if what not in ("visible",) + CLAUSE_NAMES or cpv not in column:
        return None
    if not any(s["cpv"] == cpv for s in cfg["repo"]["pkgs"]):
        return None
    impl = w["impl_all"]
    items = ("visible",) + CLAUSE_NAMES if what == "visible" else (what,)
    base = _row(cfg, (), cpv)
    if base[what] is None or base[what] == impl[what]:
        return None

    def fits(combo):
        # (None: with the wrong model switched on, the answer hangs on a reading the statement leaves open)
        alt = _row(cfg, combo, cpv)
        if not all(alt[k] is None or alt[k] == impl[k] for k in items):
            return False
        for other, ans in column.items():
            a = _row(cfg, combo, other)[what]
            if a is not None and a != ans:
                return False
        return True

    for r in (1, 2, 3):
        for combo in itertools.combinations(ref.DEFECTS, r):
            if not fits(combo):
                continue
            for d in combo:
                if _row(cfg, (d,), cpv)[what] != base[what]:
                    return _KEYS[d]
            return _KEYS[combo[0]]
    return None


def replay(ctx, w):
    _quiet()
    base = _fresh_base()
    try:
        check_config(ctx, w["cfg"], base, only=w.get("cpv"))
    finally:
        shutil.rmtree(base, ignore_errors=True)
