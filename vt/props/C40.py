"""C40 Keywording requests only name valid, narrowed, not-yet-present arches."""

import json

from ..gen import c40_requests as gen
from ..ref import c40_keywording as ref

ID = "C40"
LEVEL = "exploration"
TECHNIQUE = "runtime monitoring of the real generator against invariants derived from the statement"
RULE = ("random in-memory repositories (2-4 packages x 1-4 versions, slots, live versions, KEYWORDS over plain, prefix and "
        "foreign arches at stable/~/-/absent level, arch.list = 2-5 plain + 0-2 prefix arches) x request lists of 1-4 "
        "lines (specs bare / = / >= / ~ / < / glob / slotted / unmatched; written arches known, unknown, prefix, ~arch, "
        "padded; sentinels * ^ - alone and mixed) x stable, cc_arches (also with an unknown or a prefix arch), only_new, "
        "filter_arch, allarches. The real match_packages() runs over a real SimpleTree of FakePkgs; every yielded "
        "KeywordRequest is attributed to its input line through a feeding iterator and checked against the clauses of "
        "the statement; every suggested_keywords() answer (calls made by match_packages and direct calls for every "
        "package) is checked too. A case is non-trivial when one of the narrowing boundaries is really present (a "
        "written arch outside cc/filter, an already carried arch under only_new, a * next to prefix / foreign / "
        "stable-elsewhere-but-not-testing-here keywords, an all-arches re-add, an unusable stabilization spec); "
        "distinct = distinct (repository, list, options).")
ASSUMPTIONS = [
    "packages are pkgcore.test.misc.FakePkg objects in a repository.util.SimpleTree carrying known_arches (no ebuild "
    "daemon; metadata sourcing is not part of the property)",
    "only upper bounds are judged: the statement says which arches may be named, not which must be",
    "a spec is 'one a stabilization cannot act on' when it is not a plain =cat/pkg-ver (other operator, glob or slot); "
    "blockers, USE deps and repo ids are not generated",
    "a package never lists the same arch both stable and testing; prefix keyword = contains '-'",
    "an arch on a line carrying both * and ^ is not attributed to the suggestion (it may be an earlier line's)",
]
SHARDS = {"quick": 4, "thorough": 16}
TIMEOUT = {"quick": 240, "thorough": 1800}
MIN_EVALS = 5000
REQUIRED_COUNTERS = ("requests_yielded", "suggested_keywords_calls", "feature:cc-narrows", "feature:filter-narrows",
                     "feature:only-new-narrows", "feature:star-with-prefix-keyword-around",
                     "feature:unusable-stabilization-spec", "feature:allarches-readd", "stabilization_spec_rejected")


# --------------------------------------------------------------------------------------------------------------
# harness

class Harness:
    def __init__(self, ctx):
        from pkgcore.ebuild import keywording
        from pkgcore.ebuild.atom import atom
        from pkgcore.exceptions import PkgcoreException
        from pkgcore.repository.util import SimpleTree
        from pkgcore.test.misc import FakePkg

        self.ctx = ctx
        self.kw = keywording
        self.atom = atom
        self.PkgcoreException = PkgcoreException
        self.SimpleTree = SimpleTree
        self.FakePkg = FakePkg
        self.current = None  # repo spec the monitor on suggested_keywords judges against
        self.sugg_violations = []
        self.n_cases = 0
        if not getattr(keywording.suggested_keywords, "_c40", False):
            orig = keywording.suggested_keywords
            h = self

            def monitored(repo, pkg, *, stable):
                res = orig(repo, pkg, stable=stable)
                try:
                    _STATE["handler"](pkg, stable, res)
                except Exception as e:  # a monitor bug must not change behaviour
                    ctx.note("monitor error %r" % (e,))
                return res

            monitored._c40 = True
            monitored._orig = orig
            keywording.suggested_keywords = monitored
        _STATE["handler"] = self.on_suggestion

    def on_suggestion(self, pkg, stable, res):
        ctx = self.ctx
        ctx.count("suggested_keywords_calls")
        if self.current is None:
            return
        p = ref.pkg_by_cpv(self.current["repo"], pkg.cpvstr)
        if p is None:
            return
        ctx.evaluated()
        result = sorted(res)
        if result:
            ctx.count("suggestions_nonempty")
        for clause, detail in ref.check_suggestion(self.current["repo"], p, stable, result):
            self.sugg_violations.append((clause, dict(detail, cpv=p["cpv"], stable=stable, result=result)))

    def build_repo(self, spec):
        cache = {}
        cpv_dict = {}

        def pkg_klass(cat, name, fv):
            return cache[(cat, name, fv)]

        for p in spec["pkgs"]:
            cat, name = p["name"].split("/")
            cpv_dict.setdefault(cat, {}).setdefault(name, []).append(p["ver"])
        tree = self.SimpleTree(cpv_dict, pkg_klass=pkg_klass, repo_id="test")
        for p in spec["pkgs"]:
            cat, name = p["name"].split("/")
            data = {"PROPERTIES": "live"} if p["live"] else {}
            cache[(cat, name, p["ver"])] = self.FakePkg(p["cpv"], slot=p["slot"], keywords=tuple(p["keywords"]),
                                                        repo=tree, data=data)
        tree.known_arches = frozenset(spec["arches"])
        return tree

    def run_case(self, case):
        """Drive the real generator; returns the observed trace."""
        kw = self.kw
        repo = self.build_repo(case["repo"])
        state = {"line": -1}
        items = [(self.atom(ref.spec_text(ln["spec"])), list(ln["written"])) for ln in case["lines"]]

        def feed():
            for i, item in enumerate(items):
                state["line"] = i
                yield item
            state["line"] = len(items)

        o = case["options"]
        trace = {"yields": [], "exc": None}
        self.current = case
        try:
            for req in kw.match_packages(repo, feed(), stable=o["stable"], cc_arches=tuple(o["cc_arches"]),
                                         only_new=o["only_new"], filter_arch=tuple(o["filter_arch"]),
                                         allarches=o["allarches"]):
                trace["yields"].append({"line": state["line"], "cpv": req.pkg.cpvstr, "keywords": list(req.keywords)})
        except Exception as e:
            trace["exc"] = {"type": type(e).__name__, "line": state["line"],
                            "match_exception": isinstance(e, kw.PackageMatchException),
                            "pkgcore_exception": isinstance(e, self.PkgcoreException),
                            "text": str(e)[:200]}
        # direct calls: every package of the repository, both modes
        names = {ln["spec"]["name"] for ln in case["lines"]}
        for pkg in repo:
            if pkg.key in names or self.n_cases % 5 == 0:
                kw.suggested_keywords(repo, pkg, stable=True)
                kw.suggested_keywords(repo, pkg, stable=False)
        self.n_cases += 1
        self.current = None
        return trace


_STATE = {"handler": lambda *a: None}


def judge_case(ctx, h, case):
    del h.sugg_violations[:]
    trace = h.run_case(case)
    repo, lines, opts = case["repo"], case["lines"], case["options"]
    ctx.count("lists")
    ctx.count("requests_yielded", len(trace["yields"]))
    ctx.count("outcome:" + (trace["exc"]["type"] if trace["exc"] else "completed"))
    if trace["exc"] and not trace["exc"]["pkgcore_exception"]:
        ctx.count("non_pkgcore_exception:" + trace["exc"]["type"])
        ctx.note("non-pkgcore exception %s: %s" % (trace["exc"]["type"], trace["exc"]["text"]))
    # one evaluation per yielded request and applicable clause, + one for the terminal clause
    nclauses = 1 + bool(opts["cc_arches"]) + bool(opts["filter_arch"]) + bool(opts["only_new"])
    ctx.evaluated(len(trace["yields"]) * nclauses)
    if opts["stable"] and any(not ref.stabilization_can_act_on(ln["spec"]) for ln in lines):
        ctx.evaluated()
        if trace["exc"] and trace["exc"]["type"] == "PackageInvalid":
            ctx.count("stabilization_spec_rejected")
    feats = ref.applicable_clauses(repo, lines, opts)
    for f in feats:
        ctx.count("feature:" + f)
    if feats:
        ctx.nontrivial(json.dumps(case, sort_keys=True))
    if ctx.want_sample() and trace["yields"] and feats:
        ctx.sample({"arch.list": repo["arches"],
                    "packages": {p["cpv"]: " ".join(p["keywords"]) for p in repo["pkgs"]},
                    "list": [[ref.spec_text(ln["spec"])] + ln["written"] for ln in lines], "options": opts,
                    "observed": trace})
    for clause, detail in ref.check(repo, lines, opts, trace):
        ctx.violation("request-" + clause, {"case": case, "trace": trace, "clause": clause, "detail": detail,
                                            "rule": clause + (":" + detail["origin"] if "origin" in detail else "")})
    for clause, detail in h.sugg_violations:
        ctx.violation("suggestion-" + clause, {"case": case, "clause": clause, "detail": detail, "rule": clause})


def run(ctx):
    h = Harness(ctx)
    rng = ctx.rng
    n = ctx.budget(2500, 12000)
    for i in range(n):
        case = gen.make_case(rng)
        judge_case(ctx, h, case)
        if i % 64 == 0 and ctx.out_of_time(15):
            ctx.note("stopped early by the soft deadline after %d lists" % (i + 1))
            break


def classify(w):
    if not isinstance(w, dict) or w.get("clause") != "unknown-arch":
        return None
    d = w.get("detail") or {}
    case = w.get("case") or {}
    opts = case.get("options") or {}
    arch = d.get("arch")
    known = set((case.get("repo") or {}).get("arches") or ())
    if arch is None or arch in known:
        return None
    if d.get("origin") == "cc_arches" and arch in (opts.get("cc_arches") or ()):
        return "cc-arches-unvalidated"
    if d.get("origin") == "allarches-readd" and opts.get("allarches") and opts.get("stable") and opts.get("filter_arch"):
        pkg = ref.pkg_by_cpv(case["repo"], d.get("cpv"))
        if pkg and arch in (ref.testing_here(pkg) & ref.stable_on_another_version(case["repo"], pkg)):
            return "allarches-readd-unvalidated"
    return None


def replay(ctx, w):
    h = Harness(ctx)
    judge_case(ctx, h, w["case"])
