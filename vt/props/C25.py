"""C25 Binary package tarballs round-trip their contents.

Runtime monitoring of the real pkgcore.fs.tar: random trees are built on disk, scanned with livefs, optionally
re-recorded through symlinked directories, written with write_set (bzip2/xz) or add_contents_to_tarfile
(uncompressed) and read back with generate_contents / convert_archive.  The oracle is an lstat-level snapshot of
the tree taken by the harness itself plus the symlink-resolution reference in vt/ref/c25_resolve.py.
"""

import hashlib
import os
import shutil
import stat

from ..gen import c25_trees as gen
from ..ref import c25_resolve as rr

ID = "C25"
LEVEL = "exploration"
TECHNIQUE = "round-trip differential: harness lstat snapshot + symlink-resolution reference vs generate_contents(write_set(cset))"
RULE = ("random trees materialised on disk (nested dirs, files 0 B-400 KB, hard-link groups of 2-4 across directories, "
        "relative/absolute/dangling/chained symlinks, fifos, device nodes, odd modes, uids/gids up to 2^31, fractional "
        "mtimes, long and non-ASCII names), scanned by livefs, some entries re-recorded through a symlinked directory, "
        "some directory entries left out; written by the real write_set (bz2/xz, +/- parallelize) or "
        "add_contents_to_tarfile (uncompressed) and read back by generate_contents/convert_archive, optionally written "
        "and read a second time from the read-back set; plus memory-backed sets, zero-member archives and zero-byte "
        "streams. Oracle per path: type, mode, uid, gid, int(mtime), target, sha256 of the data, device numbers; "
        "inode-sharing partition; real location per the resolution reference. Non-trivial = the tree has a hard-link "
        "group or an entry recorded through a symlinked directory or an empty archive; distinct = distinct spec.")
ASSUMPTIONS = [
    "expected attributes come from the harness's own os.lstat/readlink/sha256 of the materialised tree, not from livefs",
    "mtimes are compared as int(mtime) (sub-second part is counted, not judged); symlink modes are not compared",
    "directories the reader synthesises for entries whose parent was not recorded are compared by path and type only",
    "entries are recorded through a symlink only when the fully resolved target is a directory of the set and the "
    "resolved location is unique; symlink cycles are not generated",
    "'uncompressed' is exercised through add_contents_to_tarfile/convert_archive (snakeoil offers no null compressor, "
    "write_set(compressor=None) raises KeyError and is not judged)",
    "names are valid UTF-8",
]
SHARDS = {"quick": 4, "thorough": 16}
TIMEOUT = {"quick": 600, "thorough": 2400}
MIN_EVALS = 400
REQUIRED_COUNTERS = ("contract_add_contents_to_tarfile_calls", "contract_convert_archive_calls",
                     "contract_archive_to_fsobj_members", "trees_judged", "feature:hardlinks",
                     "feature:recorded-through-symlink", "zero_member_archives", "inode_partitions_judged")

KEY_DEV = "C25:device-member-major-attributeerror"
KEY_EMPTY = "C25:empty-archive-attributeerror"
KEY_NOINODE = "C25:files-without-inode-share-key-data-dropped"
KEY_CHAIN = "C25:symlink-chain-single-hop"


class Mon:
    _installed = False
    dataless = []  # regular members with size > 0 that the real writer added without data, for the current write

    def __init__(self, ctx):
        from pkgcore.fs import contents, fs, livefs, tar
        from pkgcore.fs._tar import tarfile

        self.ctx = ctx
        self.tar, self.livefs, self.fs, self.contents, self.tarfile = tar, livefs, fs, contents, tarfile
        if not Mon._installed:
            Mon._installed = True
            o_add, o_conv, o_a2f = tar.add_contents_to_tarfile, tar.convert_archive, tar.archive_to_fsobj

            def add_contents_to_tarfile(*a, **kw):
                ctx.count("contract_add_contents_to_tarfile_calls")
                return o_add(*a, **kw)

            def convert_archive(*a, **kw):
                ctx.count("contract_convert_archive_calls")
                return o_conv(*a, **kw)

            def archive_to_fsobj(src):
                for x in o_a2f(src):
                    ctx.count("contract_archive_to_fsobj_members")
                    yield x

            # contract on the archive writer: a regular member announcing data must come with a data stream
            o_addfile = tarfile.TarFile.addfile
            mon = self

            def addfile(self_, tarinfo, fileobj=None):
                ctx.count("contract_addfile_calls")
                if tarinfo.isreg() and tarinfo.size > 0 and fileobj is None:
                    ctx.count("contract_addfile_regular_member_without_data")
                    Mon.dataless.append([tarinfo.name, tarinfo.size])
                return o_addfile(self_, tarinfo, fileobj)

            tarfile.TarFile.addfile = addfile
            tar.add_contents_to_tarfile = add_contents_to_tarfile
            tar.convert_archive = convert_archive
            tar.archive_to_fsobj = archive_to_fsobj

    # -- write / read through the real code ---------------------------------------------------
    def write(self, cset, path, comp, parallelize):
        del Mon.dataless[:]
        if comp is None:
            t = self.tarfile.TarFile(name=path, mode="w")
            try:
                self.tar.add_contents_to_tarfile(cset, t)
            finally:
                t.close()
        else:
            self.tar.write_set(cset, path, compressor=comp, parallelize=parallelize)

    def read(self, path, comp, parallelize):
        if comp is None:
            return self.tar.convert_archive(self.tarfile.TarFile(name=path, mode="r"))
        return self.tar.generate_contents(path, compressor=comp, parallelize=parallelize)

    def observe(self, cset):
        """read-side entries -> {path: attrs}"""
        out = {}
        groups = {}
        n = 0
        for o in cset:
            n += 1
            a = {"uid": o.uid, "gid": o.gid, "mode": stat.S_IMODE(o.mode) if o.mode is not None else None,
                 "mtime": int(o.mtime) if o.mtime is not None else None,
                 "mtime_exact": float(o.mtime) if o.mtime is not None else None}
            if o.is_reg:
                a["type"] = "file"
                data = o.data.bytes_fileobj().read()
                a["size"] = len(data)
                a["sha"] = hashlib.sha256(data).hexdigest()
                groups.setdefault((o.dev, o.inode) if None not in (o.dev, o.inode) else ("solo", o.location), []).append(o.location)
            elif o.is_dir:
                a["type"] = "dir"
            elif o.is_sym:
                a["type"] = "link"
                a["target"] = o.target
                a.pop("mode")
            elif o.is_fifo:
                a["type"] = "fifo"
            elif o.is_dev:
                a["type"] = "dev"
                a["major"], a["minor"] = o.major, o.minor
                a["chr"] = bool(stat.S_ISCHR(o.mode))
            else:
                a["type"] = "?" + type(o).__name__
            out[o.location] = a
        for g in groups.values():
            for p in g:
                out[p]["links"] = sorted(x for x in g if x != p)
        return out, n


def snapshot(spec, root):
    """harness's own view of the materialised tree: {disk path: attrs}"""
    out = {}
    groups = {}
    for e in spec["entries"]:
        p = e["path"]
        st = os.lstat(root + p)
        a = {"uid": st.st_uid, "gid": st.st_gid, "mode": stat.S_IMODE(st.st_mode), "mtime": st.st_mtime_ns // 10 ** 9,
             "mtime_ns": st.st_mtime_ns}
        m = st.st_mode
        if stat.S_ISREG(m):
            a["type"] = "file"
            with open(root + p, "rb") as f:
                data = f.read()
            a["size"] = len(data)
            a["sha"] = hashlib.sha256(data).hexdigest()
            groups.setdefault((st.st_dev, st.st_ino), []).append(p)
        elif stat.S_ISDIR(m):
            a["type"] = "dir"
        elif stat.S_ISLNK(m):
            a["type"] = "link"
            a["target"] = os.readlink(root + p)
            a.pop("mode")
        elif stat.S_ISFIFO(m):
            a["type"] = "fifo"
        else:
            a["type"] = "dev"
            a["major"], a["minor"] = os.major(st.st_rdev), os.minor(st.st_rdev)
            a["chr"] = bool(stat.S_ISCHR(m))
        out[p] = a
    return out, list(groups.values())


def model(snap, groups, written, pathmap, dropped):
    """Expected read-side map under a path mapping (disk path -> location after reading)."""
    out = {}
    for p in written:
        a = dict(snap[p])
        a.pop("mtime_ns", None)
        out[pathmap[p]] = a
    for g in groups:
        g = [pathmap[p] for p in g if p in written]
        for p in g:
            out[p]["links"] = sorted(x for x in g if x != p)
    for p in list(out):
        if out[p]["type"] == "file":
            out[p].setdefault("links", [])
    # directories a reader has to synthesise: ancestors nobody recorded
    for p in list(out):
        for d in rr.ancestors(p):
            if d not in out:
                out[d] = {"type": "dir", "synth": True}
    return out


def compare(exp, got):
    """-> list of [path, field, expected, got]"""
    diffs = []
    for p in sorted(set(exp) | set(got)):
        if p not in got:
            diffs.append([p, "missing", exp[p].get("type"), None])
            continue
        if p not in exp:
            diffs.append([p, "unexpected", None, got[p].get("type")])
            continue
        e, g = exp[p], got[p]
        if e.get("synth"):
            if g.get("type") != "dir":
                diffs.append([p, "type", "dir", g.get("type")])
            continue
        for k in ("type", "mode", "uid", "gid", "mtime", "target", "size", "sha", "major", "minor", "chr", "links"):
            if k in e and e[k] != g.get(k):
                diffs.append([p, k, e[k], g.get(k)])
    return diffs


def build_cset(mon, spec, root):
    scanned = {o.location: o for o in mon.livefs.iter_scan(root, offset=root)}
    cs = mon.contents.contentsSet(mutable=True)
    written = []
    for p in spec["order"]:
        if p in spec["drop"]:
            continue
        o = scanned[p]
        if p in spec["record"]:
            o = o.change_attributes(location=spec["record"][p])
        cs.add(o)
        written.append(p)
    return cs, written, set(scanned)


def build_memory_cset(mon, spec):
    from snakeoil.data_source import data_source

    cs = mon.contents.contentsSet(mutable=True)
    ents = {e["path"]: e for e in spec["entries"]}
    snap = {}
    written = []
    for p in spec["order"]:
        e = ents[p]
        kw = dict(mode=e["mode"], uid=e["uid"], gid=e["gid"], mtime=e["mtime_ns"] // 10 ** 9)
        a = dict(kw, type=e["type"])
        if e["type"] == "dir":
            cs.add(mon.fs.fsDir(p, strict=False, **kw))
        else:
            data = gen.file_bytes(e)
            cs.add(mon.fs.fsFile(p, data=data_source(data, mutable=False), strict=False, **kw))
            a["size"] = len(data)
            a["sha"] = hashlib.sha256(data).hexdigest()
        snap[p] = a
        written.append(p)
    return cs, written, snap


def check_spec(ctx, mon, spec, tag="t"):
    """Materialise one spec, run it through the real tar code and judge.  Returns True when it held."""
    scratch = os.environ.get("VT_SCRATCH") or "/var/tmp/c25-%d" % os.getpid()
    base = os.path.join(scratch, "c25-" + tag)
    shutil.rmtree(base, ignore_errors=True)
    os.makedirs(base)
    try:
        return _check_spec(ctx, mon, spec, base)
    finally:
        shutil.rmtree(base, ignore_errors=True)


def _check_spec(ctx, mon, spec, base):
    root = os.path.join(base, "root")
    klass = spec.get("class", "clean")
    comp = spec.get("compressor")
    par = bool(spec.get("parallelize"))
    wit = {"spec": spec}
    if klass == "memory":
        cs, written, snap = build_memory_cset(mon, spec)
        groups = []
    else:
        gen.materialise(spec, root)
        snap, groups = snapshot(spec, root)
        cs, written, scanned = build_cset(mon, spec, root)
        if scanned != set(snap):
            ctx.count("harness_scan_mismatch")
            ctx.note("livefs scan and harness snapshot disagree on the path set (C18 territory): %r" % sorted(scanned ^ set(snap))[:4])
            return True
    # where every written entry really lives
    rec = {p: spec["record"].get(p, p) for p in written}
    links = {rec[p]: snap[p]["target"] for p in written if snap[p]["type"] == "link"}
    try:
        real = rr.real_link_map(links)
        full = {p: rr.resolve(rec[p], real) for p in written}
        onehop = {p: (full[p][0] if snap[p]["type"] == "link" else rr.resolve(rec[p], real, max_hops=1)[0]) for p in written}
    except rr.Cycle:
        ctx.count("generator_symlink_cycle_skipped")
        return True
    if any(full[p][0] != p for p in written) or len({v[0] for v in full.values()}) != len(written):
        ctx.count("generator_inconsistent_recording_skipped")
        return True
    maxhops = max([h for _, h in full.values()] or [0])
    ctx.count("max_hops:%d" % min(maxhops, 3))
    exp = model(snap, groups, written, {p: p for p in written}, spec["drop"])
    tarpath = os.path.join(base, "pkg.tar" + ("." + comp if comp else ""))
    ctx.count("compressor:%s%s" % (comp, "+par" if par and comp else ""))
    ctx.count("class:" + klass)
    for f in gen.features(spec):
        ctx.count("feature:" + f)
    for e in spec["entries"]:
        ctx.count("entries:" + e["type"])
    try:
        mon.write(cs, tarpath, comp, par)
    except Exception as e:
        ctx.evaluated()
        ctx.violation("write-raises", dict(wit, exc_type=type(e).__name__, exc=repr(e)[:300], rule="write-raises:" + type(e).__name__))
        return False
    ok = True
    if Mon.dataless:
        wit["dataless_reg_members"] = list(Mon.dataless)
    gens = 2 if spec.get("regen") else 1
    for g in range(gens):
        ctx.evaluated()
        try:
            back = mon.read(tarpath, comp, par)
            got, n = mon.observe(back)
        except Exception as e:
            import traceback

            ctx.violation("read-raises", dict(wit, generation=g + 1, exc_type=type(e).__name__, exc=repr(e)[:300],
                                              tb=traceback.format_exc()[-600:], rule="read-raises:" + type(e).__name__))
            return False
        ctx.count("trees_judged")
        diffs = compare(exp, got)
        ctx.evaluated(len(exp))
        if groups:
            ctx.count("inode_partitions_judged")
        if any(len([p for p in grp if p in written]) > 1 for grp in groups):
            ctx.count("trees_with_hardlink_group_in_set")
        frac = [p for p in written if snap[p].get("mtime_ns", 0) % 10 ** 9 and p in got]
        if frac:
            exact = sum(1 for p in frac if abs((got[p].get("mtime_exact") or 0) - snap[p]["mtime_ns"] / 1e9) < 1e-5)
            ctx.count("fractional_mtimes_seen", len(frac))
            ctx.count("fractional_mtimes_preserved", exact)
        if n != len(got):
            diffs.append(["<set>", "duplicate-locations", len(got), n])
        if diffs:
            ok = False
            fields = sorted({d[1] for d in diffs})
            w = dict(wit, generation=g + 1, diffs=diffs[:12], ndiffs=len(diffs), max_hops=maxhops,
                     got=got, expected=exp,
                     onehop_model=model(snap, groups, written, onehop, spec["drop"]) if maxhops >= 2 else None,
                     rule="entries-differ:" + ",".join(fields)[:60])
            for m in (w["got"], w["expected"], w["onehop_model"] or {}):
                for a in m.values():
                    a.pop("mtime_exact", None)
            ctx.violation("entries-differ", w)
            break
        if g + 1 < gens:
            # second generation: write the read-back set again and read that
            tar2 = tarpath + ".gen2"
            try:
                mon.write(back, tar2, comp, par)
            except Exception as e:
                ctx.violation("rewrite-raises", dict(wit, exc_type=type(e).__name__, exc=repr(e)[:300], rule="rewrite-raises"))
                return False
            tarpath = tar2
            ctx.count("second_generation_roundtrips")
    return ok


# ---- empty archives ----------------------------------------------------------------------------------
def check_empty(ctx, mon, case, comp, par=False, tag="e"):
    """case 'zero-member': the archive write_set produces for an empty set; 'zero-byte-stream': a (compressed) stream
    of zero bytes, which is what tar itself accepts as an empty archive."""
    scratch = os.environ.get("VT_SCRATCH") or "/var/tmp/c25-%d" % os.getpid()
    base = os.path.join(scratch, "c25-" + tag)
    shutil.rmtree(base, ignore_errors=True)
    os.makedirs(base)
    path = os.path.join(base, "empty.tar")
    wit = {"empty": case, "compressor": comp, "parallelize": par}
    try:
        if case == "zero-member":
            mon.write(mon.contents.contentsSet(mutable=True), path, comp, par)
            ctx.count("zero_member_archives")
        else:
            import bz2
            import lzma

            data = {"bz2": bz2.compress(b""), "bzip2": bz2.compress(b""), "xz": lzma.compress(b""), None: b""}[comp]
            with open(path, "wb") as f:
                f.write(data)
            ctx.count("zero_byte_streams")
        ctx.evaluated()
        ctx.nontrivial("empty|%s|%s|%s" % (case, comp, par))
        try:
            back = mon.read(path, comp, par)
            n = len(list(back))
        except Exception as e:
            import traceback

            ctx.violation("empty-archive-raises", dict(wit, exc_type=type(e).__name__, exc=repr(e)[:300],
                                                       tb=traceback.format_exc()[-500:],
                                                       rule="empty-raises:" + case + ":" + type(e).__name__))
            return False
        if n:
            ctx.violation("empty-archive-not-empty", dict(wit, n=n, rule="empty-not-empty"))
            return False
        return True
    finally:
        shutil.rmtree(base, ignore_errors=True)


def run(ctx):
    mon = Mon(ctx)
    rng = ctx.rng
    # empty archives: all variants on every shard (cheap)
    for comp in ("bz2", "xz", None):
        for par in ((False, True) if comp else (False,)):
            check_empty(ctx, mon, "zero-member", comp, par)
    for comp in ("bz2", "xz"):
        check_empty(ctx, mon, "zero-byte-stream", comp, False)
    try:
        mon.tar.write_set(mon.contents.contentsSet(), os.path.join(os.environ.get("VT_SCRATCH", "/var/tmp"), "c25-none.tar"),
                          compressor=None)
        ctx.count("write_set_compressor_none_works")
    except KeyError:
        ctx.skip_unspecified("write_set(compressor=None): snakeoil has no null compressor (KeyError); uncompressed is driven through add_contents_to_tarfile/convert_archive")
    except Exception as e:
        ctx.note("write_set(compressor=None) raised %r" % (e,))
    n = ctx.budget(15, 400)
    left0 = ctx.time_left()
    cap = ctx.budget(1e9, 660)  # thorough: stop generating after ~11 min even when the watchdog is far away
    classes = ["clean"] * 14 + ["chain", "chain", "device", "device", "memory", "memory"]
    for i in range(n):
        klass = rng.choice(classes)
        spec = gen.tree_spec(rng, klass, big=not ctx.quick)
        feats = gen.features(spec)
        if "hardlinks" in feats or "recorded-through-symlink" in feats:
            ctx.nontrivial(repr(spec))
        if i < 2:
            ctx.sample({"class": klass, "compressor": spec["compressor"], "features": sorted(feats),
                        "entries": [[e["type"], e["path"]] + ([e["target"]] if e["type"] == "link" else []) for e in spec["entries"][:8]],
                        "record": spec["record"]})
        check_spec(ctx, mon, spec, tag="s%d" % ctx.shard)
        if ctx.out_of_time(20) or left0 - ctx.time_left() > cap:
            ctx.note("tree loop stopped early by the time budget at %d/%d" % (i, n))
            break


# ---------------------------------------------------------------------------------------------------
def classify(w):
    kind = w.get("kind")
    spec = w.get("spec") or {}
    ents = spec.get("entries", [])
    if kind == "empty-archive-raises":
        if (w.get("empty") == "zero-byte-stream" and w.get("exc_type") == "AttributeError"
                and "'ReadError' object has no attribute 'message'" in w.get("exc", "")):
            return KEY_EMPTY
        return None
    if kind in ("read-raises", "entries-differ") and spec.get("class") == "memory":
        # files without (dev, inode) all land on the key (None, None) in add_contents_to_tarfile: only the first one is
        # written with data, the others as regular members whose header announces data that is never written
        files = [p for p in spec.get("order", []) if any(e["path"] == p and e["type"] == "file" for e in ents)]
        dl = [d[0] for d in w.get("dataless_reg_members") or []]
        names = {"./" + p.lstrip("/") for p in files[1:]}
        if len(files) >= 2 and dl and set(dl) <= names:
            return KEY_NOINODE
        return None
    if kind == "read-raises":
        if (w.get("exc_type") == "AttributeError" and "has no attribute 'major'" in w.get("exc", "")
                and any(e["type"] == "dev" for e in ents)):
            return KEY_DEV
        return None
    if kind == "entries-differ":
        got, exp = w.get("got") or {}, w.get("expected") or {}
        oh = w.get("onehop_model")
        if oh and w.get("max_hops", 0) >= 2 and oh != exp and not compare(oh, got):
            return KEY_CHAIN
    return None


def replay(ctx, w):
    mon = Mon(ctx)
    if "empty" in w:
        check_empty(ctx, mon, w["empty"], w.get("compressor"), bool(w.get("parallelize")), tag="replay")
    else:
        check_spec(ctx, mon, w["spec"], tag="replay")
