"""C42 Package move updates follow move chains in file order (pkgcore.ebuild.pkg_updates.read_updates)."""

import json
import os
import shutil

from ..ref import c42_updates as ref

ID = "C42"
LEVEL = "exploration"
TECHNIQUE = "runtime monitoring of read_updates() on generated update directories; sequential reference model"
RULE = ("random profiles/updates directories: 0-8 files named [1-4]Q-YYYY over 2018-2024 (written to disk in random order) "
        "plus badly named files; lines drawn over a pool of 4-9 names: moves (chains, forks, cycles, moves onto moved "
        "names, redundant moves, self moves), slotmoves (plain and versioned specs; before/after the name became a move "
        "target; on already moved names), malformed lines (blank, unknown directive, wrong arity, versioned move operand, "
        "slotted slotmove operand, outer white space) and - in a separate 6% stratum - lines whose operand is no atom at "
        "all. Oracle: the mapping returned by read_updates() == sequential model (vt/ref/c42_updates.py), lists compared "
        "in order. Non-trivial = the case contains a move chain, a cycle, a redundant move, a command recorded after the "
        "name became a move target, or a file set whose chronological order differs from its lexicographic order; "
        "distinct = distinct file contents.")
ASSUMPTIONS = [
    "'file order' = chronological order of the quarter-named files (year, then quarter), lines top to bottom; EAPIs 0-7 "
    "only (EAPI 8 drops the naming scheme and with it the defined order)",
    "the statement does not say whether a slotmove on an already-moved name is ignored like a redundant move or applies to "
    "a package that carries the name again (cycle), nor whether a line with outer white space is malformed: all four "
    "readings are accepted",
    "operands of generated moves are plain cat/pkg names or versioned atoms; slotted/use-dep operands of a move and "
    "interior runs of blanks are not generated (unspecified)",
    "commands are compared after str() of the atoms",
]
SHARDS = {"quick": 4, "thorough": 16}
TIMEOUT = {"quick": 240, "thorough": 1500}
MIN_EVALS = 1500
REQUIRED_COUNTERS = ("read_updates_calls", "feature:chain", "feature:cycle", "feature:redundant-move",
                     "feature:command-after-target", "feature:chrono!=lex", "feature:line:malformed")

EAPIS = ["0", "4", "5", "6", "7"]
BAD_NAMES = ["5Q-2020", "0Q-2021", "1Q-20", "1q-2021", "notes.txt", "1Q-2020.bak", ".1Q-2020", "Q1-2020", "1Q-20211", "README"]
INVALID_LINES = ["move foo a/pa", "move a/pa-1.0 a/pb", "move a/pa b/", "slotmove a/pa 0 @bad", "slotmove pa 0 1",
                 "move a/pa //b", "slotmove a/pa #1 2", "move a/-pa a/pb", "slotmove ~a/pa-1.0-r1 0 1"]


def _silence():
    import logging

    logging.getLogger("pkgcore").setLevel(logging.CRITICAL + 1)


# ------------------------------------------------------------------------------------------------------------------
# generator


def gen_case(rng, invalid_stratum=False):
    cats = rng.sample(["a", "b-c", "dev-x"], rng.randrange(1, 4))
    pns = rng.sample(["pa", "pb", "pc", "pd", "lib-e", "f2", "g+"], rng.randrange(2, 5))
    names = [c + "/" + p for c in cats for p in pns]
    rng.shuffle(names)
    names = names[: rng.randrange(3, 10)]
    nfiles = rng.choice([0, 1, 1, 2, 2, 3, 3, 4, 5, 6, 8])
    quarters = set()
    while len(quarters) < nfiles:
        quarters.add("%dQ-%d" % (rng.randrange(1, 5), rng.randrange(2018, 2025) if rng.random() < 0.7
                                 else rng.randrange(2020, 2022)))
    quarters = sorted(quarters, key=ref.chrono_key)
    slots = ["0", "1", "2", "1.2", "stable"]
    files = {}
    # keep a rough idea of the state so that interesting shapes are frequent
    moved, targets = set(), []
    for fn in quarters:
        lines = []
        for _ in range(rng.choice([0, 1, 2, 3, 4, 5, 6, 8])):
            r = rng.random()
            if r < 0.52:
                # move
                r2 = rng.random()
                if targets and r2 < 0.35:
                    src = rng.choice(targets)                 # chain: a target moves on
                elif moved and r2 < 0.5:
                    src = rng.choice(sorted(moved))           # redundant move
                else:
                    src = rng.choice(names)
                r3 = rng.random()
                if moved and r3 < 0.2:
                    trg = rng.choice(sorted(moved))           # cycle / move onto a moved name
                elif r3 < 0.23:
                    trg = src                                 # self move
                else:
                    trg = rng.choice(names)
                lines.append("move %s %s" % (src, trg))
                if src not in moved:
                    moved.add(src)
                    targets.append(trg)
            elif r < 0.8:
                r2 = rng.random()
                if targets and r2 < 0.5:
                    n = rng.choice(targets)
                elif moved and r2 < 0.65:
                    n = rng.choice(sorted(moved))
                else:
                    n = rng.choice(names)
                spec = n
                if rng.random() < 0.25:
                    op = rng.choice(["=", ">=", "<", "~"])
                    spec = op + n + "-" + rng.choice(["1", "1.0", "2.3-r1", "0.9_rc1"] if op != "~" else ["1", "1.0", "0.9_rc1"])
                lines.append("slotmove %s %s %s" % (spec, rng.choice(slots), rng.choice(slots)))
            else:
                n, m = rng.choice(names), rng.choice(names)
                lines.append(rng.choice([
                    "", "", "   ", "bogus %s %s" % (n, m), "# comment", "move %s" % n, "move %s %s %s" % (n, m, n), "move",
                    "slotmove %s 0" % n, "slotmove %s 0 1 2" % n, "slotmove", "MOVE %s %s" % (n, m),
                    "move =%s-1.0 %s" % (n, m), "move %s =%s-2" % (n, m), "slotmove %s:0 0 1" % n,
                    " move %s %s" % (n, m), "move %s %s " % (n, m), "\tslotmove %s 0 1" % n, "slotmove %s 1 2\t" % n,
                ]))
        if invalid_stratum and rng.random() < 0.6:
            lines.insert(rng.randrange(len(lines) + 1), rng.choice(INVALID_LINES))
        text = "".join(l + "\n" for l in lines)
        if lines and lines[-1].strip() and rng.random() < 0.1:
            text = text[:-1]                                   # no trailing newline
        files[fn] = text
    if invalid_stratum and files and not ref.has_status(files, "invalid-atom"):
        fn = rng.choice(sorted(files))
        files[fn] = rng.choice(INVALID_LINES) + "\n" + files[fn]
    for _ in range(rng.choice([0, 0, 0, 1, 2])):
        n, m = rng.choice(names), rng.choice(names)
        files[rng.choice(BAD_NAMES)] = "move %s %s\nslotmove %s 0 9\n" % (n, m, n)
    return {"eapi": rng.choice(EAPIS), "files": files, "missing_dir": nfiles == 0 and rng.random() < 0.3}


# ------------------------------------------------------------------------------------------------------------------
# driving the real code


_seq = [0]


def run_impl(case, rng=None):
    """-> ("ok", mapping with stringified commands) or ("exc", "module.Class", message)"""
    from pkgcore.ebuild import pkg_updates
    from pkgcore.ebuild.eapi import get_eapi

    base = os.environ.get("VT_SCRATCH") or "/var/tmp"
    _seq[0] += 1
    d = os.path.join(base, "c42_%d_%d" % (os.getpid(), _seq[0]))
    path = os.path.join(d, "updates")
    os.makedirs(d)
    try:
        if not case.get("missing_dir"):
            os.makedirs(path)
            names = sorted(case["files"])
            if rng is not None:
                rng.shuffle(names)
            for fn in names:
                with open(os.path.join(path, fn), "w") as f:
                    f.write(case["files"][fn])
        try:
            res = pkg_updates.read_updates(path, get_eapi(case["eapi"]))
        except Exception as e:  # noqa: BLE001 - the oracle judges it
            return ("exc", "%s.%s" % (type(e).__module__, type(e).__name__), str(e))
        out = {}
        for k, cmds in res.items():
            out[str(k)] = [tuple(str(x) for x in c) for c in cmds]
        return ("ok", out)
    finally:
        shutil.rmtree(d, ignore_errors=True)


def _plain(m):
    return {k: [list(c) for c in v] for k, v in m.items()}


def judge(ctx, case, rng=None, record=True):
    files = case["files"] if not case.get("missing_dir") else {}
    got = run_impl(case, rng)
    ctx.count("read_updates_calls")
    ctx.evaluated()
    wit = {"eapi": case["eapi"], "files": case["files"], "missing_dir": bool(case.get("missing_dir"))}
    if got[0] == "exc":
        inv = ref.has_status(files, "invalid-atom")
        lines = [raw for fn in ref.update_files(files) for raw in ref.split_lines(files[fn])
                 if ref.parse_line(raw)[0] == "invalid-atom"]
        w = dict(wit, impl={"exc": got[1], "msg": got[2]}, invalid_atom_lines=lines,
                 rule="raises-on-invalid-atom-line" if inv else "raises")
        if inv:
            # the rest of the case is still judged, without those lines
            stripped = dict(case, files=ref.strip_status(files, "invalid-atom"))
            sub = judge(ctx, stripped, rng, record)
            w["holds_without_those_lines"] = sub
            ctx.count("invalid_atom_case_rejudged_without_lines")
        ctx.violation("malformed-line-not-skipped" if inv else "read_updates-raised", w)
        return False
    impl = _plain(got[1])
    vs = ref.variants(files, "chrono")
    exp = [_plain(m) for _p, m in vs]
    if len(exp) > 1 and record:
        ctx.count("cases_where_open_points_matter")
    if impl in exp:
        if record and len(exp) > 1:
            ctx.count("open_point_reading:" + json.dumps(vs[exp.index(impl)][0], sort_keys=True))
        return True
    # diagnosis for the witness (not part of the verdict)
    lex = [_plain(m) for _p, m in ref.variants(files, "lex")]
    names = ref.update_files(files)
    w = dict(wit, impl=impl, expected=exp[0], n_accepted_readings=len(exp),
             chrono_order=ref.file_order(names, "chrono"), lex_order=ref.file_order(names, "lex"),
             impl_equals_model_in_lexicographic_order=impl in lex)
    diff = sorted(k for k in set(impl) | set(exp[0]) if impl.get(k) != exp[0].get(k))
    w["differing_names"] = diff[:6]
    if w["impl_equals_model_in_lexicographic_order"] and w["chrono_order"] != w["lex_order"]:
        w["rule"] = "files-read-in-lexicographic-order"
    else:
        w["rule"] = "mapping-differs"
    ctx.violation("updates-mapping-vs-sequential-model", w)
    return False


def run(ctx):
    _silence()
    rng = ctx.rng
    import time

    n = ctx.budget(3000, 25000)
    cap = time.monotonic() + ctx.budget(40, 500)     # wall cap (directory churn is slow on a loaded box); only ends the loop early
    for i in range(n):
        inv = rng.random() < 0.06
        case = gen_case(rng, invalid_stratum=inv)
        files = {} if case["missing_dir"] else case["files"]
        feats = ref.features(files)
        for f in feats:
            ctx.count("feature:" + f)
        if case["missing_dir"]:
            ctx.count("missing_directory_cases")
        if feats & {"chain", "cycle", "redundant-move", "command-after-target", "chrono!=lex", "move-onto-moved-name"}:
            ctx.nontrivial(json.dumps(files, sort_keys=True))
        ok = judge(ctx, case, rng)
        if i < 2 or (ctx.want_sample() and "chain" in feats and "chrono!=lex" in feats and len(files) <= 3):
            ctx.sample({"files": files, "expected": {k: [list(c) for c in v] for k, v in ref.expected(files).items()},
                        "agrees": ok})
        if i % 64 == 0 and (ctx.out_of_time(30) or time.monotonic() > cap):
            ctx.note("stopped early by the soft deadline after %d cases" % (i + 1))
            break


# ------------------------------------------------------------------------------------------------------------------


def classify(w):
    kind = w.get("kind")
    if kind == "updates-mapping-vs-sequential-model":
        # exactly: the only thing wrong is the order in which the files were read
        if (w.get("rule") == "files-read-in-lexicographic-order" and w.get("impl_equals_model_in_lexicographic_order")
                and w.get("chrono_order") != w.get("lex_order")):
            files = {} if w.get("missing_dir") else w.get("files", {})
            try:
                lex = [_plain(m) for _p, m in ref.variants(files, "lex")]
                chrono = [_plain(m) for _p, m in ref.variants(files, "chrono")]
            except Exception:
                return None
            if w.get("impl") in lex and w.get("impl") not in chrono:
                return "C42:lexicographic-file-order"
        return None
    if kind == "malformed-line-not-skipped":
        impl = w.get("impl") or {}
        if (w.get("rule") == "raises-on-invalid-atom-line" and impl.get("exc") == "pkgcore.ebuild.errors.MalformedAtom"
                and w.get("invalid_atom_lines")):
            return "C42:invalid-atom-line-raises"
    return None


def replay(ctx, w):
    _silence()
    case = {"eapi": w.get("eapi", "7"), "files": w["files"], "missing_dir": bool(w.get("missing_dir"))}
    judge(ctx, case, None, record=False)
