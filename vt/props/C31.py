"""C31 Environment handed to the build daemon arrives exactly (real daemon, three transfer paths)."""

import os
import shutil
import subprocess

ID = "C31"
LEVEL = "exploration"
NEEDS_EBD = True
RULE = ("random environments of 1-8 probe variables (scalars and lists) whose values over-represent quotes, backslashes, $, "
        "backticks, !, newlines, tabs, space runs, $'..' and ${..} fragments and 2/3/4-byte UTF-8, a random subset marked "
        "non-exported, sent to a REAL daemon by (a) gen_ebuild_env (byte-counted inline, env dump read back), (b) run_phase "
        "with inline 'bytes N' transfer, (c) run_phase with file transfer (pkg_pretend dumps declare -p). The daemon's "
        "declare -p text is decoded by a separate plain bash and compared byte for byte with what was sent, incl. the export "
        "attribute; the announced transfer length is compared with the bytes actually written; after each transfer the same "
        "processor must answer 'alive' and serve the next request. About one transfer in eight (and one per path up front) "
        "carries 3-8 extra variables of 12-48 KiB each, so the payload is several pipe buffers long. Non-trivial: a value containing at least one shell-special "
        "or non-ASCII character; distinct = (path, variable kinds, value).")
ASSUMPTIONS = [
    "values contain no NUL; names avoid the daemon's read-only/black-listed names (prefix VT_)",
    "bash decodes its own declare -p output faithfully (decoder is a separate bash -c, LC_ALL=C)",
    "bash 5.2 of this sandbox; daemon runs in the C locale",
]
SHARDS = {"quick": 4, "thorough": 16}
TIMEOUT = {"quick": 420, "thorough": 1800}
MIN_EVALS = 100
REQUIRED_COUNTERS = ("transfers:a", "transfers:b", "transfers:c", "followup_requests_ok", "bulk_transfers:b", "directed_transfers")
TECHNIQUE = "runtime monitoring: real daemon round trip, bash-decoded values vs sent values, trace byte counts"

FRAGMENTS = ["'", '"', "\\", "$", "`", "!", "\n", "\t", "  ", " ", "\\n", "$'", "${x}", "$(id)", "\\'", "\\\\", "a", "B", "0", "_",
             "é", "ü", "€", "→", "😀", "#", ";", "&", "|", "(", ")", "{", "}", "*", "?", "[", "]", "~", "=", "%", "x y",
             # a backslash directly in front of every character that is special inside some bash quoting style
             "\\\n", "\\\t", "\\ ", '\\"', "\\$", "\\`", "\\!", "\\\\\n", "\\\r", "\r"]
SPECIAL = set("'\"\\$`!\n\t;&|(){}*?[]~#")


def gen_value(rng):
    r = rng.random()
    if r < 0.12:
        return rng.choice(["", "plain", "abc123", "with space", "path/to/x"])
    n = rng.choice([1, 2, 3, 4, 6, 10])
    return "".join(rng.choice(FRAGMENTS) for _ in range(n))


def gen_bulk(rng, env, nonexp):
    """Add 3-8 variables of 12-48 KiB each so the whole payload exceeds one pipe buffer (64 KiB) several times over."""
    for i in range(rng.choice([3, 4, 6, 8])):
        name = "VT_bulk%d" % i
        unit = "".join(rng.choice(FRAGMENTS) for _ in range(rng.choice([7, 19, 40])))
        target = rng.choice([12, 20, 33, 48]) * 1024
        v = unit * (target // max(1, len(unit.encode("utf-8"))) + 1)
        env[name] = v + rng.choice(["", "\\", "'", "end"])
        if rng.random() < 0.3:
            nonexp.append(name)


DIRECTED_ENVS = [
    # (env, nonexported): every "backslash + special" pair inside list elements and scalars, at the start, in the
    # middle and at the end of the value
    ({"VT_d0": ["first\\\nsecond", "a\\\n", "\\\nb", 'q\\"r', "s\\$t", "u\\`v", "w\\\\\nx", "y\\", "\\"],
      "VT_d1": "scalar\\\nvalue", "VT_d2": ["\\\n", "\n\\", "$'\\n'", "\\!"]}, []),
    ({"VT_d3": ["tab\\\there", "cr\\\rhere", "sp\\ here", "nl\nplain", "\"\\\n\""], "VT_d4": "\\\n", "VT_d5": ["", " ", "\n"]},
     ["VT_d4"]),
    # names that are substrings / prefixes / suffixes of one another: the export attribute belongs to the exact name
    ({"VT_P": "p", "VT_PV": "pv", "VT_D": "d", "VT_ED": "ed", "VT_USE": "u", "VT_USE_EXPAND": "ux", "VT_OO": "oo", "VT_ROOT": "r",
      "VT_T": "t", "VT_TX": ["t", "x"]}, ["VT_PV", "VT_ED", "VT_USE_EXPAND", "VT_ROOT", "VT_TX"]),
    ({"VT_P": "p", "VT_PV": "pv", "VT_D": "d", "VT_ED": ["e", "d"], "VT_USE": "u", "VT_USE_EXPAND": "ux"}, ["VT_P", "VT_D", "VT_USE"]),
]


def gen_env(rng, bulk=False):
    env = {}
    nonexp = []
    if bulk:
        gen_bulk(rng, env, nonexp)
    for i in range(rng.choice([1, 2, 3, 5, 8])):
        name = "VT_%s%d" % (rng.choice(["a", "B", "x_", "Q9"]), i)
        if rng.random() < 0.3:
            name = rng.choice(["VT_P", "VT_PV", "VT_PVR", "VT_D", "VT_ED", "VT_USE", "VT_USE_EXPAND", "VT_R", "VT_ROOT", "VT_EROOT"])
            if name in env:
                continue
        if rng.random() < 0.25:
            env[name] = [gen_value(rng) for _ in range(rng.choice([1, 2, 3]))]
        else:
            env[name] = gen_value(rng)
        if rng.random() < 0.25:
            nonexp.append(name)
    return env, nonexp


DECODER = r'''
source "$1" 2>/dev/null
shift
for n in "$@"; do
    if ! declare -p "$n" >/dev/null 2>&1; then printf 'U\0'; continue; fi
    declare -n ref="$n"
    attrs="${ref@a}"
    if [[ $attrs == *a* ]]; then
        printf 'A%s\0%d\0' "$attrs" "${#ref[@]}"
        for e in "${ref[@]}"; do printf '%s\0' "$e"; done
    else
        printf 'S%s\0%s\0' "$attrs" "$ref"
    fi
    unset -n ref
done
'''


def decode(dump_bytes, names, scratch):
    """-> {name: (kind 'S'|'A'|'U', attrs, value bytes | [bytes])} using a separate plain bash."""
    dpath = os.path.join(scratch, "dump.sh")
    with open(dpath, "wb") as f:
        f.write(dump_bytes)
    p = subprocess.run(["bash", "--norc", "--noprofile", "-c", DECODER, "decoder", dpath] + list(names),
                       stdout=subprocess.PIPE, stderr=subprocess.DEVNULL, env={"LC_ALL": "C", "PATH": "/usr/bin:/bin"},
                       timeout=60)
    fields = p.stdout.split(b"\0")
    out = {}
    i = 0
    for n in names:
        if i >= len(fields):
            out[n] = ("U", "", None)
            continue
        tag = fields[i].decode("ascii", "replace")
        if tag.startswith("U"):
            out[n] = ("U", "", None)
            i += 1
        elif tag.startswith("A"):
            cnt = int(fields[i + 1] or b"0")
            out[n] = ("A", tag[1:], fields[i + 2:i + 2 + cnt])
            i += 2 + cnt
        else:
            out[n] = ("S", tag[1:], fields[i + 1])
            i += 2
    return out


class Session:
    def __init__(self, ctx):
        from pkgcore.ebuild import processor
        from .. import ebd
        self.ctx = ctx
        self.ebd = ebd
        self.processor = processor
        self.registry = ebd.install_trace()
        self.root = os.path.join(os.environ["VT_SCRATCH"], "c31repo")
        shutil.rmtree(self.root, ignore_errors=True)
        ebd.make_repo(self.root)
        ebd.write(self.root + "/cat/a/a-1.ebuild",
                  'EAPI=7\nSLOT=0\npkg_pretend() { declare -p "${!VT_@}" > "${VTOUT}"; }\n')
        self.T = self.root + "/T"
        self.E = self.root + "/empty"
        os.makedirs(self.T)
        os.makedirs(self.E)
        self.repo = ebd.open_repo(self.root)
        self.pkg = self.repo.package_class("cat", "a", "1")
        self.ebp = None

    def proc(self):
        if self.ebp is None:
            self.ebp = self.processor.request_ebuild_processor()
        return self.ebp

    def drop(self):
        if self.ebp is not None:
            try:
                self.processor.drop_ebuild_processor(self.ebp)
                self.ebp.shutdown_processor(force=True)
            except Exception:
                pass
            self.ebp = None

    def transfer(self, path, env, nonexp):
        """-> (dump bytes or None, error str or None, announced/actual length info)"""
        ebp = self.proc()
        tr = self.ebd.trace_of(ebp)
        mark = len(tr.events) if tr is not None else 0
        send = dict(env)
        if nonexp:
            send["PKGCORE_NONEXPORTED_VARS"] = " ".join(nonexp)
        dump, err = None, None
        try:
            if path == "a":
                got = []

                def receive_env(self_, line):
                    got.append(self_.ebd_read.read(int(line.strip())))

                ebp._run_depend_like_phase("gen_ebuild_env", self.pkg, self.repo.eclass_cache, env=send,
                                           extra_commands={"receive_env": receive_env})
                dump = got[0] if got else None
                if dump is None:
                    err = "no receive_env"
            else:
                out = os.path.join(self.root, "out.txt")
                if os.path.exists(out):
                    os.unlink(out)
                full = self.processor.expected_ebuild_env(self.pkg, {}, depends=True)
                full.update({"T": self.T, "PKGCORE_EMPTYDIR": self.E, "PATH": os.environ["PATH"], "VTOUT": out})
                full.update(send)
                ok = ebp.run_phase("pretend", full, tmpdir=(self.T if path == "c" else None), sandbox=False)
                if not ok:
                    err = "run_phase returned %r" % (ok,)
                elif not os.path.exists(out):
                    err = "phase succeeded but pkg_pretend wrote no dump"
                else:
                    with open(out, "rb") as f:
                        dump = f.read()
        except BaseException as e:  # KeyboardInterrupt from SIGINT notices included
            if isinstance(e, (SystemExit,)):
                raise
            err = "%s: %s" % (type(e).__name__, str(e)[:300])
        lens = None
        if tr is not None:
            for _, _, k, p in tr.events[mark:]:
                if k == "W" and isinstance(p, str):
                    head, nl, rest = p.partition("\n")
                    words = head.split()
                    if nl and words and words[0] in ("gen_ebuild_env", "gen_metadata") and words[-1].isdigit():
                        lens = (int(words[-1]), len(rest.encode("utf-8")), len(rest))
                    elif nl and head.startswith("start_receiving_env bytes ") and words[-1].isdigit():
                        lens = (int(words[-1]), len(rest.encode("utf-8")), len(rest))
        return dump, err, lens

    def followup(self):
        """After a transfer: alive -> yep!, and one more successful request on the same processor."""
        ebp = self.ebp
        if ebp is None:
            return "processor gone"
        try:
            if not ebp.is_responsive:
                return "not responsive"
            got = []

            def receive_env(self_, line):
                got.append(self_.ebd_read.read(int(line.strip())))

            ebp._run_depend_like_phase("gen_ebuild_env", self.pkg, self.repo.eclass_cache, env={"VT_PING": "pong"},
                                       extra_commands={"receive_env": receive_env})
            if not got or b'VT_PING="pong"' not in got[0]:
                return "follow-up request did not return the expected dump"
        except BaseException as e:
            if isinstance(e, SystemExit):
                raise
            return "%s: %s" % (type(e).__name__, str(e)[:200])
        return None


def value_class(v):
    vals = v if isinstance(v, list) else [v]
    cls = set()
    for s in vals:
        if any(ord(c) > 127 for c in s):
            cls.add("nonascii")
        if "'" in s:
            cls.add("squote")
        if "\\" in s:
            cls.add("backslash")
        if '"' in s:
            cls.add("dquote")
        if "$" in s or "`" in s:
            cls.add("expansion")
        if "\n" in s or "\t" in s:
            cls.add("control")
    if isinstance(v, list):
        cls.add("list")
    return cls


def mech(classes):
    """Coarse grouping of a value/env class set (for reporting only)."""
    if "nonascii" in classes:
        return "nonascii"
    if "list" in classes and classes & {"dquote", "backslash", "expansion"}:
        return "list-element-special"
    if "squote" in classes and "backslash" in classes:
        return "squote+backslash"
    return "+".join(sorted(classes)) or "plain"


def judge(ctx, sess, path, env, nonexp, dump, err, lens):
    scratch = os.environ["VT_SCRATCH"]
    wit = {"path": path, "env": env, "nonexported": nonexp}
    classes = set()
    for v in env.values():
        classes |= value_class(v)
    tag = "+".join(sorted(classes)) or "plain"
    ctx.count("transfers:" + path)
    ctx.count("class:" + tag)
    if classes - {"list"}:
        ctx.nontrivial((path, sorted(env.items(), key=lambda kv: kv[0]).__repr__(), tuple(nonexp)))
    # announced length vs bytes written
    if lens is not None:
        ctx.evaluated()
        ctx.count("length_checks")
        if lens[0] != lens[1]:
            ctx.violation("announced-length-not-bytes", dict(wit, announced=lens[0], bytes=lens[1], chars=lens[2],
                                                             rule="chars" if lens[0] == lens[2] else "other"))
    ctx.evaluated()
    if err is not None:
        ctx.violation("transfer-failed", dict(wit, error=err, rule=mech(classes)))
        sess.drop()
        return
    dec = decode(dump, list(env), scratch)
    for name, sent in env.items():
        kind, attrs, got = dec[name]
        ctx.evaluated()
        vtag = mech(value_class(sent))
        if kind == "U":
            ctx.violation("variable-missing", dict(wit, name=name, rule=vtag))
            continue
        if isinstance(sent, list):
            want = [s.encode("utf-8") for s in sent]
            if kind != "A" or list(got) != want:
                ctx.violation("value-differs", dict(wit, name=name, sent=sent, got=[g.decode("utf-8", "replace") for g in got] if kind == "A" else got.decode("utf-8", "replace"), got_kind=kind, rule=vtag))
        else:
            if kind != "S" or got != sent.encode("utf-8"):
                ctx.violation("value-differs", dict(wit, name=name, sent=sent,
                                                    got=(got.decode("utf-8", "replace") if kind == "S" else [g.decode("utf-8", "replace") for g in got]), got_kind=kind, rule=vtag))
        exported = "x" in attrs
        ctx.evaluated()
        if exported != (name not in nonexp):
            ctx.violation("export-attribute-wrong", dict(wit, name=name, exported=exported, rule="nonexported" if name in nonexp else "exported"))
    fu = sess.followup()
    ctx.evaluated()
    if fu is None:
        ctx.count("followup_requests_ok")
    else:
        ctx.violation("channel-desynchronised-after-transfer", dict(wit, followup=fu, rule=mech(classes)))
        sess.drop()


def one(ctx, sess, path, env, nonexp):
    sess.ebd.take_stalls()
    dump, err, lens = sess.transfer(path, env, nonexp)
    stalls = sess.ebd.take_stalls()
    if stalls:
        ctx.count("daemon_stalls_observed")
        err = (err or "") + " [both sides blocked reading: %r]" % (stalls[0]["last_events"][-3:],)
    judge(ctx, sess, path, env, nonexp, dump, err, lens)
    if ctx.want_sample():
        short = {k: (v if not k.startswith("VT_bulk") else "%s... (%d chars)" % (v[:40], len(v))) for k, v in env.items()}
        ctx.sample({"path": path, "env": short, "nonexported": nonexp, "ok": err is None})


def run(ctx):
    sess = Session(ctx)
    rng = ctx.rng
    na, nb = ctx.budget(40, 400), ctx.budget(5, 40)
    plan = ["a"] * na + ["b"] * nb + ["c"] * nb
    rng.shuffle(plan)
    # make sure each path is exercised early even if the soft deadline cuts the run short
    plan = ["a", "b", "c"] + plan
    # payloads larger than one pipe buffer: once per path up front, then about one transfer in eight
    bulk_at = {3: "b", 4: "a", 5: "c"}
    plan[3:3] = ["b", "a", "c"]
    try:
        for env, nonexp in DIRECTED_ENVS:
            for path in ("a", "b", "c"):
                if not ctx.out_of_time(45):
                    ctx.count("directed_transfers")
                    one(ctx, sess, path, {k: (list(v) if isinstance(v, list) else v) for k, v in env.items()}, list(nonexp))
        for i, path in enumerate(plan):
            if ctx.out_of_time(45):
                break
            bulk = i in bulk_at or (i > 5 and rng.random() < 0.12)
            env, nonexp = gen_env(rng, bulk)
            if bulk:
                ctx.count("bulk_transfers:" + path)
            one(ctx, sess, path, env, nonexp)
    finally:
        sess.drop()
        sess.ebd.shutdown_all()


def classify(w):
    return None


def replay(ctx, w):
    sess = Session(ctx)
    try:
        one(ctx, sess, w["path"], w["env"], w.get("nonexported", []))
    finally:
        sess.drop()
        sess.ebd.shutdown_all()
