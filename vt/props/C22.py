"""C22 Contents sets behave like maps keyed by normalised path (model-based history checking)."""

import json

from ..ref import c22_pathmap as ref

ID = "C22"
LEVEL = "exploration"
TECHNIQUE = "model-based history checking against a dict keyed by normalised path"
RULE = ("random histories (<=25 operations) over a world of 3 contents sets (contentsSet / OrderedContentsSet, entries of all "
        "five types drawn from a small component alphabet so that keys collide, every path given in a random unnormalised "
        "spelling: '//', '/./', trailing '/', 'x/../'); operations: add, update, remove/del/discard/in/[] with entry and "
        "string arguments, union/intersection/difference/symmetric_difference (+_update), issubset/issuperset/isdisjoint "
        "with another contents set or an iterator/generator of entries (with duplicate and respelled paths), change_offset/insert_offset, add_missing_directories. After every operation the "
        "returned value/exception and the full content (key -> type, identity, symlink target) of every set in the world "
        "are compared with a dict model. A history is non-trivial when at least one judged operation hit an existing key "
        "through a non-canonical spelling, combined two sets with partially overlapping keys, relocated a non-empty set, "
        "or completed a directory chain of depth >= 2; distinct = distinct (initial sets, operation list).")
ASSUMPTIONS = [
    "paths are absolute; spellings starting with exactly two slashes (implementation-defined in POSIX) are not generated",
    "binary set operations are judged with another contents set and with a one-shot iterator/generator of entries (meaning "
    "the set of its normalised paths, duplicates and respelled duplicates included; the upstream tests drive iter(set)); "
    "issuperset is additionally judged with a list/tuple/iterator/generator of entries and path strings in any spelling "
    "(each element is an entry or a path string looked up in the set); for the other operations plain lists/tuples of "
    "entries or of path strings are executed but recorded as unspecified (the unchanged tree itself disagrees there)",
    "which operand's entry survives union/intersection is not prescribed; any operand's entry is accepted",
    "add/update are last-writer-wins on the path key (map assignment)",
    "mutating operations are only issued on mutable sets; aliasing (s.op_update(s)) is not 'another set' and is skipped",
    "change_offset is judged when the old offset is normalised (trailing slashes allowed) and every entry lies at or under it",
    "iteration order (OrderedContentsSet), result container class, equality and the type filters are not part of the statement",
]
SHARDS = {"quick": 4, "thorough": 16}
TIMEOUT = {"quick": 240, "thorough": 1800}
MIN_EVALS = 20000
REQUIRED_COUNTERS = ("op:remove", "op:discard", "op:getitem", "op:contains", "op:union", "op:intersection",
                     "op:difference", "op:symmetric_difference", "op:difference_update", "op:intersection_update",
                     "op:symmetric_difference_update", "op:issubset", "op:issuperset", "op:isdisjoint",
                     "op:change_offset", "op:insert_offset", "op:add_missing", "relocated_entries", "dirs_completed",
                     "hit_via_noncanonical_spelling", "iterator_arg_with_duplicate_keys",
                     "iterator_arg_with_duplicate_keys:symmetric_difference",
                     "iterator_arg_with_duplicate_keys:symmetric_difference_update",
                     "issuperset_arg_longer_than_set_all_contained:list", "issuperset_arg_longer_than_set_all_contained:tuple",
                     "issuperset_arg_longer_than_set_all_contained:iter", "issuperset_arg_longer_than_set_all_contained:gen")

NSETS = 3
COMPONENTS = ["a", "b", "c", "usr", "lib", "x y", "été", ".hid", "a.b", "..."]
PURE_BIN = ("union", "intersection", "difference", "symmetric_difference")
UPD_BIN = ("difference_update", "intersection_update", "symmetric_difference_update")
PRED_BIN = ("issubset", "issuperset", "isdisjoint")
KEY_OPS = ("remove", "delitem", "discard", "contains", "getitem")


# --------------------------------------------------------------------------- generators
def gen_key(rng, prefix="/"):
    depth = rng.choice([1, 1, 2, 2, 2, 3, 3, 4])
    comps = [rng.choice(COMPONENTS[: rng.choice([3, 5, len(COMPONENTS)])]) for _ in range(depth)]
    base = "" if prefix == "/" else prefix
    if rng.random() < (0.08 if prefix != "/" else 0.015):
        return prefix
    return base + "/" + "/".join(comps)


def spell(rng, key, plain=0.35):
    """A random spelling whose lexical normalisation is `key`."""
    if rng.random() < plain:
        return key
    comps = key.split("/")[1:] if key != "/" else []
    s = rng.choice(["/", "/", "/", "///", "/./", "/../", "/.//"])
    for i, c in enumerate(comps):
        if i:
            s += rng.choice(["/", "/", "//", "/./", "/zz/../", "///", "/././/"])
        s += c
    s += rng.choice(["", "", "/", "//", "/.", "/./", "/q/..", "/q/../"]) if comps else rng.choice(["", ".", "./"])
    try:
        if ref.norm(s) == key:
            return s
    except ref.Unspecified:
        pass
    return key


class Gen:
    def __init__(self, rng):
        self.rng = rng
        self.serial = 0

    def entry(self, key=None, prefix="/", typ=None):
        rng = self.rng
        self.serial += 1
        if key is None:
            key = gen_key(rng, prefix)
        t = typ or rng.choice(["file", "file", "dir", "dir", "sym", "dev", "fifo"])
        e = {"t": t, "p": spell(rng, key), "id": self.serial}
        if t == "sym":
            e["tgt"] = rng.choice(["a", "../b", "/usr/lib", "x y"])
        return e


# --------------------------------------------------------------------------- real objects
def make_entry(fs, e):
    t = e["t"]
    if t == "file":
        return fs.fsFile(e["p"], strict=False, mtime=e["id"], mode=0o644)
    if t == "dir":
        return fs.fsDir(e["p"], strict=False, mtime=e["id"], mode=0o755)
    if t == "sym":
        return fs.fsLink(e["p"], e["tgt"], strict=False, mtime=e["id"])
    if t == "dev":
        return fs.fsDev(e["p"], strict=False, major=1, minor=e["id"] % 200, mtime=e["id"])
    if t == "fifo":
        return fs.fsFifo(e["p"], strict=False, mtime=e["id"])
    raise ValueError(t)


def entry_type(o):
    for name, flag in (("file", "is_reg"), ("dir", "is_dir"), ("sym", "is_sym"), ("dev", "is_dev"), ("fifo", "is_fifo")):
        if getattr(o, flag, False):
            return name
    return "?"


def entry_val(o):
    return (entry_type(o), o.mtime, getattr(o, "target", None) if entry_type(o) == "sym" else None)


def model_val(e):
    return (e["t"], e["id"], e.get("tgt"))


def view(cs):
    """Content of a real set as observed through iteration: (dict key -> value, problems)."""
    d = {}
    problems = []
    n = 0
    for o in cs:
        n += 1
        loc = o.location
        if loc in d:
            problems.append("duplicate location %r in iteration" % (loc,))
        d[loc] = entry_val(o)
    if len(cs) != n:
        problems.append("len()=%d but iteration yields %d" % (len(cs), n))
    return d, problems


def val_ok(exp, got):
    """exp ident None = wildcard (directory created by the implementation with the current time)."""
    return exp[0] == got[0] and exp[2] == got[2] and (exp[1] is None or exp[1] == got[1])


def diff_state(model, got):
    """model: dict key -> value; got: dict key -> value."""
    extra = sorted(k for k in got if k not in model)
    missing = sorted(k for k in model if k not in got)
    wrong = sorted(k for k in got if k in model and not val_ok(model[k], got[k]))
    if extra or missing or wrong:
        return {"extra": extra, "missing": missing,
                "wrong_value": [[k, list(model[k]), list(got[k])] for k in wrong]}
    return None


# --------------------------------------------------------------------------- the world
class Fail(Exception):
    def __init__(self, kind, detail):
        Exception.__init__(self, kind)
        self.kind = kind
        self.detail = detail


class World:
    def __init__(self, sets_spec, ctx=None):
        from pkgcore.fs import contents, fs

        self.fs = fs
        self.contents = contents
        self.ctx = ctx
        self.boundary = 0
        self.pending_resync = None
        self.impl = []
        self.model = []
        for spec in sets_spec:
            ents = [make_entry(fs, e) for e in spec["init"]]
            if spec["cls"] == "ordered":
                cs = contents.OrderedContentsSet(ents, mutable=spec["mutable"])
            else:
                cs = contents.contentsSet(ents, mutable=spec["mutable"])
            m = ref.PathMap()
            for e in spec["init"]:
                m.put(ref.norm(e["p"]), model_val(e))
            self.impl.append(cs)
            self.model.append(m)

    def count(self, name, n=1):
        if self.ctx is not None:
            self.ctx.count(name, n)

    def check_states(self, what):
        for i, (cs, m) in enumerate(zip(self.impl, self.model)):
            got, problems = view(cs)
            if problems:
                raise Fail("iteration-inconsistent", {"set": i, "problems": problems, "after": what})
            for k in got:
                try:
                    nk = ref.norm(k)
                except ref.Unspecified:
                    nk = None
                if nk != k:
                    raise Fail("key-not-normalised", {"set": i, "key": k, "after": what})
            d = diff_state(m.d, got)
            if d:
                d["set"] = i
                d["after"] = what
                raise Fail("state-mismatch", d)

    def try_resync(self, fail):
        """After a discard that left exactly its key behind (and nothing else differs) put the key back into the
        model so that the rest of the history can still be judged.  Returns True when the model was repaired."""
        pr = self.pending_resync
        d = fail.detail if isinstance(fail.detail, dict) else {}
        if pr and fail.kind == "state-mismatch" and d.get("set") == pr[0] and d.get("extra") == [pr[1]] \
                and not d.get("missing") and not d.get("wrong_value"):
            self.model[pr[0]].put(pr[1], pr[2])
            try:
                self.check_states("resync")
            except Fail:
                return False
            return True
        return False

    def is_mutable(self, i):
        return bool(getattr(self.impl[i], "mutable", True))

    # argument materialisation
    def arg(self, a):
        if a["k"] == "str":
            return a["p"], ref.norm(a["p"])
        o = make_entry(self.fs, a["e"])
        return o, ref.norm(a["e"]["p"])

    def execute(self, op):
        """Run one operation on the real sets and on the model; raise Fail on disagreement.
        Returns "judged" | "unspecified" | "skipped"."""
        name = op["op"]
        t = op["t"]
        cs, m = self.impl[t], self.model[t]
        self.pending_resync = None
        mutating = name in ("add", "update", "remove", "delitem", "discard", "add_missing") or name in UPD_BIN
        if mutating and not self.is_mutable(t):
            self.count("skipped:frozen-target")
            return "skipped"

        if name == "add":
            o = make_entry(self.fs, op["e"])
            key = ref.norm(op["e"]["p"])
            if o.location != key:
                raise Fail("entry-location-not-normalised", {"given": op["e"]["p"], "impl": o.location, "expected": key})
            if m.has(key) and op["e"]["p"] != key:
                self.boundary += 1
                self.count("hit_via_noncanonical_spelling")
            self._call(lambda: cs.add(o), ("ok", None), name)
            m.put(key, model_val(op["e"]))
        elif name == "update":
            src = op["src"]
            if src["k"] == "set":
                if src["i"] == t:
                    self.count("skipped:aliasing")
                    return "skipped"
                other = self.impl[src["i"]]
                pairs = list(self.model[src["i"]].d.items())
            else:
                other = [make_entry(self.fs, e) for e in src["es"]]
                if src.get("iter"):
                    other = iter(other)
                pairs = [(ref.norm(e["p"]), model_val(e)) for e in src["es"]]
            self._call(lambda: cs.update(other), ("ok", None), name)
            for k, v in pairs:
                m.put(k, v)
        elif name in KEY_OPS:
            a, key = self.arg(op["arg"])
            present = m.has(key)
            spelled = op["arg"]["p"] if op["arg"]["k"] == "str" else op["arg"]["e"]["p"]
            if present and spelled != key:
                self.boundary += 1
                self.count("hit_via_noncanonical_spelling")
            self.count("arg:" + op["arg"]["k"] + (":present" if present else ":absent"))
            if name == "remove":
                self._call(lambda: cs.remove(a), ("ok", None) if present else ("raise", "KeyError"), name)
                m.discard(key)
            elif name == "delitem":
                def f():
                    del cs[a]
                self._call(f, ("ok", None) if present else ("raise", "KeyError"), name)
                m.discard(key)
            elif name == "discard":
                if present:
                    self.pending_resync = (t, key, m.get(key))
                self._call(lambda: cs.discard(a), ("ok", None), name)
                m.discard(key)
            elif name == "contains":
                self._call(lambda: a in cs, ("ok", present), name)
            elif name == "getitem":
                exp = ("ok", list(m.get(key))) if present else ("raise", "KeyError")
                self._call(lambda: list(entry_val(cs[a])), exp, name)
        elif name in PURE_BIN or name in UPD_BIN or name in PRED_BIN:
            if "olist" in op:
                return self._unspecified_binary(op)
            if "omixed" in op:
                # issuperset(<list/tuple/iterator/generator of entries and path strings>): every element is an entry or
                # a path string looked up in the set, so the answer is "all normalised paths are keys of the set"
                assert name == "issuperset"
                form = op["omixed"]["form"]
                objs, keys = [], set()
                for it in op["omixed"]["items"]:
                    a, key = self.arg(it)
                    objs.append(a)
                    keys.add(key)
                other = {"list": list, "tuple": tuple, "iter": iter, "gen": lambda o: (x for x in o)}[form](objs)
                exp = keys <= m.keys()
                self.count("issuperset_plain_iterable:" + form)
                if len(objs) > len(m.d) and exp:
                    self.boundary += 1
                    self.count("issuperset_arg_longer_than_set_all_contained")
                    self.count("issuperset_arg_longer_than_set_all_contained:" + form)
                self._call(lambda: cs.issuperset(other), ("ok", exp), name, truthy=True)
                self.check_states(name)
                self.count("op:" + name)
                return "judged"
            extra_vals = {}
            if "oiter" in op:
                # a one-shot iterator / generator of entries stands for "the set of its normalised paths"
                es = op["oiter"]["es"]
                objs = [make_entry(self.fs, e) for e in es]
                other = iter(objs) if op["oiter"]["form"] == "iter" else (x for x in objs)
                om = ref.PathMap()
                for e in es:
                    k = ref.norm(e["p"])
                    om.put(k, model_val(e))
                    extra_vals.setdefault(k, []).append(model_val(e))
                self.count("iterator_arg")
                if len(om.d) < len(es):
                    self.boundary += 1
                    self.count("iterator_arg_with_duplicate_keys")
                    self.count("iterator_arg_with_duplicate_keys:" + name)
            else:
                o = op["o"]
                other, om = self.impl[o], self.model[o]
                if name in UPD_BIN and o == t:
                    self.count("skipped:aliasing")
                    return "skipped"
            ks, ko = m.keys(), om.keys()
            if ks & ko and (ks - ko or ko - ks):
                self.boundary += 1
                self.count("partially_overlapping_operands")
            if name in PRED_BIN:
                self._call(lambda: getattr(cs, name)(other), ("ok", getattr(m, name)(om)), name, truthy=True)
            else:
                adm = getattr(m, name.replace("_update", ""))(om)
                for k in adm:
                    if k in extra_vals:  # any of the argument's entries for that path may be the survivor
                        adm[k] = list(adm[k]) + extra_vals[k]
                if name in PURE_BIN:
                    res = self._call(lambda: getattr(cs, name)(other), None, name)
                else:
                    self._call(lambda: getattr(cs, name)(other), ("ok", None), name)
                    res = cs
                got, problems = view(res)
                if problems:
                    raise Fail("iteration-inconsistent", {"result_of": name, "problems": problems})
                bad = self._check_admissible(adm, got)
                if bad:
                    bad["result_of"] = name
                    raise Fail("result-mismatch", bad)
                newm = ref.PathMap((k, got[k]) for k in got)
                if name in UPD_BIN:
                    self.model[t] = newm
                elif op.get("store") is not None:
                    self.impl[op["store"]] = res
                    self.model[op["store"]] = newm
        elif name in ("change_offset", "insert_offset"):
            old = op["old"] if name == "change_offset" else "/"
            new = op["new"]
            try:
                exp = m.relocate(old, new)
            except ref.Unspecified as e:
                if self.ctx is not None:
                    self.ctx.skip_unspecified("change_offset: " + str(e))
                try:
                    cs.change_offset(old, new)
                except Exception:
                    pass
                self._after_unspecified()
                return "unspecified"
            if name == "change_offset":
                res = self._call(lambda: cs.change_offset(old, new), None, name)
            else:
                res = self._call(lambda: cs.insert_offset(new), None, name)
            got, problems = view(res)
            if problems:
                raise Fail("iteration-inconsistent", {"result_of": name, "problems": problems})
            d = diff_state(exp, got)
            if d:
                d["result_of"] = name
                raise Fail("result-mismatch", d)
            if exp:
                self.boundary += 1
                self.count("relocated_entries", len(exp))
                if old.rstrip("/") not in ("", ):
                    self.count("relocated_from_nonroot", len(exp))
            if op.get("store") is not None:
                self.impl[op["store"]] = res
                self.model[op["store"]] = ref.PathMap(got.items())
        elif name == "add_missing":
            miss = m.missing_directories()
            mt = op.get("mtime")
            if mt is None:
                self._call(lambda: cs.add_missing_directories(), ("ok", None), name)
            else:
                self._call(lambda: cs.add_missing_directories(mtime=mt), ("ok", None), name)
            for k in miss:
                m.put(k, ("dir", mt, None))
            if miss:
                self.count("dirs_completed", len(miss))
                if any(k.count("/") >= 2 for k in miss):
                    self.boundary += 1
            # state check below; then pin the identities the implementation chose for wildcard entries
            self.check_states(name)
            if mt is None and miss:
                got, _ = view(cs)
                for k in miss:
                    m.put(k, got[k])
            self.count("op:" + name)
            return "judged"
        else:
            raise ValueError("unknown op %r" % (name,))
        self.check_states(name)
        self.count("op:" + name)
        return "judged"

    def _after_unspecified(self):
        try:
            self.check_states("unspecified")
        except Fail:
            raise Fail("diverged-after-unspecified", {})

    def _unspecified_binary(self, op):
        name = op["op"]
        cs = self.impl[op["t"]]
        src = self.impl[op["olist"]["i"]]
        form = op["olist"]["form"]
        if form == "list_entries":
            other = list(src)
        elif form in ("iter_entries", "tuple_entries"):
            other = iter(list(src)) if form == "iter_entries" else tuple(src)
        else:
            other = [o.location for o in src]
        if self.ctx is not None:
            self.ctx.skip_unspecified("binary operation with a plain %s" % form)
        if name in UPD_BIN:
            return "unspecified"  # would change state in a way the statement does not define: not executed
        try:
            getattr(cs, name)(other)
            self.count("unspecified_list_arg:ok")
        except Exception as e:
            self.count("unspecified_list_arg:" + type(e).__name__)
        self._after_unspecified()
        return "unspecified"

    def _check_admissible(self, adm, got):
        extra = sorted(k for k in got if k not in adm)
        missing = sorted(k for k in adm if k not in got)
        wrong = sorted(k for k in got if k in adm and not any(val_ok(v, got[k]) for v in adm[k]))
        if extra or missing or wrong:
            return {"extra": extra, "missing": missing,
                    "wrong_value": [[k, [list(v) for v in adm[k]], list(got[k])] for k in wrong]}
        return None

    def _call(self, fn, expected, name, truthy=False):
        """expected: ("ok", value) | ("raise", exc name) | None (any non-raising result; returned)."""
        try:
            r = fn()
            out = ("ok", r)
        except Exception as e:  # noqa: BLE001 - every exception of the code under test is an observation
            out = ("raise", type(e).__name__)
            r = None
            detail = repr(e)[:200]
        if expected is None:
            if out[0] == "raise":
                raise Fail("unexpected-exception", {"impl": list(out), "exc": detail, "expected": "a result set"})
            return r
        if truthy and out[0] == "ok":
            out = ("ok", bool(out[1]))
        if expected[0] == "ok" and expected[1] is None and out[0] == "ok":
            return r  # return value of a mutator is not prescribed
        if tuple(out) != tuple(expected):
            d = {"impl": list(out), "expected": list(expected)}
            if out[0] == "raise":
                d["exc"] = detail
            raise Fail("return-mismatch", d)
        return r


# --------------------------------------------------------------------------- histories
def gen_sets(rng, g, prefix):
    specs = []
    for _ in range(NSETS):
        n = rng.choice([0, 1, 2, 3, 4, 5, 6, 8, 10])
        specs.append({"cls": rng.choice(["plain", "plain", "ordered"]), "mutable": rng.random() < 0.85,
                      "init": [g.entry(prefix=prefix) for _ in range(n)]})
    return specs


def pick_key(rng, world, t, prefix):
    keys = sorted(world.model[t].d)
    r = rng.random()
    if keys and r < 0.62:
        return rng.choice(keys)
    if r < 0.75:
        # key present in another set of the world
        allk = sorted(set().union(*[m.d.keys() for m in world.model]))
        if allk:
            return rng.choice(allk)
    if keys and r < 0.85:
        # ancestor / descendant of an existing key
        k = rng.choice(keys)
        anc = ref.ancestors(k)
        if anc and rng.random() < 0.5:
            return rng.choice(anc)
        return (k if k != "/" else "") + "/" + rng.choice(COMPONENTS[:3])
    return gen_key(rng, prefix)


def gen_mixed_arg(rng, g, world, t, prefix):
    """Elements (entries and path strings) for issuperset: mostly keys of the target itself, each named one to three
    times (other spelling, entry + path string, plain duplicate), so that the argument is often longer than the set
    although everything is contained; sometimes a foreign key is mixed in."""
    keys = sorted(world.model[t].d)
    chosen = rng.sample(keys, rng.randrange(0, len(keys) + 1)) if keys else []
    if keys and rng.random() < 0.4:
        chosen = list(keys)
    if rng.random() < 0.25:
        chosen.append(pick_key(rng, world, t, prefix))
    style = rng.choice(["str", "entry", "mixed", "mixed"])
    items = []
    for k in chosen:
        for _ in range(rng.choice([1, 2, 2, 3])):
            kind = style if style != "mixed" else rng.choice(["str", "entry"])
            if kind == "str":
                items.append({"k": "str", "p": spell(rng, k, plain=0.25)})
            else:
                typ = world.model[t].get(k)[0] if world.model[t].has(k) and rng.random() < 0.6 else None
                items.append({"k": "entry", "e": g.entry(key=k, typ=typ)})
            if rng.random() < 0.15:
                items.append(dict(items[-1]))
    rng.shuffle(items)
    return items


def gen_iter_arg(rng, g, world, t, prefix):
    """Entries for an iterator argument: keys of the target / another set / fresh ones, every entry a new object in a
    random spelling; in most cases some path occurs twice (plain duplicate or a second spelling, same or other type)."""
    keys = []
    for src in (t, rng.randrange(NSETS)):
        ks = sorted(world.model[src].d)
        if ks:
            keys.extend(rng.sample(ks, rng.randrange(0, min(len(ks), 4) + 1)))
    for _ in range(rng.choice([0, 0, 1, 2])):
        keys.append(gen_key(rng, prefix))
    es = [g.entry(key=k) for k in keys]
    if es and rng.random() < 0.7:
        for _ in range(rng.choice([1, 1, 2])):
            e = rng.choice(es)
            if rng.random() < 0.3:
                es.append(dict(e))  # the very same entry description twice
            else:
                es.append(g.entry(key=ref.norm(e["p"]), typ=e["t"] if rng.random() < 0.6 else None))
    rng.shuffle(es)
    return es


def gen_op(rng, g, world, prefix):
    t = rng.randrange(NSETS)
    mut = [i for i in range(NSETS) if world.is_mutable(i)]
    r = rng.random()
    if r < 0.10 and mut:
        t = rng.choice(mut)
        key = pick_key(rng, world, t, prefix) if rng.random() < 0.4 else None
        return {"op": "add", "t": t, "e": g.entry(key=key, prefix=prefix)}
    if r < 0.15 and mut:
        t = rng.choice(mut)
        if rng.random() < 0.5:
            others = [i for i in range(NSETS) if i != t]
            return {"op": "update", "t": t, "src": {"k": "set", "i": rng.choice(others)}}
        es = [g.entry(key=pick_key(rng, world, t, prefix) if rng.random() < 0.4 else None, prefix=prefix)
              for _ in range(rng.randrange(0, 5))]
        return {"op": "update", "t": t, "src": {"k": "list", "es": es, "iter": rng.random() < 0.3}}
    if r < 0.50:
        name = rng.choice(KEY_OPS)
        if name in ("remove", "delitem", "discard"):
            if not mut:
                name = rng.choice(["contains", "getitem"])
            else:
                t = rng.choice(mut)
        key = pick_key(rng, world, t, prefix)
        if rng.random() < 0.55:
            arg = {"k": "str", "p": spell(rng, key)}
        else:
            typ = None
            if world.model[t].has(key) and rng.random() < 0.6:
                typ = world.model[t].get(key)[0]
            arg = {"k": "entry", "e": g.entry(key=key, typ=typ)}
        return {"op": name, "t": t, "arg": arg}
    if r < 0.86:
        name = rng.choice(PURE_BIN + UPD_BIN + PRED_BIN)
        if name in UPD_BIN:
            if not mut:
                name = rng.choice(PURE_BIN)
            else:
                t = rng.choice(mut)
        others = [i for i in range(NSETS) if i != t]
        if name == "issuperset" and rng.random() < 0.45:
            return {"op": name, "t": t, "omixed": {"form": rng.choice(["list", "tuple", "iter", "gen"]),
                                                    "items": gen_mixed_arg(rng, g, world, t, prefix)}}
        if rng.random() < 0.06:
            return {"op": name, "t": t,
                    "olist": {"i": rng.choice(others), "form": rng.choice(["list_entries", "tuple_entries", "list_paths"])}}
        if rng.random() < 0.18:
            op = {"op": name, "t": t, "oiter": {"form": rng.choice(["iter", "gen"]), "es": gen_iter_arg(rng, g, world, t, prefix)}}
            if name in PURE_BIN:
                op["store"] = rng.choice([None, 0, 1, 2])
            return op
        o = rng.choice(others) if (name in UPD_BIN or rng.random() < 0.93) else t
        op = {"op": name, "t": t, "o": o}
        if name in PURE_BIN:
            op["store"] = rng.choice([None, 0, 1, 2])
        return op
    if r < 0.94:
        new = spell(rng, rng.choice(["/", "/n", "/n/m", "/usr", "/a", "/a/b", "/x y/été"]))
        store = rng.choice([None, 0, 1, 2])
        if rng.random() < 0.3:
            return {"op": "insert_offset", "t": t, "new": new, "store": store}
        keys = sorted(world.model[t].d)
        rr = rng.random()
        if keys and rr < 0.8:
            # an ancestor-or-self common to all keys: the precondition holds
            common = keys[0].split("/")
            for k in keys[1:]:
                kk = k.split("/")
                j = 0
                while j < len(common) and j < len(kk) and common[j] == kk[j]:
                    j += 1
                common = common[:j]
            depth = rng.randrange(1, len(common) + 1)
            old = "/".join(common[:depth]) or "/"
        elif rr < 0.9:
            old = prefix
        else:
            old = rng.choice(keys) if keys else "/a"
        if rng.random() < 0.08:
            old = spell(rng, old, plain=0.0)
        elif old != "/":
            old += rng.choice(["", "", "/", "//"])
        return {"op": "change_offset", "t": t, "old": old, "new": new, "store": store}
    if mut:
        t = rng.choice(mut)
        g.serial += 1
        return {"op": "add_missing", "t": t, "mtime": g.serial if rng.random() < 0.7 else None}
    return {"op": "contains", "t": t, "arg": {"k": "str", "p": spell(rng, pick_key(rng, world, t, prefix))}}


def run_history(sets_spec, ops, ctx=None):
    """Execute materialised ops; return the list of failure descriptions (empty = history agrees with the model)."""
    world = World(sets_spec, ctx=None)
    fails = []
    try:
        world.check_states("construction")
    except Fail as f:
        return [{"step": -1, "kind": f.kind, "detail": f.detail, "op": {"op": "construct"}}]
    for i, op in enumerate(ops):
        try:
            world.execute(op)
        except Fail as f:
            if f.kind == "diverged-after-unspecified":
                break
            fails.append({"step": i, "kind": f.kind, "detail": f.detail, "op": op})
            if not world.try_resync(f):
                break
    return fails


def signature(fail):
    op = fail["op"]
    a = op.get("arg", {}).get("k") or ("set" if "o" in op else "iterator" if "oiter" in op else
                                       "plain-iterable" if "omixed" in op else "")
    return (fail["kind"], op["op"], a)


def _same_failure(fails, sig, nops):
    for f in fails:
        if f["step"] == nops - 1 and signature(f) == sig:
            return f
    return None


def shrink(sets_spec, ops, fail, budget=120):
    """Greedy removal of operations / initial entries keeping the same failure signature at the last operation."""
    sig = signature(fail)
    ops = ops[: fail["step"] + 1]
    tries = 0
    changed = True
    while changed and tries < budget:
        changed = False
        for i in range(len(ops) - 2, -1, -1):
            if i >= len(ops) - 1:
                continue
            cand = ops[:i] + ops[i + 1:]
            tries += 1
            f = _same_failure(run_history(sets_spec, cand), sig, len(cand))
            if f:
                ops, fail, changed = cand, f, True
            if tries >= budget:
                break
        for si in range(len(sets_spec)):
            j = len(sets_spec[si]["init"]) - 1
            while j >= 0 and tries < budget:
                spec2 = [dict(s, init=list(s["init"])) for s in sets_spec]
                del spec2[si]["init"][j]
                tries += 1
                f = _same_failure(run_history(spec2, ops), sig, len(ops))
                if f:
                    sets_spec, fail, changed = spec2, f, True
                j -= 1
    return sets_spec, ops, fail


def make_witness(sets_spec, ops, fail):
    op = fail["op"]
    a = op.get("arg", {}).get("k") or ("set" if "o" in op else "iterator" if "oiter" in op else
                                       "plain-iterable" if "omixed" in op else "")
    return {"sets": sets_spec, "ops": ops[: fail["step"] + 1], "step": fail["step"], "failed_op": op,
            "detail": fail["detail"], "kind": fail["kind"], "rule": op["op"] + ((":" + a) if a else "")}


def report(ctx, sets_spec, ops, fail, shrink_left):
    w = make_witness(sets_spec, ops, fail)
    slot = "known" if classify(w) else "new"
    if fail["step"] >= 0 and shrink_left[slot] > 0:
        shrink_left[slot] -= 1
        try:
            spec2, ops2, fail2 = shrink(sets_spec, ops, fail)
            w2 = make_witness(spec2, ops2, fail2)
            if classify(w2) == classify(w):
                w = w2
        except Exception as e:  # shrinking is a convenience; never lose the original witness
            ctx.note("shrink failed: %r" % (e,))
    ctx.violation(fail["kind"], w)


def one_history(ctx, g, shrink_left):
    rng = ctx.rng
    prefix = rng.choice(["/", "/", "/", "/usr", "/a/b", "/x y"])
    sets_spec = gen_sets(rng, g, prefix)
    world = World(sets_spec, ctx=ctx)
    ops = []
    fails = []
    alive = True
    try:
        world.check_states("construction")
        ctx.evaluated()
    except Fail as f:
        fails.append({"step": -1, "kind": f.kind, "detail": f.detail, "op": {"op": "construct"}})
        alive = False
    n = rng.randrange(4, 26)
    while alive and len(ops) < n:
        op = gen_op(rng, g, world, prefix)
        ops.append(op)
        try:
            st = world.execute(op)
            if st == "judged":
                ctx.evaluated()
        except Fail as f:
            if f.kind == "diverged-after-unspecified":
                ctx.count("history_ended:diverged-after-unspecified")
                break
            ctx.evaluated()
            fails.append({"step": len(ops) - 1, "kind": f.kind, "detail": f.detail, "op": op})
            if world.try_resync(f):
                ctx.count("model_resynced_after_discard_finding")
            else:
                alive = False
    ctx.count("histories")
    ctx.count("ops_generated", len(ops))
    if world.boundary:
        ctx.nontrivial(json.dumps([sets_spec, ops], sort_keys=True))
    if ctx.want_sample() and world.boundary and not fails:
        ctx.sample({"sets": [[e["p"] for e in s["init"]] for s in sets_spec], "ops": ops[:6], "n_ops": len(ops)})
    for fail in fails:
        report(ctx, sets_spec, ops, fail, shrink_left)


def run(ctx):
    g = Gen(ctx.rng)
    shrink_left = {"known": 3, "new": 25}
    n = ctx.budget(5000, 60000)
    for i in range(n):
        one_history(ctx, g, shrink_left)
        if i % 32 == 0 and ctx.out_of_time(20):
            ctx.note("stopped early by the soft deadline after %d histories" % i)
            break


# --------------------------------------------------------------------------- known mechanisms
def classify(w):
    """discard-unnormalised: discard(<string whose spelling is not normalised>) left exactly the addressed key in place
    (the implementation pops the raw string instead of the normalised path); nothing else differs."""
    op = w.get("failed_op") or {}
    d = w.get("detail") or {}
    if w.get("kind") == "state-mismatch" and op.get("op") == "discard" and op.get("arg", {}).get("k") == "str":
        p = op["arg"]["p"]
        try:
            key = ref.norm(p)
        except ref.Unspecified:
            return None
        if p != key and d.get("set") == op.get("t") and d.get("extra") == [key] and not d.get("missing") \
                and not d.get("wrong_value"):
            return "discard-unnormalised"
    return None


def replay(ctx, w):
    fails = run_history(w["sets"], w["ops"])
    ctx.evaluated()
    for fail in fails:
        ctx.violation(fail["kind"], make_witness(w["sets"], w["ops"], fail))
