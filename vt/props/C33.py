"""C33 Install helpers create exactly the image entries PMS prescribes; dosym -r links resolve to the target."""

import itertools
import os
import posixpath

from ..gen import c32_harness as hx
from ..gen import c33_requests as gen
from ..ref import c33_placement as ref

ID = "C33"
LEVEL = "exploration"
TECHNIQUE = "runtime monitoring: scripted daemon frames into the real helpers, image snapshots vs a PMS placement model"
RULE = ("scenarios = one random work tree (files, nested directories, symlinks incl. dangling ones, man pages with language "
        "codes, .mo files) + one operation object (one helper instance per helper, as in a real build) + 4-10 random requests "
        "for doins/doconfd/doenvd/doheader/dodoc/doexe/doinitd/dobin/dosbin/dolib*/doinfo/doman/domo/dohtml/dodir/keepdir/"
        "dosym/dohard with the option string the helper scripts would send for a random into/insinto/exeinto/docinto/*opts "
        "state, EAPI 0-8, fatal and nonfatal, driven through run_generic_phase -> generic_handler -> Helper.__call__ over a "
        "fake channel; after every request the image is snapshotted and compared with the PMS placement model (exact set of "
        "new entries, types, modes, owners, contents, link targets); PMS-forbidden requests must be refused.  Second "
        "part: get_relative_dosym_target on random absolute (target, link name) pairs, judged by the resolution law on "
        "strings and on a real directory tree.  Third part (every run): directed multi-step scenarios in which a later "
        "install helper (doins, dobin, dosbin, dolib.so/.a, doexe, dodoc, doinitd, doconfd, doinfo, doins -r twice, doins of "
        "symlinks twice, files over the links of an installed tree, another file over one name of a dohard pair, a source "
        "symlink over an installed regular file) targets an image path that holds a symlink or a (hard-linked) regular file (dangling "
        "or live, relative, absolute image-style, absolute into a watched scratch directory next to the image): the "
        "destination must become the requested file/symlink with the requested mode and nothing else may appear in "
        "or outside the image.  Non-trivial: the request creates at least one image entry or is a "
        "PMS-mandated rejection (distinct by helper, rule, EAPI, arguments, destination state) / a pair whose answer "
        "needs '..' or shares a prefix.")
ASSUMPTIONS = [
    "the option string per helper is the one the helper scripts in data/lib/pkgcore/ebd/helpers build (transcribed in "
    "vt/gen/c32_harness.render); bash-side gates (banned helpers, domo/into, newins) are not reachable over the fake channel",
    "placement model vt/ref/c33_placement.py transcribes PMS 12.3.3; where PMS is silent (symlink operands outside "
    "doins EAPI>=4, multi-character man sections, dohtml directory without -r, dohtml -x, zero operands, empty "
    "directories; installing over an existing directory, a directory over a non-directory, a symlink-to-directory "
    "source over anything, dosym over an existing name) nothing is judged; a regular file or a copied symlink installed "
    "over an existing image symlink or regular file replaces it (install(1) semantics: never followed, new inode, other "
    "hard links of the old file keep their content)",
    "umask 022, process runs as root (owner options use numeric ids)",
    "option strings that force the external `install` fallback are exercised by C32, not here",
    "real-daemon runs of the same requests are left to the daemon harness owner",
]
SHARDS = {"quick": 4, "thorough": 16}
TIMEOUT = {"quick": 240, "thorough": 1100}
MIN_EVALS = 3000
REQUIRED_COUNTERS = ("requests_judged", "verdict:ok", "verdict:reject", "relpath_pairs", "relpath_physical",
                     "overwrites_symlink", "overwrites_symlink:file-over-dangling-relative-link",
                     "overwrites_symlink:file-over-dangling-absolute-link", "overwrites_symlink:link-over-dangling-relative-link",
                     "overwrites_hardlinked_file", "overwrites_regular:link", "setid_mode_with_owner_files",
                     "directed:dirlink-trees")

P = hx.PKG_ID
QUIRKS = ("man-lang-regex", "html-no-filter-in-dirs", "default-insopts-lost")


# ---------------------------------------------------------------------------------------------------------

def reply_of(rec):
    """-> (outcome, code, text).  outcome success|failure|none.  Framing itself is C32's business."""
    if rec.exc is not None:
        return "failure", rec.exc.get("code"), str(rec.exc.get("msg") or rec.exc.get("str") or "")
    if not rec.writes:
        return "none", None, ""
    first = rec.writes[0].split("\n", 1)[0]
    code, _, text = first.partition("\x07")
    return ("success" if code == "0" else "failure"), code, text


def witness(sc, history, idx, rec, exp, extra):
    w = {"eapi": sc.eapi, "umask": sc.umask, "tree": sc.tree_spec, "history": history[: idx + 1], "index": idx,
         "helper": rec.req["helper"], "args": rec.req["args"], "scope": rec.req.get("scope"),
         "nonfatal": rec.req.get("nonfatal"), "frame": rec.frame, "mode": rec.mode,
         "verdict": exp["verdict"], "model_rule": exp["rule"], "why": exp["why"],
         "writes": rec.writes, "exc": rec.exc, "pre": hx.brief_snap(rec.pre), "post": hx.brief_snap(rec.post)}
    w.update(extra)
    return w


def judge(ctx, sc, history, idx, rec):
    req = rec.req
    exp = ref.model(req, sc.tree, sc.work, rec.pre, P, umask=sc.umask)
    outcome, code, text = reply_of(rec)
    h = req["helper"]
    ctx.count("requests")
    ctx.count("helper:" + h)
    ctx.count("verdict:" + exp["verdict"])
    # no request may touch anything next to the image (a dangling absolute link in the image points there)
    ctx.evaluated()
    o0, o1 = getattr(rec, "outside_pre", {}), getattr(rec, "outside_post", {})
    if {k: ref._ident(v) for k, v in o0.items()} != {k: ref._ident(v) for k, v in o1.items()}:
        ctx.violation("wrote-outside-image", witness(sc, history, idx, rec, exp, {
            "rule": h, "outside_before": sorted(o0), "outside_after": sorted(o1)}))
    if exp["verdict"] == "unspecified":
        ctx.skip_unspecified(exp["why"].split(":")[0][:70] if exp["rule"] != "collision" else "collision with existing entry")
        return
    if exp["verdict"] == "fail":
        ctx.count("missing-source requests (judged by C32)")
        return
    ctx.evaluated()
    ctx.count("requests_judged")
    ctx.count("outcome:%s:%s" % (exp["verdict"], outcome))
    key = (h, exp["rule"], sc.eapi, tuple(req["args"]), tuple(sorted(exp["entries"])), req.get("nonfatal"))
    if exp["verdict"] == "reject":
        ctx.nontrivial(key)
        if outcome == "success":
            ctx.violation("forbidden-request-accepted",
                          witness(sc, history, idx, rec, exp, {"rule": exp["rule"], "impl": "success", "want": "failure"}))
        return
    if exp["verdict"] == "either" and outcome != "success":
        ctx.skip_unspecified("symlink-to-directory source over an existing entry: refusing is tolerated")
        return
    # valid request (or one that may be refused but was answered with success)
    if exp["entries"]:
        ctx.nontrivial(key)
    ctx.count("rule:" + exp["rule"])
    for fp, spec in exp["entries"].items():
        if spec["type"] == "file" and spec.get("mode") is not None and spec["mode"] & 0o6000 and (
                spec.get("uid") is not None or spec.get("gid") is not None):
            ctx.count("setid_mode_with_owner_files")
            ctx.nontrivial(("setid", h, fp, oct(spec["mode"]), spec.get("uid"), spec.get("gid"), sc.eapi))
    for fp in exp.get("replaces_files", ()):
        old = rec.pre[fp]
        ctx.count("overwrites_regular:" + exp["entries"][fp]["type"])
        if old["nlink"] > 1:
            # the other names of the old inode must keep the old content (checked by the comparison: unrelated entries)
            ctx.count("overwrites_hardlinked_file")
            ctx.nontrivial(("over-hardlinked", h, fp, sc.eapi, tuple(req["args"])))
        elif exp["entries"][fp]["type"] == "link":
            ctx.nontrivial(("link-over-file", h, fp, sc.eapi, tuple(req["args"])))
    for lp in exp.get("replaces_links", ()):
        old = rec.pre[lp]
        ctx.count("overwrites_symlink")
        ctx.count("overwrites_symlink:%s-over-%s-link" % (exp["entries"][lp]["type"], _link_state(lp, old, rec.pre)))
        ctx.nontrivial(("over-link", h, lp, old["target"], exp["entries"][lp]["type"], sc.eapi))
    if outcome != "success":
        ctx.violation("valid-request-failed",
                      witness(sc, history, idx, rec, exp, {"rule": exp["rule"], "impl": outcome, "want": "success",
                                                           "reply_text": text[:200]}))
        return
    bad = ref.compare(exp, rec.pre, rec.post, rec.src_snap)
    if bad:
        w = witness(sc, history, idx, rec, exp, {"rule": exp["rule"], "bad": bad[:12],
                                                 "expected_entries": _brief_exp(exp)})
        # is the image exactly what a union of specific known wrong models predicts?  Then the witness shows those
        # mechanisms and nothing else; it is reported once per mechanism.
        expl = None
        for r in (1, 2, 3):
            for subset in itertools.combinations(QUIRKS, r):
                alt = ref.model(req, sc.tree, sc.work, rec.pre, P, quirks=subset, umask=sc.umask)
                if alt["verdict"] == "ok" and not ref.compare(alt, rec.pre, rec.post, rec.src_snap):
                    expl = subset
                    break
            if expl:
                break
        if expl:
            for q in expl:
                ctx.violation("wrong-image-entries", dict(w, explained_by_wrong_model=q,
                                                          jointly_with=[x for x in expl if x != q]))
        else:
            ctx.violation("wrong-image-entries", w)
    elif ctx.want_sample():
        ctx.sample({"eapi": sc.eapi, "frame": rec.frame, "reply": rec.writes, "entries": _brief_exp(exp)})


def _link_state(path, ent, snapshot):
    """dangling / live, judged on the image snapshot (absolute targets other than '/' never exist in these workloads)."""
    t = ent["target"]
    if t.startswith("/"):
        return "live" if ref.lexnorm(t) == "/" else "dangling-absolute"
    q = posixpath.normpath(posixpath.join(posixpath.dirname(path), t))
    if q.startswith(".."):
        return "dangling-relative"
    return "live" if (q in snapshot or q == ".") else "dangling-relative"


def _brief_exp(exp):
    out = {}
    for p, s in sorted(exp["entries"].items())[:20]:
        out[p] = {k: (oct(v) if k == "mode" and v is not None else v) for k, v in s.items()}
    return out


def run_scenario(ctx, base, eapi, tree, nreq, direct=False, fixed=None, allow_chown=True, umask=0o022):
    """fixed: list of requests to replay instead of generating."""
    rng = ctx.rng
    sc = hx.Scenario(base, eapi, tree, umask=umask)
    state = {"scope": gen.gen_scope(rng), "n": 0}
    records_seen = []

    def nxt():
        # a helper object whose install coroutine died in an earlier request is replaced (the finding is recorded by
        # the judge); otherwise every later request to that helper would only repeat the same finding
        if state["n"] >= nreq:
            return None
        state["n"] += 1
        if rng.random() < 0.25:
            state["scope"] = gen.gen_scope(rng)
        return gen.gen_request(rng, eapi, tree, state["scope"], hx.WORK, sc.post, allow_chown=allow_chown)

    class Src(hx.ListSource):
        def next(self_inner):
            hx.revive_if_reported(sc)
            return hx.ListSource.next(self_inner)

    source = Src(reqs=fixed) if fixed is not None else Src(fn=nxt)
    try:
        try:
            sc.run(source, direct=direct)
        except Exception:
            import traceback

            ctx.count("harness_errors")
            ctx.set_inconclusive("harness exception (recorded requests were judged): " + traceback.format_exc()[-1500:])
        recs = list(sc.all_records)
        for idx, rec in enumerate(recs):
            judge(ctx, sc, source.issued, idx, rec)
        if sc.revived:
            ctx.count("helpers_replaced_after_dead_coroutine", sc.revived)
        for n in sc.harness_notes:
            ctx.note(n)
        if sc.strays:
            ctx.count("stray_writes", len(sc.strays))
    finally:
        sc.cleanup()
    return records_seen


# ---------------------------------------------------------------------------------------------------------
# dosym -r path computation

COMPS = ["usr", "lib", "bin", "share", "a", "b", "vt", "..", ".", "", "lib64", "x.y"]


def rand_abs(rng, maxlen=6):
    n = rng.randrange(0, maxlen)
    comps = [rng.choice(COMPS) for _ in range(n)]
    p = "/" + "/".join(comps)
    r = rng.random()
    if r < 0.08:
        p = "/" + p
    elif r < 0.16 and not p.endswith("/"):
        p += "/"
    return p


def rand_link_name(rng):
    while True:
        n = rng.randrange(1, 6)
        comps = [rng.choice(COMPS) for _ in range(n)]
        last = rng.choice(["link", "a", "lib", "x.y"])
        p = "/".join(comps + [last])
        if rng.random() < 0.75:
            p = "/" + p
        return p


def check_relpath_pair(ctx, fn, src, name, physical_root=None):
    ctx.count("relpath_pairs")
    ctx.evaluated()
    try:
        text = fn(src, name)
    except Exception as e:
        ctx.violation("relpath-raises", {"source": src, "link_name": name, "exc": repr(e)})
        return
    want = ref.lexnorm(src)
    ok = isinstance(text, str) and ref.relative_link_resolves(name, text, src)
    linkdir = posixpath.dirname(ref.lexnorm("/" + name))
    if ".." in str(text).split("/") or (linkdir != "/" and want.startswith(linkdir.rstrip("/") + "/")):
        ctx.nontrivial((src, name))
    if not ok:
        ctx.violation("relative-link-does-not-resolve", {"source": src, "link_name": name, "impl": text,
                                                         "want_resolution": want, "rule": "lexical"})
        return
    if physical_root is not None and ".." not in name.split("/"):
        # the same on a real tree: create the link where dosym would and let the kernel resolve it
        ctx.count("relpath_physical")
        ctx.evaluated()
        lname = ref.lexnorm("/" + name)
        link = physical_root + lname
        if want == lname or want.startswith(lname + "/"):
            return  # the wanted target lies at/below the link itself: nothing a kernel could resolve
        try:
            os.makedirs(os.path.dirname(link), exist_ok=True)
        except OSError:
            return
        if os.path.lexists(link):
            return
        os.symlink(text, link)
        tgt = physical_root + (want if want != "/" else "")
        # make the wanted target exist as a directory so that resolution is fully physical
        made = False
        if not os.path.lexists(tgt):
            try:
                os.makedirs(tgt)
                made = True
            except OSError:
                pass
        try:
            real = os.path.realpath(link)
            if real != os.path.realpath(tgt):
                ctx.violation("relative-link-does-not-resolve",
                              {"source": src, "link_name": name, "impl": text, "resolved": real[len(physical_root):],
                               "want_resolution": want, "rule": "physical"})
        finally:
            os.unlink(link)
            if made:
                try:
                    os.rmdir(tgt)
                except OSError:
                    pass


def run_relpath(ctx, n, nphys):
    from pkgcore.ebuild import misc

    rng = ctx.rng
    fn = misc.get_relative_dosym_target
    root = os.path.join(os.environ.get("VT_SCRATCH", "/var/tmp"), "relroot")
    os.makedirs(root, exist_ok=True)
    fixed = [("/usr/lib/foo", "/usr/bin/foo"), ("/usr/lib/foo", "usr/bin/foo"), ("/", "/usr/bin/foo"),
             ("/usr/bin", "/usr/bin/foo"), ("/a", "/b"), ("/a/", "/b"), ("//usr/lib", "/usr/bin/x"),
             ("/usr/lib/../foo", "/usr/./bin//foo"), ("/usr/bin/foo", "/usr/bin/foo")]
    for i in range(n):
        if i < len(fixed):
            src, name = fixed[i]
        else:
            src, name = rand_abs(rng), rand_link_name(rng)
        check_relpath_pair(ctx, fn, src, name, physical_root=root if i < nphys else None)
        if i % 512 == 0 and ctx.out_of_time(20):
            break


# ---------------------------------------------------------------------------------------------------------

def run(ctx):
    rng = ctx.rng
    base = os.path.join(os.environ.get("VT_SCRATCH", "/var/tmp/c33-scratch"), "sc")
    allow_chown = hx.chown_works()
    if not allow_chown:
        ctx.note("chown not permitted here: -o/-g install options are not generated")
    run_relpath(ctx, ctx.budget(6000, 30000), ctx.budget(300, 1500))
    # directed: a later install helper hits an image path that holds a symlink (dangling/live, relative/absolute)
    for i in range(ctx.budget(26, 260)):
        want = gen.OVER_VARIANTS[(i + ctx.shard) % len(gen.OVER_VARIANTS)]
        eapi = rng.choice(gen.EAPIS if want in ("dosym-then-file", "setid-owner") else
                          gen.EAPIS[:4] if want == "hardlink-then-file" else gen.EAPIS[4:])
        tree = gen.gen_tree(rng)
        variant, script = gen.overwrite_script(rng, eapi, want)
        ctx.count("directed:" + variant.split(":")[0])
        run_scenario(ctx, base, eapi, tree, len(script), direct=(rng.random() < 0.15), fixed=script,
                     umask=rng.choice([0o022, 0o022, 0o027]))
        ctx.count("directed_scenarios")
        if ctx.out_of_time(60):
            break
    nscen = ctx.budget(90, 1000)
    for i in range(nscen):
        eapi = rng.choice(gen.EAPIS)
        tree = gen.gen_tree(rng)
        um = rng.choice([0o022] * 6 + [0o027, 0o077])
        ctx.count("umask:%03o" % um)
        run_scenario(ctx, base, eapi, tree, rng.randrange(4, 11), direct=(rng.random() < 0.15),
                     allow_chown=allow_chown, umask=um)
        ctx.count("scenarios")
        if ctx.out_of_time(30):
            ctx.note("scenario loop stopped early by the soft deadline")
            break


# ---------------------------------------------------------------------------------------------------------
# known mechanisms

DOINS_FAMILY = ("doins", "doconfd", "doenvd", "doheader")


def classify(w):
    kind = w.get("kind")
    h = w.get("helper")
    args = w.get("args") or []
    exc = w.get("exc") or {}
    text = str(w.get("reply_text") or "")
    if exc and "StopIteration" in str(exc.get("cause") or exc.get("type")):
        # a valid request dies because an earlier failed request finished the helper's install coroutine
        return "helper-dead-after-error" if kind == "valid-request-failed" else None
    if kind == "forbidden-request-accepted":
        if w.get("model_rule") == "dir-without-r" and h in DOINS_FAMILY and "-r" not in args:
            return "doins-dir-without-r-accepted"
        return None
    if kind == "valid-request-failed":
        if h == "doman" and args and args[0].startswith("-i18n=") and text == "internal failure" or (
                h == "doman" and args and args[0].startswith("-i18n=") and not exc.get("is_ipc_error", True)
                and exc.get("type") in ("TypeError", "IndexError")):
            # the option parser itself blows up on "-i18n=<lang>" (internal failure, not a command error)
            return "doman-i18n-option-crash"
        if h == "dosym" and text.startswith("missing filename target") and w.get("model_rule") in ("dosym", "dosym-relative"):
            return "dosym-dir-check-outside-image"
        if h == "dohard" and args and args[0].startswith("/") and text.startswith("failed creating link"):
            return "dohard-source-outside-image"
        if w.get("model_rule") in ("dangling-symlink-operand", "recursive-dangling-symlink") and text.startswith("cannot stat"):
            return "install-dangling-symlink-rejected"
        return None
    if kind == "wrong-image-entries":
        q = w.get("explained_by_wrong_model")
        if h == "dohard" and args and args[0].startswith("/") and (w.get("bad") or []) and all(
                b["problem"] == "not-a-hardlink-of" for b in w["bad"]):
            # a file of that name exists on the build host: it was linked instead of the image file
            return "dohard-source-outside-image"
        if q == "man-lang-regex" and h == "doman":
            return "doman-lang-detect-regex"
        if q == "html-no-filter-in-dirs" and h == "dohtml":
            return "dohtml-recursive-unfiltered"
        bad = w.get("bad") or []
        um = int(w.get("umask", 0o022))
        # defaults of the option parser shared by all install helpers are those of the helper constructed last
        # (keepdir: --diroptions=-m0755, --insoptions=""):
        #  (a) dosym/dohard chmod an existing parent directory to 0755
        if h in ("dosym", "dohard") and bad and all(
                b["problem"] == "existing-parent-changed" and b.get("got") == "0o755" for b in bad):
            return "shared-parser-defaults-leak"
        #  (b) the 0644 default of dodoc/doinfo/doman/domo/dohtml is lost: files keep the umask-derived mode
        if q == "default-insopts-lost" and um != 0o022:
            return "shared-parser-defaults-leak"
        return None
    return None


def replay(ctx, w):
    if "source" in w:
        from pkgcore.ebuild import misc

        root = os.path.join(os.environ.get("VT_SCRATCH", "/var/tmp"), "relroot-replay")
        os.makedirs(root, exist_ok=True)
        check_relpath_pair(ctx, misc.get_relative_dosym_target, w["source"], w["link_name"], physical_root=root)
        return
    base = os.path.join(os.environ.get("VT_SCRATCH", "/var/tmp/c33-scratch"), "replay")
    hist = w["history"]
    sc = hx.Scenario(base, w["eapi"], w["tree"], umask=int(w.get("umask", 0o022)))
    try:
        recs = sc.run(hx.ReviveSource(sc, reqs=[dict(r) for r in hist]), direct=(w.get("mode") == "direct"))
        idx = w.get("index", len(hist) - 1)
        for i, rec in enumerate(recs):
            if i == idx:
                judge(ctx, sc, hist, i, rec)
    finally:
        sc.cleanup()
