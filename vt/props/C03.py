"""C03 Atom syntax acceptance matches the PMS grammar for each EAPI, and accepted atoms round-trip."""

import itertools
import random

from ..gen import c03_atoms as ga
from ..ref import c03_pms_atom as ref

ID = "C03"
LEVEL = "exploration"
TECHNIQUE = "runtime monitoring of atom(s, eapi) against a PMS recogniser + round-trip laws on the accepted objects"
RULE = ("strings = (a) one grammar-generated atom per feature combination (blocker x operator x slot form x ::repo x "
        "USE-dep form, 5040 combinations, names with version-like tails) + random single edits of each, (b) every "
        "single-character delete/duplicate/insert at every position of hand-picked feature-rich atoms, (c) random atoms + "
        "single edits; every string is parsed by the real atom() under EAPI 0-9 and with no EAPI (::repo strings: no EAPI + 3 "
        "sampled EAPIs) and the accept/"
        "MalformedAtom/other-exception outcome is compared with a recogniser written from PMS 3.1/3.2/8.3; accepted atoms "
        "are rendered, re-parsed (instance caching disabled), compared for equality and for equal match vectors over a "
        "package universe derived from the atom. A case (string, EAPI) is non-trivial when the string is a mutant, or uses "
        "an EAPI-gated feature, or has a hyphen followed by a digit inside the package name; distinct = distinct (string, EAPI).")
ASSUMPTIONS = [
    "the recogniser vt/ref/c03_pms_atom.py transcribes PMS 3.1.1-3.1.5, 3.2, 8.3-8.3.4 and the EAPI feature tables",
    "PMS-silent forms are not judged for acceptance: '~' with a written revision, ::repo names that are not valid package names",
    "duplicate / contradictory USE deps ([x,-x]) are grammatical; the ':slot/subslot=' package-manager form is grammatical for EAPI>=5",
    "equality after the round trip is the atom's own == (hash consistency belongs to C02)",
]
SHARDS = {"quick": 4, "thorough": 16}
TIMEOUT = {"quick": 240, "thorough": 1800}
MIN_EVALS = 50000
REQUIRED_COUNTERS = ("impl_accepted", "impl_malformed", "ref_valid", "ref_invalid", "roundtrips", "match_vector_pairs",
                     "gated_feature_rejections_expected")

EDIT_BASES = [
    "!!>=dev-util/foo-bar-1.2a_p3-r4:2.1/a+b=[x,-y(+),!z?]",
    "=cat/pkg-1*",
    "cat/pkg::gentoo",
    "~cat/foo-1a-bar-1_rc",
    "cat/pkg:*",
    "!cat/pkg:=[-x(-)]",
    "<x11-libs/g++-01.010_alpha_p1:0::my_repo-x[a@b,x_y=]",
    "cat/foo-r1:1[x(+)?]",
    ">cat/foo--1-r01",
    "cat/pkg",
]


class Mon:
    def __init__(self, ctx):
        from pkgcore.ebuild import atom as atom_mod
        from pkgcore.ebuild import errors

        self.ctx = ctx
        self.atom = atom_mod.atom
        self.Malformed = errors.MalformedAtom
        self._pkgs = {}

    # -- the real parser ---------------------------------------------------------------------------
    def impl(self, s, eapi, fresh=False):
        kw = {}
        if eapi is not None:
            kw["eapi"] = eapi
        if fresh:
            kw["disable_inst_caching"] = True
        try:
            return "accepted", self.atom(s, **kw)
        except self.Malformed:
            return "malformed", None
        except Exception as e:  # acceptance must be a decision
            return "exception", "%s" % type(e).__name__

    def pkg(self, d):
        k = (d["category"], d["package"], d["version"], d["revision"], d["slot"], d["subslot"], d["repo"],
             tuple(d["iuse"]), tuple(d["use"]))
        p = self._pkgs.get(k)
        if p is None:
            p = ga.make_pkg(d)
            if len(self._pkgs) < 20000:
                self._pkgs[k] = p
        return p

    # -- package universe for the match vectors -------------------------------------------------------
    def universe(self, a):
        cat, name = a.category, a.package
        v, r = a.version, a.revision
        rt = "" if r is None else getattr(r, "data", str(r))
        if v is None or not ref.valid_version(v) or not (rt == "" or (rt.isascii() and rt.isdigit())):
            vers = [("1", ""), ("2", "1")]
        else:
            vers = [(v, rt), (v, ""), (v, "1"), (v + ".1", ""), ("0", ""), ("99999", "")]
            if v[-1].isdigit():
                vers.append((v + "0", ""))
            if rt:
                vers.append((v, rt + "0"))
            if not v[-1].isalpha() and "_" not in v:
                vers.append((v + "a", ""))
            vers.append((v + "_p1", ""))
            vers = [x for x in vers if ref.valid_version(x[0])]
        flags = []
        want_on = []
        for tok in (a.use or ()):
            t = tok
            neg = t[:1] == "-"
            t = t.lstrip("-!")
            t = t.rstrip("?=")
            if t.endswith(("(+)", "(-)")):
                t = t[:-3]
            if t and t not in flags:
                flags.append(t)
                if not neg:
                    want_on.append(t)
        if not ref.valid_category(cat) or not ref.valid_package_name(name) or any(
                ref.USE_RE.fullmatch(f) is None for f in flags):
            return []
        slot = a.slot or "0"
        sub = a.subslot or slot
        repo = a.repo_id or ""
        if ref.SLOT_PLUS_RE.fullmatch(slot) is None or ref.SLOT_PLUS_RE.fullmatch(sub) is None:
            return []
        base = dict(category=cat, package=name, slot=slot, subslot=sub, repo=repo, iuse=flags, use=want_on)
        out = [ga.pkg_dict(version=vv, revision=rr, **base) for vv, rr in vers]
        v0, r0 = vers[0]
        b0 = dict(base, version=v0, revision=r0)
        out.append(ga.pkg_dict(**dict(b0, slot="zz", subslot=sub)))
        out.append(ga.pkg_dict(**dict(b0, subslot="zz")))
        out.append(ga.pkg_dict(**dict(b0, repo="zz")))
        out.append(ga.pkg_dict(**dict(b0, package=name + "x")))
        out.append(ga.pkg_dict(**dict(b0, category=cat + "x")))
        if flags:
            out.append(ga.pkg_dict(**dict(b0, use=flags)))
            out.append(ga.pkg_dict(**dict(b0, use=[])))
            out.append(ga.pkg_dict(**dict(b0, iuse=[], use=[])))
            out.append(ga.pkg_dict(**dict(b0, iuse=flags[:1], use=flags[:1])))
        return out

    @staticmethod
    def safe_match(a, p):
        try:
            return bool(a.match(p))
        except Exception as e:
            return "exc:" + type(e).__name__

    # -- one oracle evaluation ---------------------------------------------------------------------------
    def judge(self, s, eapi, meta=None, vectors=True):
        ctx = self.ctx
        res = ref.parse(s, eapi)
        status, obj = self.impl(s, eapi)
        ctx.evaluated()
        ctx.count("impl_" + status)
        ctx.count("ref_" + res.status)
        w = {"s": s, "eapi": eapi, "impl": status, "expected": res.status}
        if meta:
            w.update(meta)
        if res.status == ref.INVALID:
            ctx.count("ref_rule:" + res.rule)
            if res.rule.endswith("-eapi") or res.rule == "repo-with-eapi":
                ctx.count("gated_feature_rejections_expected")
        if status == "exception":
            ctx.violation("non-malformed-exception", dict(w, exc=obj, rule=obj))
        elif res.status == ref.UNSPEC:
            for why in res.unspec:
                ctx.skip_unspecified("acceptance not judged: " + why)
        elif (status == "accepted") != (res.status == ref.VALID):
            rule = res.rule if res.status == ref.INVALID else "valid-atom-rejected"
            ctx.violation("acceptance-vs-pms", dict(w, rule=rule))
        if status == "accepted":
            self.roundtrip(s, eapi, obj, w, vectors)
        return status, res

    def roundtrip(self, s, eapi, a, w, vectors):
        ctx = self.ctx
        ctx.count("roundtrips")
        ctx.evaluated()
        try:
            t = str(a)
        except Exception as e:
            ctx.violation("roundtrip", dict(w, rule="str-raises", exc=type(e).__name__))
            return
        st2, b = self.impl(t, eapi, fresh=True)
        w = dict(w, rendered=t)
        if st2 != "accepted":
            ctx.violation("roundtrip", dict(w, rule="rendered-text-rejected", reparse=st2, exc=b))
            return
        try:
            eq = (a == b, b == a, not (a != b))
        except Exception as e:
            ctx.violation("roundtrip", dict(w, rule="eq-raises", exc=type(e).__name__))
            return
        if eq != (True, True, True):
            ctx.violation("roundtrip", dict(w, rule="reparsed-not-equal", eq=list(eq), rendered2=str(b)))
        else:
            # "equal" also in substance: no parsed attribute may change (== ignores e.g. the blocker strength)
            attrs = ("blocks", "blocks_strongly", "op", "cpvstr", "slot", "subslot", "slot_operator", "repo_id", "use",
                     "category", "package", "fullver")
            da = {k: getattr(a, k, "<missing>") for k in attrs}
            db = {k: getattr(b, k, "<missing>") for k in attrs}
            if da != db:
                bad = sorted(k for k in attrs if da[k] != db[k])
                ctx.violation("roundtrip", dict(w, rule="reparsed-attributes-differ", attrs=bad,
                                                orig={k: da[k] for k in bad}, reparsed={k: db[k] for k in bad}))
        if not vectors:
            return
        uni = self.universe(a)
        if not uni:
            ctx.count("roundtrip_without_universe")
            return
        pk = [self.pkg(d) for d in uni]
        va = [self.safe_match(a, p) for p in pk]
        vb = [self.safe_match(b, p) for p in pk]
        ctx.count("match_vector_pairs", len(pk))
        ctx.count("match_vector_true", sum(1 for x in va if x is True))
        ctx.evaluated()
        if va != vb:
            i = [k for k in range(len(va)) if va[k] != vb[k]][0]
            ctx.violation("roundtrip", dict(w, rule="match-vector-differs", pkg=uni[i], orig=va[i], reparsed=vb[i]))

    # -- a string under every EAPI ------------------------------------------------------------------------
    def judge_all(self, s, eapis, meta=None, vec_every=1):
        gated = None
        for k, e in enumerate(eapis):
            status, res = self.judge(s, e, meta, vectors=(k % vec_every == 0))
            if gated is None:
                gated = nontrivial_string(s)
            if gated or meta:
                self.ctx.nontrivial("%s\0%s" % (s, e))


def nontrivial_string(s):
    if any(c in s for c in "!<>=~*:["):
        return True
    name = s.rsplit("/", 1)[-1]
    return any(name[i] == "-" and name[i + 1:i + 2].isdigit() for i in range(len(name)))


def run(ctx):
    mon = Mon(ctx)
    rng = ctx.rng
    eapis = list(ref.ALL_EAPIS)
    # (a) feature grid ------------------------------------------------------------------------------------
    per_combo = ctx.budget(1, 3)
    nmut = ctx.budget(3, 8)
    combos = list(ga.feature_combos())
    order = list(range(len(combos)))
    random.Random(ctx.seed).shuffle(order)
    for n, idx in enumerate(order):
        if n % ctx.nshards != ctx.shard:
            continue
        for _ in range(per_combo):
            s = ga.build(rng, *combos[idx])
            if combos[idx][3]:
                # ::repo is refused under every explicit EAPI: sample three of them, keep the full sweep for the rest
                es_ = [None] + rng.sample(ref.EAPIS, 3)
            else:
                es_ = eapis
            mon.judge_all(s, es_)
            ctx.count("grid_atoms")
            if ctx.want_sample() and n % 997 == ctx.shard:
                ctx.sample({"string": s, "pms": {str(e): ref.verdict(s, e) for e in ("0", "1", "2", "4", "5", None)}})
            for _m in range(nmut):
                t, kind = ga.mutate(rng, s)
                ctx.count("mutation:" + kind)
                mon.judge_all(t, es_, {"base": s, "mutation": kind}, vec_every=4)
        if n % 64 == 0 and ctx.out_of_time(90):
            ctx.note("feature grid stopped early by the soft deadline")
            break
    else:
        ctx.count("feature_grid_complete")
    # (b) every single edit of feature-rich atoms ---------------------------------------------------------------
    k = 0
    for base in EDIT_BASES:
        mon.judge_all(base, eapis)
        for t in ga.all_single_edits(base):
            k += 1
            if k % ctx.nshards != ctx.shard:
                continue
            if ctx.quick:
                es = [eapis[(k // ctx.nshards + j * 4) % len(eapis)] for j in range(3)]
            else:
                es = eapis
            mon.judge_all(t, es, {"base": base, "mutation": "exhaustive-edit"}, vec_every=3)
            ctx.count("exhaustive_edits")
        if ctx.out_of_time(60):
            ctx.note("exhaustive edits stopped early by the soft deadline")
            break
    else:
        ctx.count("exhaustive_edits_complete")
    # (c) random atoms and their single edits ------------------------------------------------------------------
    for i in range(ctx.budget(1000, 12000)):
        s = ga.random_atom(rng)
        mon.judge_all(s, eapis)
        ctx.count("random_atoms")
        for _m in range(2):
            t, kind = ga.mutate(rng, s)
            ctx.count("mutation:" + kind)
            mon.judge_all(t, eapis, {"base": s, "mutation": kind}, vec_every=4)
        if i % 64 == 0 and ctx.out_of_time(30):
            break


# -------------------------------------------------------------------------------------------------------------
# known mechanisms

RELAX_KEYS = [("newline_dollar", "newline-before-dollar-accepted"),
              ("slot_leading_plus", "slot-leading-plus"),
              ("upper_version_letter", "uppercase-version-letter"),
              ("unicode_digits", "unicode-digit-in-version")]


def classify(w):
    kind = w.get("kind")
    s, eapi = w.get("s"), w.get("eapi")
    if not isinstance(s, str):
        return None
    if kind == "non-malformed-exception":
        if w.get("exc") != "IndexError":
            return None
        r = s.split("[", 1)[0].split(":", 1)[0]
        for _ in range(2):
            if r.startswith("!"):
                r = r[1:]
        return "indexerror-on-empty-remainder" if r in ("", "<", ">") else None
    if kind == "acceptance-vs-pms":
        impl = ref.VALID if w.get("impl") == "accepted" else ref.INVALID
        strict = ref.verdict(s, eapi)
        if strict == impl or strict == ref.UNSPEC:
            return None
        # the implementation answers like the recogniser with exactly these known wrong rules switched on
        for n in range(1, len(RELAX_KEYS) + 1):
            for sub in itertools.combinations(RELAX_KEYS, n):
                if ref.verdict(s, eapi, frozenset(r for r, _k in sub)) == impl:
                    return sub[0][1]
        return None
    return None


def replay(ctx, w):
    mon = Mon(ctx)
    meta = {k: w[k] for k in ("base", "mutation") if k in w}
    mon.judge(w["s"], w.get("eapi"), meta or None)
