"""C16 Resolver choice policy (highest resolvable version for upgrades, reuse for minimal installs) and determinism."""

import json
import os
import subprocess
import sys

from ..gen import c15_harness as hz
from ..gen import c15_problems as gp
from ..gen import c16_shapes as shapes
from ..ref import c15_plan as ref
from ..ref import c16_exists as exists
from ..ref import pms_version as pv

ID = "C16"
LEVEL = "exploration"
TECHNIQUE = "runtime monitoring of the real resolver; metamorphic oracle (restricted re-runs decide resolvability) + repeat runs"
RULE = ("C15's random resolver problems, post-processed so that one name N (the one with most candidate versions) is mentioned "
        "by no dependency and by exactly one target T (plain, versioned or slotted atom on N): the choice for N is then made by "
        "T's choice point alone.  upgrade: H = highest version (PMS order, vt/ref) matching T in source+installed; if the run on "
        "the problem whose source offers only H for N succeeds with an H member (=> H is resolvable), the full run must satisfy T "
        "by version H, and by the installed instance (no merge op for N) when the run with no source package of N at all keeps an "
        "installed H.  min_install: if the run with no source package of N succeeds keeping an installed match of T, the full run "
        "has no merge op for N.  Determinism: every problem x resolver kind is resolved twice in-process from freshly built "
        "repositories, and a sample again in a child interpreter with another PYTHONHASHSEED; status and op sequences must be "
        "identical.  Independent resolvability oracle (vt/ref/c16_exists.py, complete search over the subsets of the source "
        "repository): on the single-target universes of a structured family (app -> lang from one or two "
        "dependency classes, lang <-> boot build/runtime cycles with or without a boot-bin any-of escape, cycle members "
        "installed or not) - if a final set exists that contains H, is slot-consistent, dependency-closed for every merged and "
        "every leaned-on installed member, unblocked, and can be merged in an order in which every clause of every class is "
        "already satisfied (no reliance on any cycle), the upgrade run must succeed with H.  Unverified installed database "
        "(verify_vdb=False, pmerge's default, and nodeps=True): every universe is also resolved after giving each installed "
        "package of N an unresolvable atom (c/gone) in one of the five dependency classes (cycling, IDEPEND included; an "
        "installed twin of the highest source version is added now and then): min_install must not merge N when an installed "
        "package matches T, upgrade must not merge N when an installed package holds the highest version.  Built candidates "
        "(default options, verify_vdb=True): single-target universes whose installed packages of N get the unresolvable atom in "
        "DEPEND or BDEPEND (build-time classes are not walked for built packages); when the independent oracle says the "
        "installed set as it stands is a valid cycle-free final set containing the installed match, min_install must not merge "
        "N and upgrade must keep an installed highest version.  Non-trivial policy case: >=2 distinct candidate versions match T (or an installed and a source instance "
        "of H exist / a source version above the installed match exists); distinct = (problem, resolver kind, clause).")
ASSUMPTIONS = [
    "'resolvable' is decided by an independent run of the resolver on a repository restricted to the candidate in question "
    "(the oracle the quantifier asks for); the version order and atom matching come from vt/ref (PMS), not from pkgcore",
    "the policy clauses are judged only where no dependency and no other target mentions the target's name, so that no earlier "
    "decision can pre-solve or constrain it (elsewhere the statement's notion of 'the' choice for the target is ambiguous)",
    "'visible' = present in the source or installed repository (no masking layer in the fixture)",
    "default resolver options; empty-tree resolvers are only part of the determinism clause (they never consider installed packages)",
    "runs that hit the per-problem time limit or crash are not judged here (crashes are C15's clause)",
    "the brute-force oracle claims 'H is resolvable' only for plans that lean on no dependency cycle at all and whose "
    "leaned-on installed packages have their own runtime dependencies in place first; cycle-dependent resolvability is left "
    "to the restricted-run clause, because the statement does not say which cycles a resolver must be able to break",
    "the brute-force clause is judged on the structured single-target family only; on random universes the comparison is "
    "counted, not judged (greedy search: providers chosen earlier are not revisited, installed packages are not downgraded "
    "to make room, self-blocking packages cannot be placed - the statement does not say how much search is owed)",
    "installed fixtures are built packages (built=True) like the packages of a real vdb",
    "built-candidate clause: for the upgrade strategy only installed highest-version instances without runtime dependencies are "
    "claimed usable (newest-first provider choices for their runtime atoms are never revisited by the greedy search); for "
    "min_install the premise is the independent oracle's 'the installed set as it stands is a valid cycle-free final set'",
    "with verify_vdb=False / nodeps=True the dependencies recorded for installed packages are not examined, so an installed "
    "match of a target nobody else mentions is always usable: the reuse / installed-preferred clauses are unconditional there "
    "(a failing run is only judged for single-target problems)",
]
SHARDS = {"quick": 4, "thorough": 16}
TIMEOUT = {"quick": 240, "thorough": 1800}
MIN_EVALS = 400
REQUIRED_COUNTERS = ("policy_upgrade_judged", "policy_min_install_judged", "determinism_pairs", "hashseed_child_compared",
                     "bruteforce_judged:shape", "bruteforce_compared:random",
                     "unverified_min_install_judged", "unverified_upgrade_judged", "unverified_class:IDEPEND",
                     "built_reuse_min_install_judged", "built_reuse_upgrade_judged", "built_reuse_class:BDEPEND")

K_BUILT_PRUNED = "built-candidate-pruned-by-build-deps"


def scrub(rng, problem):
    """Make one name N unmentioned by every dependency, and give it exactly one target."""
    by_name = {}
    for s in problem["source"] + problem["installed"]:
        by_name.setdefault(s["name"], set()).add(s["ver"])
    if not by_name:
        return None
    best = max(len(v) for v in by_name.values())
    n = rng.choice(sorted(k for k, v in by_name.items() if len(v) == best))
    others = [x for x in gp.NAMES if x != n]
    p = gp._copy(problem)
    # thin the dependency graph: the policy clauses need resolvable problems
    keep = rng.choice([0.35, 0.5, 0.7, 1.0])
    for s in p["source"] + p["installed"]:
        for cls in gp.DEP_CLASSES:
            s["deps"][cls] = [c for c in s["deps"].get(cls, ()) if rng.random() < keep]
    for s in p["source"] + p["installed"]:
        for _cls, a in gp.spec_atoms(s):
            if a["name"] == n:
                a["name"] = rng.choice(others)
                if a.get("op"):
                    a["ver"] = rng.choice(gp.VERSIONS).split("-r")[0] if a["op"] == "~" else rng.choice(gp.VERSIONS)
    cands = [s for s in p["source"] + p["installed"] if s["name"] == n]
    t = {"blk": "", "op": "", "name": n, "ver": None, "slot": None}
    r = rng.random()
    if r < 0.3:
        c = rng.choice(cands)
        t["op"] = rng.choice([">=", "<=", "<", ">", "~", "="])
        t["ver"] = c["ver"].split("-r")[0] if t["op"] == "~" else c["ver"]
    elif r < 0.4:
        t["slot"] = rng.choice(cands)["slot"]
    p["targets"] = [x for x in p["targets"] if x["name"] != n][:1]
    if rng.random() < 0.5:
        p["targets"] = []
    p["targets"].insert(rng.randrange(len(p["targets"]) + 1), t)
    return p, n, t


LADDER = ["1", "1-r1", "1-r3", "1.5", "2", "2-r2", "2-r10"]


def gen_revision_ladder(rng):
    """-> (problem, name, target): one name, no dependencies anywhere; the installed version (at most one, slot 0) and
    the 1-3 source versions are drawn from a ladder in which neighbours share the base version."""
    name, other = rng.sample(gp.NAMES, 2)
    nodeps = lambda: {c: [] for c in gp.DEP_CLASSES}
    src = rng.sample(LADDER, rng.choice([1, 2, 2, 3]))
    installed = []
    if rng.random() < 0.85:
        r = rng.random()
        if r < 0.5:
            # same base version as a source candidate
            base = rng.choice(src).split("-r")[0]
            iv = rng.choice([v for v in LADDER if v.split("-r")[0] == base])
        else:
            iv = rng.choice(LADDER)
        installed.append({"name": name, "ver": iv, "slot": "0", "deps": nodeps()})
    source = [{"name": name, "ver": v, "slot": "0", "deps": nodeps()} for v in src]
    if rng.random() < 0.3:
        source.append({"name": other, "ver": "1", "slot": "0", "deps": nodeps()})
    rng.shuffle(source)
    t = {"blk": "", "op": "", "name": name, "ver": None, "slot": None}
    r = rng.random()
    if r < 0.3:
        c = rng.choice(src + [x["ver"] for x in installed])
        t["op"] = rng.choice([">=", "<=", "~", "="])
        t["ver"] = c.split("-r")[0] if t["op"] == "~" else c
    elif r < 0.4:
        t["slot"] = "0"
    return {"source": source, "installed": installed, "targets": [t]}, name, t


def strip_source(problem, name):
    return {"source": [s for s in problem["source"] if s["name"] != name], "installed": list(problem["installed"]),
            "targets": list(problem["targets"])}


def members_of(problem, res):
    """The packages the plan itself holds at the end (kept installed packages it looked at + merged ones);
    installed packages the resolver never touched are not 'chosen' by it."""
    held = []
    for o in res["ops"]:
        if o["desc"] in ("add", "replace"):
            if o["desc"] == "replace" and o.get("old"):
                held = [m for m in held if not (ref.ident(m) == ref.ident(o["old"]) and (m["origin"] == "vdb") == o["old"]["livefs"])]
            p = o["pkg"]
            held.append({"name": p["name"], "ver": p["ver"], "slot": p["slot"], "origin": "vdb" if p["livefs"] else "src"})
        elif o["desc"] == "remove":
            p = o["pkg"]
            held = [m for m in held if not (ref.ident(m) == ref.ident(p) and (m["origin"] == "vdb") == p["livefs"])]
    return held


def merges_name(res, name):
    return [o for o in res["ops"] if o["desc"] in ("add", "replace") and not o["pkg"]["livefs"] and o["pkg"]["name"] == name]


def brief_ops(ops):
    return [[o["desc"], o["pkg"]["name"] + "-" + o["pkg"]["ver"], "vdb" if o["pkg"]["livefs"] else "src"] for o in (ops or [])]


def classify(w):
    if w.get("kind") == "highest-resolvable-not-chosen" or (w.get("kind") or "").startswith("built-"):
        cf = w.get("counterfactual") or {}
        # the resolver chooses H as soon as the installed (built) packages carry no DEPEND/BDEPEND: a built candidate
        # was discarded because of build-time atoms the resolver never walks for built packages
        if cf.get("installed_build_deps_stripped") == "H chosen" and w.get("built_packages_build_classes_walked") == []:
            return K_BUILT_PRUNED
    return None


class Checker:
    def __init__(self, ctx):
        self.ctx = ctx
        self.limit = 10.0
        self.sampled = []

    def run(self, problem, kind):
        return hz.run_problem(problem, kind, self.limit)

    def witness(self, problem, kind, clause, **kw):
        w = {"problem": problem, "resolver": kind, "rule": clause, "rendered": gp.describe(problem)}
        w.update(kw)
        return w

    # -- determinism ------------------------------------------------------------------------------
    def determinism(self, problem, kind, first=None):
        ctx = self.ctx
        a = first or self.run(problem, kind)
        b = self.run(problem, kind)
        if "timeout" in (a["status"], b["status"]):
            ctx.skip_unspecified("resolution did not finish within the time limit")
            ctx.note("timeout (%s): %s" % (kind, json.dumps(problem)))
            return a
        ctx.evaluated()
        ctx.count("determinism_pairs")
        va = (a["status"], a.get("exc"), a["ops"])
        vb = (b["status"], b.get("exc"), b["ops"])
        if va != vb:
            ctx.violation("nondeterministic", self.witness(problem, kind, "same-process-repeat",
                                                           first={"status": a["status"], "ops": brief_ops(a["ops"])},
                                                           second={"status": b["status"], "ops": brief_ops(b["ops"])}))
        elif a["status"] == "success" and len(a["ops"]) >= 2:
            ctx.nontrivial(json.dumps([problem, kind, "det"], sort_keys=True))
        return a

    # -- policy -------------------------------------------------------------------------------------
    def policy(self, problem, name, target):
        ctx = self.ctx
        full_up = self.determinism(problem, "upgrade")
        if full_up["status"] == "timeout":
            ctx.count("problems_skipped_after_timeout")
            return full_up
        full_min = self.determinism(problem, "min_install")
        full_empty = self.determinism(problem, "empty_tree")
        if "timeout" not in (full_min["status"], full_empty["status"]):
            self.sampled.append(problem)
        matching_src = [s for s in problem["source"] if ref.atom_matches(target, s)]
        matching_vdb = [s for s in problem["installed"] if ref.atom_matches(target, s)]
        distinct_versions = []
        for s in matching_src + matching_vdb:
            if not any(pv.cmp_fullver(s["ver"], v) == 0 for v in distinct_versions):
                distinct_versions.append(s["ver"])
        # ---- upgrade: highest resolvable version, installed instance preferred on a tie
        if full_up["status"] == "success":
            high = ref.highest_matching(problem, target)
            if high:
                hver = high[0][1]["ver"]
                restricted = ref.restrict_to(problem, name, hver)
                r1 = self.run(restricted, "upgrade")
                ctx.count("restricted_runs")
                h_resolvable = r1["status"] == "success" and any(
                    m["name"] == name and ref.atom_matches(target, m) and pv.cmp_fullver(m["ver"], hver) == 0
                    for m in members_of(restricted, r1))
                if not h_resolvable:
                    ctx.count("policy_upgrade_highest_not_resolvable")
                else:
                    ctx.evaluated()
                    ctx.count("policy_upgrade_judged")
                    ms = members_of(problem, full_up)
                    got = [m for m in ms if m["name"] == name and ref.atom_matches(target, m)]
                    if len(distinct_versions) >= 2:
                        ctx.nontrivial(json.dumps([problem, "upgrade", "highest"], sort_keys=True))
                        ctx.count("policy_upgrade_nontrivial")
                    if not any(pv.cmp_fullver(m["ver"], hver) == 0 for m in got):
                        ctx.violation("upgrade-not-highest", self.witness(
                            problem, "upgrade", "upgrade-not-highest", name=name, target=gp.render_atom(target),
                            highest=hver, chosen=[[m["ver"], m["origin"]] for m in got], ops=brief_ops(full_up["ops"]),
                            restricted_ops=brief_ops(r1["ops"])))
                    # installed instance of an equal version
                    if any(o == "vdb" for o, _s in high):
                        r2 = self.run(strip_source(problem, name), "upgrade")
                        ctx.count("restricted_runs")
                        inst_ok = r2["status"] == "success" and any(
                            m["name"] == name and m["origin"] == "vdb" and ref.atom_matches(target, m)
                            and pv.cmp_fullver(m["ver"], hver) == 0 for m in members_of(strip_source(problem, name), r2))
                        if inst_ok:
                            ctx.evaluated()
                            ctx.count("policy_upgrade_prefer_installed_judged")
                            if any(o == "src" for o, _s in high):
                                ctx.nontrivial(json.dumps([problem, "upgrade", "prefer-installed"], sort_keys=True))
                                ctx.count("policy_upgrade_prefer_installed_nontrivial")
                            mg = merges_name(full_up, name)
                            if mg:
                                ctx.violation("upgrade-remerges-installed-highest", self.witness(
                                    problem, "upgrade", "upgrade-remerges-installed-highest", name=name,
                                    target=gp.render_atom(target), highest=hver, ops=brief_ops(full_up["ops"])))
        elif full_up["status"] == "failure":
            ctx.count("policy_upgrade_full_run_failed")
        # ---- min-install: keep an installed match
        if full_min["status"] == "success" and matching_vdb:
            stripped = strip_source(problem, name)
            r3 = self.run(stripped, "min_install")
            ctx.count("restricted_runs")
            keeps = r3["status"] == "success" and any(
                m["name"] == name and m["origin"] == "vdb" and ref.atom_matches(target, m)
                for m in members_of(stripped, r3))
            if not keeps:
                ctx.count("policy_min_install_installed_not_resolvable")
            else:
                ctx.evaluated()
                ctx.count("policy_min_install_judged")
                best_vdb = matching_vdb[0]
                for s in matching_vdb[1:]:
                    if pv.cmp_fullver(s["ver"], best_vdb["ver"]) > 0:
                        best_vdb = s
                if any(pv.cmp_fullver(s["ver"], best_vdb["ver"]) > 0 for s in matching_src):
                    ctx.nontrivial(json.dumps([problem, "min_install", "reuse"], sort_keys=True))
                    ctx.count("policy_min_install_nontrivial")
                mg = merges_name(full_min, name)
                if mg:
                    ctx.violation("min-install-merges-over-installed", self.witness(
                        problem, "min_install", "min-install-merges-over-installed", name=name,
                        target=gp.render_atom(target), installed=[s["ver"] for s in matching_vdb],
                        ops=brief_ops(full_min["ops"]), stripped_ops=brief_ops(r3["ops"])))
        if ctx.want_sample() and full_up["status"] == "success" and len(distinct_versions) >= 2:
            ctx.sample({"problem": gp.describe(problem), "name": name, "target": gp.render_atom(target),
                        "upgrade_ops": brief_ops(full_up["ops"]), "min_install_ops": brief_ops(full_min["ops"])})
        return full_up

    # -- independent resolvability oracle ---------------------------------------------------------------
    def chose(self, problem, res, name, target, hver):
        return res["status"] == "success" and any(
            m["name"] == name and ref.atom_matches(target, m) and pv.cmp_fullver(m["ver"], hver) == 0
            for m in members_of(problem, res))

    def bruteforce(self, problem, name, target, family, full_up=None):
        ctx = self.ctx
        if len(problem["targets"]) != 1:
            ctx.count("bruteforce_skipped_multi_target")
            return
        high = ref.highest_matching(problem, target)
        if not high:
            return
        hver = high[0][1]["ver"]
        ans, plan = exists.plan_exists(problem, target, hver, acyclic=True)
        ctx.count("bruteforce_oracle:%s" % ans)
        if ans is not True:
            return
        if full_up is None:
            full_up = self.run(problem, "upgrade")
        if full_up["status"] in ("timeout", "crash"):
            ctx.skip_unspecified("resolution crashed or did not finish (C15's clause)")
            return
        if family == "random":
            # On random universes the comparison is recorded but not judged: the resolver's search is greedy (a provider
            # picked for an earlier atom is never revisited, installed packages are not downgraded to make room, a
            # package carrying a blocker that matches itself cannot be placed), and the statement does not say how much
            # search a resolver owes.  The structured family below contains none of these ambiguities.
            ctx.count("bruteforce_compared:random")
            if self.chose(problem, full_up, name, target, hver):
                ctx.count("bruteforce_random_agree")
            else:
                ctx.count("bruteforce_random_disagree")
                ctx.skip_unspecified("random universe: oracle finds a plan with the highest version, the greedy search does not")
            return
        ctx.evaluated()
        ctx.count("bruteforce_judged:" + family)
        ncand = len({s["ver"] for s in problem["source"] + problem["installed"] if ref.atom_matches(target, s)})
        if ncand >= 2:
            ctx.nontrivial(json.dumps([problem, "upgrade", "bruteforce"], sort_keys=True))
        if self.chose(problem, full_up, name, target, hver):
            return
        # counterfactual runs that name the mechanism (they never change the verdict)
        cf = {}
        stripped = gp._copy(problem)
        for s_ in stripped["installed"]:
            s_["deps"]["DEPEND"], s_["deps"]["BDEPEND"] = [], []
        if stripped != problem:
            r = self.run(stripped, "upgrade")
            cf["installed_build_deps_stripped"] = "H chosen" if self.chose(stripped, r, name, target, hver) else r["status"]
        keep = {tuple(x) for x in plan}
        reduced = {"source": [s_ for s_ in problem["source"] if ref.ident(s_) in keep],
                   "installed": list(problem["installed"]), "targets": list(problem["targets"])}
        r = self.run(reduced, "upgrade")
        cf["source_reduced_to_oracle_plan"] = "H chosen" if self.chose(reduced, r, name, target, hver) else r["status"]
        got = [[m["ver"], m["origin"]] for m in members_of(problem, full_up)
               if m["name"] == name and ref.atom_matches(target, m)] if full_up["status"] == "success" else []
        walked = self.build_classes_walked_for_built(problem, "upgrade")
        ctx.violation("highest-resolvable-not-chosen", self.witness(
            problem, "upgrade", "highest-resolvable-not-chosen", name=name, target=gp.render_atom(target), family=family,
            highest=hver, oracle_plan=["%s-%s:%s" % tuple(x) for x in plan], status=full_up["status"], chosen=got,
            ops=brief_ops(full_up["ops"]), counterfactual=cf, built_packages_build_classes_walked=walked))

    def build_classes_walked_for_built(self, problem, kind):
        """Observation for the classifier: DEPEND/BDEPEND atoms the resolver walked on behalf of an installed (built)
        package in a traced re-run (merge_plan skips those classes for built packages unless process_built_depends)."""
        r = hz.run_problem(problem, kind, self.limit, trace=True)
        return sorted({"%s %s of %s" % (e["mode"], e["atom"], e["parent"]["cpv"]) for e in (r.get("trace") or [])
                       if e["parent"] and e["parent"]["livefs"] and e["mode"] in ("depend", "bdepend")})[:6]

    # -- built candidates with stale build-time dependencies (default options) -------------------------------
    def built_reuse(self, problem, name, target, dep_class=None):
        """`problem`: single target; installed packages of `name` carry an unresolvable DEPEND/BDEPEND atom."""
        ctx = self.ctx
        if len(problem["targets"]) != 1:
            return
        inst = [s for s in problem["installed"] if ref.atom_matches(target, s)]
        if not inst:
            return
        best = inst[0]
        for s in inst[1:]:
            if pv.cmp_fullver(s["ver"], best["ver"]) > 0:
                best = s
        high = ref.highest_matching(problem, target)
        hver = high[0][1]["ver"]
        for kind in ("min_install", "upgrade"):
            want = best["ver"] if kind == "min_install" else hver
            if kind == "upgrade" and not any(o == "vdb" for o, _s in high):
                continue
            if kind == "upgrade" and any(c for s_ in inst if pv.cmp_fullver(s_["ver"], hver) == 0
                                         for cls in exists.INSTALLED_CLASSES for c in s_["deps"].get(cls, ())):
                # the upgrade strategy resolves the runtime atoms of the installed instance newest-first and never
                # revisits such a choice; whether the instance is then still "resolvable" is the restricted-run
                # clause's business - here only instances without runtime dependencies are claimed
                ctx.count("built_reuse_upgrade_instance_has_runtime_deps_unclaimed")
                continue
            # independent premise: the installed set, untouched, is a valid cycle-free final set holding that version
            sr = exists.Search(problem, target, want, order_classes=exists.ALL)
            if sr.defect(frozenset()) is not None:
                ctx.count("built_reuse_installed_set_not_valid_as_is")
                continue
            r = self.run(problem, kind)
            if r["status"] in ("timeout", "crash"):
                ctx.skip_unspecified("resolution crashed or did not finish (C15's clause)")
                continue
            ctx.evaluated()
            ctx.count("built_reuse_%s_judged" % kind)
            if dep_class:
                ctx.count("built_reuse_class:" + dep_class)
            ctx.nontrivial(json.dumps([problem, kind, "built-reuse"], sort_keys=True))
            bad = r["status"] == "failure" or bool(merges_name(r, name))
            if kind == "upgrade" and not bad:
                bad = not any(m["origin"] == "vdb" and pv.cmp_fullver(m["ver"], hver) == 0
                              for m in members_of(problem, r) if m["name"] == name and ref.atom_matches(target, m))
            if bad:
                rule = "built-%s-%s" % (kind, "fails" if r["status"] == "failure" else "does-not-keep-installed")
                cf = {}
                stripped = gp._copy(problem)
                for s_ in stripped["installed"]:
                    s_["deps"]["DEPEND"], s_["deps"]["BDEPEND"] = [], []
                r2 = self.run(stripped, kind)
                ok2 = r2["status"] == "success" and not merges_name(r2, name)
                cf["installed_build_deps_stripped"] = "H chosen" if ok2 else r2["status"]
                w = self.witness(problem, kind, rule, name=name, target=gp.render_atom(target), injected_class=dep_class,
                                 installed=[s["ver"] for s in inst], highest=hver, status=r["status"],
                                 ops=brief_ops(r["ops"]), counterfactual=cf,
                                 built_packages_build_classes_walked=self.build_classes_walked_for_built(problem, kind))
                ctx.violation(rule, w)

    # -- installed database not verified (pmerge's default) ------------------------------------------------
    def unverified(self, problem, name, target, dep_class=None):
        """`problem`: installed packages of `name` carry an unresolvable atom; nothing else mentions `name`."""
        ctx = self.ctx
        inst = [s for s in problem["installed"] if ref.atom_matches(target, s)]
        if not inst:
            return
        high = ref.highest_matching(problem, target)
        hver = high[0][1]["ver"]
        inst_has_h = any(o == "vdb" for o, _s in high)
        single = len(problem["targets"]) == 1
        for kwds in ({"verify_vdb": False}, {"nodeps": True}):
            for kind in ("min_install", "upgrade"):
                if kind == "upgrade" and not inst_has_h:
                    continue
                r = hz.run_problem(problem, kind, self.limit, resolver_kwds=kwds)
                if r["status"] in ("timeout", "crash"):
                    ctx.skip_unspecified("resolution crashed or did not finish (C15's clause)")
                    continue
                if r["status"] == "failure" and not single:
                    ctx.count("unverified_multi_target_failure_unjudged")
                    continue
                ctx.evaluated()
                ctx.count("unverified_%s_judged" % kind)
                if dep_class:
                    ctx.count("unverified_class:" + dep_class)
                if len({s["ver"] for s in problem["source"] if ref.atom_matches(target, s)} | {s["ver"] for s in inst}) >= 2:
                    ctx.nontrivial(json.dumps([problem, kind, sorted(kwds)], sort_keys=True))
                mg = merges_name(r, name) if r["status"] == "success" else None
                bad = r["status"] == "failure" or bool(mg)
                if kind == "upgrade" and not bad:
                    bad = not any(m["origin"] == "vdb" and pv.cmp_fullver(m["ver"], hver) == 0
                                  for m in members_of(problem, r) if m["name"] == name and ref.atom_matches(target, m))
                if bad:
                    rule = "unverified-vdb-%s-%s" % (kind, "fails" if r["status"] == "failure" else "does-not-keep-installed")
                    ctx.violation(rule, self.witness(
                        problem, kind, rule, name=name, target=gp.render_atom(target), resolver_options=kwds,
                        injected_class=dep_class, installed=[s["ver"] for s in inst], highest=hver, status=r["status"],
                        ops=brief_ops(r["ops"])))

    # -- other interpreter, other hash seed ------------------------------------------------------------
    def hashseed_child(self, problems):
        ctx = self.ctx
        if not problems:
            return
        scratch = os.environ.get("VT_SCRATCH") or "/var/tmp"
        inp = os.path.join(scratch, "c16_child_in_%d.json" % os.getpid())
        with open(inp, "w") as f:
            json.dump({"problems": problems, "limit": self.limit}, f)
        seed = str(1 + (ctx.seed * 1000 + ctx.shard) % 4000)
        env = dict(os.environ, PYTHONHASHSEED=seed, PYTHONDONTWRITEBYTECODE="1")
        root = os.path.dirname(os.path.dirname(os.path.dirname(os.path.abspath(__file__))))
        env["PYTHONPATH"] = os.pathsep.join([p for p in [env.get("PYTHONPATH"), root] if p])
        try:
            cp = subprocess.run([sys.executable, "-c", "from vt.props.C16 import child_main; child_main(%r)" % inp],
                                env=env, stdout=subprocess.PIPE, stderr=subprocess.PIPE, timeout=max(30.0, ctx.time_left() - 5),
                                stdin=subprocess.DEVNULL)
            out = json.loads(cp.stdout.decode().strip().splitlines()[-1])
        except (subprocess.TimeoutExpired, ValueError, IndexError) as e:
            ctx.note("hash-seed child gave no result: %r" % (e,))
            return
        finally:
            try:
                os.unlink(inp)
            except OSError:
                pass
        for problem, theirs in zip(problems, out["results"]):
            for kind in hz.KINDS:
                mine = self.run(problem, kind)
                t = theirs[kind]
                if "timeout" in (mine["status"], t["status"]):
                    ctx.skip_unspecified("resolution did not finish within the time limit")
                    continue
                ctx.evaluated()
                ctx.count("hashseed_child_compared")
                if (mine["status"], mine["ops"]) != (t["status"], t["ops"]):
                    ctx.violation("nondeterministic-across-hash-seeds", self.witness(
                        problem, kind, "other-PYTHONHASHSEED", child_seed=seed,
                        first={"status": mine["status"], "ops": brief_ops(mine["ops"])},
                        second={"status": t["status"], "ops": brief_ops(t["ops"])}))


def child_main(path):
    import logging

    logging.disable(logging.WARNING)
    with open(path) as f:
        d = json.load(f)
    res = []
    for problem in d["problems"]:
        r = {}
        for kind in hz.KINDS:
            x = hz.run_problem(problem, kind, d["limit"])
            r[kind] = {"status": x["status"], "ops": x["ops"]}
        res.append(r)
    sys.stdout.write("\n" + json.dumps({"results": res}) + "\n")
    sys.stdout.flush()


GONE = {"blk": "", "op": "", "name": "gone", "ver": None, "slot": None}


def reuse_variant(rng, problem, name, target, dep_class):
    """Installed packages of `name` get an unresolvable atom in dep_class; sometimes the highest source version matching
    the target is installed as well (so that the installed-instance-preferred clause has something to say)."""
    p = gp._copy(problem)
    src = [s for s in p["source"] if ref.atom_matches(target, s)]
    if src and rng.random() < 0.4:
        best = src[0]
        for s in src[1:]:
            if pv.cmp_fullver(s["ver"], best["ver"]) > 0:
                best = s
        if not any(i["name"] == best["name"] and i["slot"] == best["slot"] for i in p["installed"]):
            p["installed"].append(gp._copy(best))
    hit = False
    for i in p["installed"]:
        if i["name"] == name:
            i["deps"].setdefault(dep_class, [])
            i["deps"][dep_class] = list(i["deps"][dep_class]) + [dict(GONE)]
            hit = True
    return p if hit else None


def canonical_universes():
    """Hand-written members of the structured family that every run exercises."""
    A, P = shapes.atom, shapes.pkg
    lang, boot, bootbin, app = shapes.LANG, shapes.BOOT, shapes.BOOTBIN, shapes.APP
    out = []
    # lang builds with boot or boot-bin, boot needs lang (a build cycle with a way out), app-2 names lang twice
    for app_classes in (("DEPEND", "RDEPEND"), ("BDEPEND", "PDEPEND"), ("RDEPEND",)):
        for inst in ((), (boot,)):
            src = [P(lang, "1", {"DEPEND": [{"any": [A(boot), A(bootbin)]}]}), P(boot, "1", {"DEPEND": [A(lang)]}),
                   P(bootbin, "1"), P(app, "1"), P(app, "2", {c: [A(lang)] for c in app_classes})]
            installed = [P(boot, "1", {"DEPEND": [A(lang)]})] if boot in inst else []
            out.append(({"source": src, "installed": installed, "targets": [A(app)]}, app))
    return out


def run(ctx):
    import logging

    logging.disable(logging.WARNING)
    ck = Checker(ctx)
    nvar = ctx.shard      # cycles over the five dependency classes
    # (a) random universes
    n = ctx.budget(90, 1200)
    for i in range(n):
        base = gp.gen_problem(ctx.rng)
        sc = scrub(ctx.rng, base)
        if sc is None:
            continue
        problem, name, target = sc
        ctx.count("problems")
        full_up = ck.policy(problem, name, target)
        ck.bruteforce(problem, name, target, "random", full_up)
        cls = gp.DEP_CLASSES[nvar % 5]
        v = reuse_variant(ctx.rng, problem, name, target, cls)
        if v is not None:
            nvar += 1
            ck.unverified(v, name, target, cls)
            bcls = ("DEPEND", "BDEPEND")[nvar % 2]
            vb = reuse_variant(ctx.rng, dict(problem, targets=[target]), name, target, bcls)
            if vb is not None:
                ck.built_reuse(vb, name, target, bcls)
        if ctx.out_of_time(70):
            ctx.note("random universes stopped early by the soft deadline after %d problems" % (i + 1))
            break
    # (b) structured universes: cycles, any-of escapes, one atom in two dependency classes
    if ctx.shard == 0:
        for problem, name in canonical_universes():
            ctx.count("canonical_universes")
            t = problem["targets"][0]
            ck.bruteforce(problem, name, t, "shape", ck.policy(problem, name, t))
    n = ctx.budget(1200, 8000)
    for i in range(n):
        problem, name, target = shapes.gen_shape(ctx.rng)
        ctx.count("shape_problems")
        if i % 4 == 0:
            full_up = ck.policy(problem, name, target)
        else:
            full_up = None
        ck.bruteforce(problem, name, target, "shape", full_up)
        if i % 3 == 0:
            cls = gp.DEP_CLASSES[nvar % 5]
            v = reuse_variant(ctx.rng, problem, name, target, cls)
            if v is not None:
                nvar += 1
                ck.unverified(v, name, target, cls)
        if i % 20 == 0 and ctx.out_of_time(45):
            ctx.note("structured universes stopped early by the soft deadline after %d problems" % (i + 1))
            break
    # (c) revision ladders: candidates of one name that share a base version and differ in revision only, spread over
    # the installed and the source repository (equal versions on both sides included)
    n = ctx.budget(160, 2000)
    for i in range(n):
        problem, name, target = gen_revision_ladder(ctx.rng)
        ctx.count("revision_ladder_problems")
        ck.bruteforce(problem, name, target, "shape", ck.policy(problem, name, target))
        if i % 20 == 0 and ctx.out_of_time(35):
            ctx.note("revision ladders stopped early by the soft deadline after %d problems" % (i + 1))
            break
    sample = ck.sampled[: ctx.budget(25, 150)]
    ck.hashseed_child(sample)


def replay(ctx, w):
    import logging

    logging.disable(logging.WARNING)
    ck = Checker(ctx)
    problem = w["problem"]
    if w.get("name") and (w.get("rule") or "").startswith("built-"):
        t = [x for x in problem["targets"] if x["name"] == w["name"]][0]
        ck.built_reuse(problem, w["name"], t, w.get("injected_class"))
    elif w.get("name") and (w.get("rule") or "").startswith("unverified-vdb"):
        t = [x for x in problem["targets"] if x["name"] == w["name"]][0]
        ck.unverified(problem, w["name"], t, w.get("injected_class"))
    elif w.get("name"):
        t = [x for x in problem["targets"] if x["name"] == w["name"]][0]
        full_up = ck.policy(problem, w["name"], t)
        ck.bruteforce(problem, w["name"], t, w.get("family") or "shape", full_up)
    else:
        for kind in hz.KINDS:
            ck.determinism(problem, kind)
        if w.get("rule") == "other-PYTHONHASHSEED":
            ck.hashseed_child([problem])
