"""C46 Distfile cleaning never deletes a distfile that must be kept (real `pclean dist` code path on a scratch distdir)."""

import io
import os
import random
import shutil
import sys
import time
from os.path import join as pjoin

from ..gen import c46_scen as gen
from ..ref import c46_keep as ref

ID = "C46"
LEVEL = "exploration"
TECHNIQUE = "runtime monitoring of the real pclean argparser + _dist_validate_args + _remove on scratch distdirs; safety oracle from the statement"
RULE = ("random scenario = two stub source repositories + an installed set (packages with nested distfile lists, SRC_URI with "
        "`flag? ( f )` / `!flag? ( f )` / nested groups of which at least one is disabled by the package's USE setting and "
        "whose files are present in the distdir, RESTRICT with/without fetch; names that are prefixes of each other, differ in case/separator, shared "
        "distfiles, stale versions, installed versions that left the tree) + a scratch distdir (needed, stale, unrelated and "
        "look-alike files; sizes around the --size limit incl. sparse MiB files; mtimes around the --modified threshold; a "
        "sub-directory and a sibling directory) + a random `pclean dist` command line (0-2 targets cat/pn | pn | =cat/pn-ver | "
        "cat/*, -I, -E, -f, -x/-X exclusion patterns, -m, -s, -p, -q/-v, stdout a tty or not). The REAL pclean.argparser parses the "
        "command line against a stub domain (distdir, source_repos, all_installed_repos), which runs _setup_shared_opts, "
        "_setup_file_opts, _setup_restrictions and _dist_validate_args; then the real _remove(options, out, err) runs. The "
        "distdir is listed before and after. One evaluation = one executed command line judged on every removed file "
        "(guards -I/-E/-f/-x, file filters, target attribution upper bound, --pretend/no-tty, nothing outside the distdir). "
        "NON-TRIVIAL = at least one file was removed while an active guard had a file present in the distdir to protect or "
        "a filter/target restriction was active; distinct = (command line, file set, removed set).")
ASSUMPTIONS = [
    "the stub repositories are pkgcore.repository.prototype.tree subclasses over plain data; stub packages are VersionedCPV "
    "subclasses exposing distfiles / restrict / _raw_pkg the way pclean reads them (no ebuild metadata, no profile/USE machinery)",
    "'needed by an installed package' = its USE-bound distfiles (as pclean documents for -I); 'needed by a package in the "
    "repositories' (-E, -f, -x) = every distfile its SRC_URI lists, including files behind `flag? ( )` / `!flag? ( )` groups "
    "(nested) that the active USE setting disables - the raw package is a real DepSet parsed from a generated SRC_URI, the "
    "configured view is its evaluation, cross-checked against pkgcore's evaluate_depset",
    "-f is judged for fetch-restricted packages of the source repositories only; -x patterns are matched against source-repository packages",
    "K/M/G are read as powers of 1024 and m/y as 28/365 days (the reading under which fewest removals are forbidden); "
    "file ages within 120 s of the threshold are not judged",
    "'selected by the cleaning targets' is an upper bound: a current distfile of a targeted package, or a name starting "
    "(case-insensitive, separators alike) with a targeted package's name or with the alphabetic stem of one of its distfiles; "
    "unjudgeable when such a stem is empty",
    "removing less than allowed is never a violation",
]
SHARDS = {"quick": 4, "thorough": 16}
TIMEOUT = {"quick": 240, "thorough": 1800}
MIN_EVALS = 200
REQUIRED_COUNTERS = ("runs", "files_removed", "runs_with_removal", "guard_active:keep-installed", "guard_active:keep-exists",
                     "guard_active:keep-fetch-restricted", "guard_active:keep-excluded", "filter_active:size",
                     "filter_active:modified", "with_targets", "protected_file_survived", "conditional_distfile_guarded",
                     "conditional_distfile_survived")


# ------------------------------------------------------------------------------------------------ stubs

def _stubs():
    from pkgcore.config.hint import ConfigHint
    from pkgcore.ebuild.conditionals import DepSet
    from pkgcore.ebuild.cpv import VersionedCPV
    from pkgcore.repository import prototype
    from pkgcore.repository.util import RepositoryGroup

    class Raw:
        __slots__ = ("distfiles",)

        def __init__(self, distfiles):
            self.distfiles = distfiles

    class Repo(prototype.tree):
        """plain-data repository; deliberately not SimpleTree (pclean drops 'virtual' repositories)"""

        def __init__(self, pkgs, repo_id):
            self.data = {}
            self.tree_d = {}
            for pk in pkgs:
                self.tree_d.setdefault(pk["cat"], {}).setdefault(pk["pn"], []).append(pk["ver"])
                self.data["%s/%s-%s" % (pk["cat"], pk["pn"], pk["ver"])] = pk
            self.repo_id = repo_id
            self.livefs = False
            data = self.data

            class Pkg(VersionedCPV):
                __slots__ = ()

                @property
                def distfiles(self):
                    return _tuples(data[self.cpvstr]["distfiles"])

                @property
                def restrict(self):
                    return tuple(data[self.cpvstr]["restrict"])

                def __getattr__(self, name):
                    if name == "_raw_pkg":
                        pk = data[self.cpvstr]
                        if pk.get("src_uri") is not None:
                            # the raw package's distfiles the way a real ebuild package has them: a DepSet with
                            # (nested, negated) USE conditionals; the configured view above is its evaluation
                            return Raw(DepSet.parse(pk["src_uri"], str))
                        if pk.get("raw_distfiles") is not None:
                            return Raw(_tuples(pk["raw_distfiles"]))
                    raise AttributeError(name)

            self.package_class = Pkg
            super().__init__(frozen=True)

        def _get_categories(self):
            return tuple(self.tree_d)

        def _get_packages(self, category):
            return tuple(self.tree_d[category])

        def _get_versions(self, cp_key):
            return tuple(self.tree_d[cp_key[0]][cp_key[1]])

    class NoPathRepo:
        def __contains__(self, key):
            return False

        def path_restrict(self, path):
            raise ValueError("no repository at %r" % (path,))

    return ConfigHint, Repo, RepositoryGroup, NoPathRepo


def _tuples(x):
    return tuple(y if isinstance(y, str) else _tuples(y) for y in x)


class _Tty(io.StringIO):
    def __init__(self, tty):
        super().__init__()
        self._tty = tty

    def isatty(self):
        return self._tty


def listing(d):
    out = {}
    for name in os.listdir(d):
        p = pjoin(d, name)
        st = os.lstat(p)
        if os.path.isfile(p) or os.path.islink(p):
            out[name] = {"size": st.st_size, "mtime": st.st_mtime}
    return out


def tree_listing(d):
    out = []
    for root, _dirs, files in os.walk(d):
        for f in files:
            out.append(os.path.relpath(pjoin(root, f), d))
    return sorted(out)


def execute(scn, root):
    """Materialise the scenario under `root`, run the real pclean code, return observations."""
    from pkgcore.config import basics, central
    from pkgcore.scripts import pclean
    from snakeoil.cli import arghparse
    from snakeoil.formatters import PlainTextFormatter

    ConfigHint, Repo, RepositoryGroup, NoPathRepo = _stubs()
    shutil.rmtree(root, ignore_errors=True)
    distdir = pjoin(root, "distdir")
    outside = pjoin(root, "outside")
    os.makedirs(distdir)
    os.makedirs(outside)
    now = time.time()
    for f in scn["files"]:
        p = pjoin(distdir, f["name"])
        with open(p, "wb") as fh:
            if f["size"] <= 8192:
                fh.write(b"x" * f["size"])
            else:
                fh.truncate(f["size"])       # sparse
        os.utime(p, (now - f["age"], now - f["age"]))
        with open(pjoin(outside, f["name"]), "wb") as fh:
            fh.write(b"o")
    for rel in scn["subdir_files"]:
        os.makedirs(pjoin(distdir, os.path.dirname(rel)), exist_ok=True)
        with open(pjoin(distdir, rel), "wb") as fh:
            fh.write(b"s")
    argv = list(scn["argv"])
    if "@EXCLUDE_FILE@" in argv:
        xf = pjoin(root, "excludes.txt")
        with open(xf, "w") as fh:
            fh.write("\n".join(p["text"] for p in scn["opts"]["excludes"]))
        argv[argv.index("@EXCLUDE_FILE@")] = xf

    repos = [Repo(r["pkgs"], r["id"]) for r in scn["repos"]]
    inst = Repo(scn["installed"], "vdb")
    stub_mismatch = []
    for r in scn["repos"]:
        for pk in r["pkgs"]:
            if pk.get("src_uri") is not None:
                # the generator's by-construction evaluation must be what pkgcore's own conditional evaluation gives
                from pkgcore.ebuild.conditionals import DepSet
                from snakeoil.sequences import iflatten_instance

                ds = DepSet.parse(pk["src_uri"], str)
                if (sorted(iflatten_instance(ds.evaluate_depset(pk["use"]))) != sorted(ref.flat(pk["distfiles"]))
                        or sorted(iflatten_instance(ds)) != sorted(ref.flat(pk["raw_distfiles"]))):
                    stub_mismatch.append("%s/%s-%s" % (pk["cat"], pk["pn"], pk["ver"]))

    class Dom:
        pkgcore_config_type = ConfigHint(typename="domain")

        def __init__(self):
            self.distdir = distdir
            self.source_repos = RepositoryGroup(repos)
            self.all_installed_repos = inst
            self.all_source_repos_raw = NoPathRepo()

    ns = arghparse.Namespace()
    ns.config = central.CompatConfigManager(central.ConfigManager(
        [{"stub-domain": basics.HardCodedConfigSection({"class": Dom, "default": True})}]))
    before = listing(distdir)
    sub_before = tree_listing(distdir)
    outside_before = tree_listing(outside)
    res = {"status": "ok"}
    real_stdout, real_stderr = sys.stdout, sys.stderr
    cwd = os.getcwd()
    os.chdir(root)
    try:
        sys.stdout, sys.stderr = _Tty(scn["opts"]["tty"]), io.StringIO()
        try:
            options = pclean.argparser.parse_args(argv, namespace=ns)
            ret = pclean._remove(options, PlainTextFormatter(io.BytesIO()), PlainTextFormatter(io.BytesIO()))
            res["ret"] = ret
        except SystemExit as e:
            res = {"status": "usage-error", "code": e.code, "stderr": sys.stderr.getvalue()[-300:]}
        except Exception as e:
            res = {"status": "exception", "exc": "%s: %s" % (type(e).__name__, str(e)[:300])}
    finally:
        sys.stdout, sys.stderr = real_stdout, real_stderr
        os.chdir(cwd)
    t_end = time.time()
    after = listing(distdir)
    obs = {"before": before, "after": after, "outside_before": outside_before, "outside_after": tree_listing(outside),
           "sub_removed": sorted(set(sub_before) - set(tree_listing(distdir)) - set(before)), "t_end": t_end, "res": res,
           "stub_mismatch": stub_mismatch}
    return obs


def evaluate(ctx, scn, root, origin="random"):
    obs = execute(scn, root)
    viol, facts = ref.judge(scn, obs["before"], obs["after"], obs["outside_before"], obs["outside_after"], obs["t_end"])
    o = scn["opts"]
    ctx.evaluated()
    ctx.count("runs")
    ctx.count("status:" + obs["res"]["status"])
    removed = facts["removed"]
    ctx.count("files_removed", len(removed))
    ctx.count("files_present", len(obs["before"]))
    if removed:
        ctx.count("runs_with_removal")
    for g, present in facts["guards"].items():
        if present:
            ctx.count("guard_active:" + g)
            if any(f in obs["after"] for f in present):
                ctx.count("protected_file_survived")
    if obs["stub_mismatch"]:
        ctx.set_inconclusive("stub package view disagrees with pkgcore's evaluation of the generated SRC_URI: %r" % obs["stub_mismatch"][:3])
    if facts["conditional_guarded"]:
        ctx.count("conditional_distfile_guarded")
        ctx.count("conditional_distfile_survived", sum(1 for f in facts["conditional_guarded"] if f in obs["after"]))
    for k in ("size", "modified"):
        if o[k]:
            ctx.count("filter_active:" + k)
    ctx.count("with_targets" if o["targets"] else "without_targets")
    if o["pretend"]:
        ctx.count("pretend_runs")
    if not o["tty"]:
        ctx.count("no_tty_runs")
    if o.get("verbosity"):
        ctx.count("verbosity:%+d" % o["verbosity"])
    if obs["sub_removed"]:
        viol.append(("removed-outside-distdir", {"rule": "subdirectory", "files": obs["sub_removed"]}))
    for why in facts["unspecified"]:
        ctx.skip_unspecified(why)
    if obs["res"]["status"] == "exception":
        ctx.count("exception:" + obs["res"]["exc"].split(":")[0])
        ctx.note("pclean raised: " + obs["res"]["exc"][:200])
    if removed and (facts["protected_present"] or o["size"] or o["modified"] or o["targets"]):
        ctx.nontrivial((scn["argv"], sorted(obs["before"]), removed))
    base = None
    if viol or ctx.want_sample():
        base = {"scenario": scn, "removed": removed, "survivors": facts["survivors"], "result": obs["res"]}
    seen = set()
    for kind, extra in viol:
        key = (kind, extra.get("rule"), extra.get("needed_by_targeted"))
        if key in seen:
            ctx.count("violations_same_run_collapsed")
            continue
        seen.add(key)
        ctx.violation(kind, dict(base, **extra))
    if not viol and removed and ctx.want_sample():
        ctx.sample({"argv": scn["argv"], "files": sorted(obs["before"]), "removed": removed,
                    "guards_present": facts["guards"], "origin": origin})
    return viol


def run(ctx):
    root = pjoin(os.environ.get("VT_SCRATCH") or "/var/tmp", "c46-run-%d" % os.getpid())
    n = ctx.budget(300, 2500)
    for i in range(n):
        scn = gen.scenario(ctx.rng)
        evaluate(ctx, scn, root)
        if i % 8 == 0 and ctx.out_of_time(15):
            ctx.note("soft deadline: stopped after %d of %d scenarios" % (i + 1, n))
            break
    shutil.rmtree(root, ignore_errors=True)


def classify(w):
    # -E only protects the distfiles of the *targeted* packages: a file needed by another package in the tree goes
    # and whose name the target's name/stem regex happens to match
    if (w.get("kind") == "keep-exists" and w.get("with_targets") and w.get("needed_by_targeted") is False
            and w.get("attributable_to_targets") is not False and not w.get("behind_disabled_use_conditional")
            and w.get("scenario", {}).get("opts", {}).get("E")):
        return "exists-guard-limited-to-targeted-packages"
    return None


def replay(ctx, w):
    scn = w.get("scenario", w)
    root = pjoin(os.environ.get("VT_SCRATCH") or "/var/tmp", "c46-replay-%d" % os.getpid())
    evaluate(ctx, scn, root, origin="replay")
    shutil.rmtree(root, ignore_errors=True)
