"""C36 Fetching returns only verified files and uses every allowed attempt (scripted fetch-command outcome sequences)."""

import os
import random
import time
from os.path import join as pjoin

from ..gen import c36_script as gen
from ..ref import c36_model as ref

ID = "C36"
LEVEL = "fault_enumeration"
TECHNIQUE = "bounded-exhaustive enumeration of scripted fetch-command outcome sequences + independent hashing oracle"
RULE = ("scenario = (target kind: size+sha256+blake2b+sha512 | size only | no checksums | sha256 without size; attempts n; "
        "number of URIs u; file present before the call: absent/partial/same-size-corrupt/oversized/correct/empty; separate "
        "resume command or not; size of the intended file: 48 random bytes | ZERO-LENGTH (the verified file is the empty file) | one "
        "byte | 48 bytes with a partial prefix exactly one byte short; outcome sequence of length min(n,u)). The real pkgcore.fetch.custom.fetcher.fetch() runs a "
        "generated bash script as FETCHCOMMAND/RESUMECOMMAND that plays the next scripted outcome {write nothing, empty file, "
        "partial prefix, oversized, same-size corrupt, correct, complete-the-partial-on-resume} x exit status {0,1} and logs "
        "(invocation number, command kind, URI, file before, file after). ALL sequences over the 14-outcome alphabet are "
        "enumerated per configuration as a prefix tree: when fetch() stopped after k invocations, the sequences sharing that "
        "k-prefix are not re-run (nobody ever sees the outcomes behind the last executed invocation) and are counted in "
        "'sequences_covered'. Quick: all configurations with n<=2 plus URI-count != attempts plus a random sample of n=3,4; "
        "thorough: n<=3 for every target kind x pre-existing file, n=4 for every target kind and every pre-existing file. "
        "One evaluation = one executed fetch() judged (safety: returned path => independent hashlib verification of the file; "
        "liveness: an executed invocation left a verifying file => a path is returned; partial prefix files are unchanged "
        "when the next (resume) command starts and at exit; fetch does not stop on a missing/partial file while attempts and "
        "URIs remain). NON-TRIVIAL = at least one invocation ran and left a file for the fetcher to judge; distinct = "
        "(configuration, consumed outcome prefix). Strata are run in priority order (A all target kinds without a pre-existing file, "
        "[thorough: n=4 fully checksummed], C URI count != attempts, D no resume command, B pre-existing files, [thorough: n=4 rest]).")
ASSUMPTIONS = [
    "the fetch program is sequential and deterministic: the outcome of invocation i depends only on the script, the command kind and the file on disk",
    "targets without any checksum: only an exit-0 invocation that leaves a non-empty file counts as having fetched (pkgcore documents and "
    "tests that the exit status decides there); non-zero exit / empty file is unspecified",
    "what fetch must do after meeting an oversized or wrong-checksum file (abort or retry) is not prescribed; only 'never returned' is judged",
    "running out of URIs ends the allowed attempts: sequence length = min(attempts, number of URIs)",
    "file contents are short ASCII strings (bash variables); hashing is done by hashlib in the harness, never by pkgcore/snakeoil",
    "userpriv=False (the sandbox runs as root without a portage user)",
    "where snakeoil's fork-based spawn_bash costs more than 0.15 s per call (loaded sandbox), pkgcore.fetch.custom.spawn_bash is "
    "bound to a vfork-based stand-in (same `bash --norc --noprofile -c <command>`, env and umask, exit status returned) for the bulk "
    "of the enumeration; the fully checksummed n=1 stratum and every pinned witness always run through the real spawn_bash "
    "(counters spawn:real / spawn:vfork-stand-in)",
    "each shard stops starting new work after its own wall budget (80 s quick, 780 s thorough); what was not run is visible as "
    "sequences_covered < sequences_in_bound, never as a verdict",
]
SHARDS = {"quick": 4, "thorough": 16}
TIMEOUT = {"quick": 300, "thorough": 2400}   # the sandbox is shared; normal wall is far below
MIN_EVALS = 150
REQUIRED_COUNTERS = ("fetch_calls", "script_invocations", "spawn:real", "zero_length_file_delivered_by_attempt",
                     "zero_length_file_preexisting", "returned_path", "raised", "resume_judged", "kind:resume", "kind:fetch")

# own wall budget per shard: stay near 1 / 15 minutes even when every bash start costs 0.3 s on a loaded host
# (normal cost of the whole enumeration: quick ~15 s, thorough ~2 min per shard); what was not run is reported
WALL_BUDGET = {"quick": 80.0, "thorough": 780.0}
FILENAME = "c36-distfile-1.0.tar.gz"


# ------------------------------------------------------------------------------------------------ harness

def _vfork_spawn_bash(mycommand, debug=False, name=None, **kw):
    """Stand-in for snakeoil's spawn_bash with the same contract for the arguments custom.fetcher passes
    (command string, env, umask): runs `bash --norc --noprofile -c <command>` and returns its exit status.
    subprocess uses vfork; snakeoil forks the whole interpreter, which costs ~1 s per call on a loaded host."""
    import subprocess

    extra = set(kw) - {"env", "umask", "cwd"}
    if extra:
        raise TypeError("stand-in spawn_bash: unsupported arguments %r" % sorted(extra))
    p = subprocess.run(["/bin/bash", "--norc", "--noprofile", "-c", mycommand], env=dict(kw.get("env") or {}),
                       umask=kw.get("umask", -1), cwd=kw.get("cwd"))
    return p.returncode if p.returncode >= 0 else 128 - p.returncode


class Harness:
    real_spawn_default = True

    def __init__(self, root, good, bad, over, cut):
        self.root = root
        self.ctl = pjoin(root, "ctl")
        self.distdir = pjoin(root, "distdir")
        os.makedirs(self.ctl, exist_ok=True)
        os.makedirs(self.distdir, exist_ok=True)
        self.good, self.bad, self.over, self.cut = good, bad, over, cut
        self.script = pjoin(self.ctl, "fetch.sh")
        with open(self.script, "w") as f:
            f.write(gen.script_text(self.ctl, good, bad, over, cut))
        self.path = pjoin(self.distdir, FILENAME)
        self._fetchers = {}
        self._targets = {}

    def fetcher(self, attempts, resume_distinct):
        from pkgcore.fetch import custom

        key = (attempts, resume_distinct)
        if key not in self._fetchers:
            cmd = '. %s fetch "${URI}" "${DISTDIR}" "${FILE}"' % self.script
            rcmd = '. %s resume "${URI}" "${DISTDIR}" "${FILE}"' % self.script
            self._fetchers[key] = custom.fetcher(self.distdir, cmd, rcmd if resume_distinct else None,
                                                 userpriv=False, attempts=attempts)
        return self._fetchers[key]

    def target(self, T, uris):
        from pkgcore.fetch import fetchable

        exp = ref.expected(T, self.good.encode())
        chk = {h: int(v, 16) for h, v in exp["sums"].items()}
        if exp["size"] is not None:
            chk["size"] = exp["size"]
        return fetchable(FILENAME, uri=["http://mirror%d.invalid/dist/%s" % (i, FILENAME) for i in range(uris)], chksums=chk), exp

    def read(self):
        try:
            with open(self.path, "rb") as f:
                return f.read()
        except FileNotFoundError:
            return None

    def calibrate(self, ctx):
        """Decide which spawn implementation the bulk of the enumeration uses (verdicts do not depend on it)."""
        import time

        from snakeoil.process.spawn import spawn_bash

        t0 = time.monotonic()
        for _ in range(2):
            spawn_bash("exit 0", env={})
        per = (time.monotonic() - t0) / 2
        self.real_spawn_default = per < 0.15
        ctx.note("snakeoil spawn_bash costs %.3f s per call here: the enumeration uses %s" % (
            per, "the real spawn_bash everywhere" if self.real_spawn_default else
            "a vfork stand-in for spawn_bash except for the n=1 fully-checksummed stratum and the pinned witnesses"))

    def run(self, cfg, seq, real_spawn=None):
        """Run one fetch(); seq = list of (act, rc).  -> (invocations, result, final content)"""
        from pkgcore.fetch import custom, errors
        from snakeoil.process.spawn import spawn_bash

        if real_spawn is None:
            real_spawn = self.real_spawn_default
        custom.spawn_bash = spawn_bash if real_spawn else _vfork_spawn_bash
        self.last_spawn = "real" if real_spawn else "vfork-stand-in"

        for name in os.listdir(self.distdir):
            os.unlink(pjoin(self.distdir, name))
        pre = gen.pre_content(cfg["pre"], self.good, self.bad, self.over, self.cut)
        if pre is not None:
            with open(self.path, "w") as f:
                f.write(pre)
        with open(pjoin(self.ctl, "plan"), "w") as f:
            f.write("".join("%s %d\n" % (a, rc) for a, rc in seq))
        with open(pjoin(self.ctl, "counter"), "w") as f:
            f.write("0\n")
        open(pjoin(self.ctl, "log"), "w").close()
        fetcher = self.fetcher(cfg["attempts"], cfg["resume_distinct"])
        target, exp = self.target(cfg["T"], cfg["uris"])
        try:
            r = fetcher.fetch(target)
            result = {"path": r} if isinstance(r, str) else {"ret": repr(r)}
        except errors.FetchError as e:
            result = {"exc": type(e).__name__, "msg": str(e)[:200]}
        except Exception as e:  # not a fetch error: recorded, never judged as a verdict about fetching
            result = {"exc": type(e).__name__, "msg": str(e)[:200], "unexpected_exc": True}
        final = self.read()
        invs = []
        with open(pjoin(self.ctl, "log"), "rb") as f:
            for line in f.read().split(b"\n"):
                if not line:
                    continue
                i, kind, uri, pre_s, act, rc, post_s = line.split(b"\t")
                invs.append({"i": int(i), "kind": kind.decode(), "uri": uri.decode(), "act": act.decode(), "rc": int(rc),
                             "pre": None if pre_s == b"A" else pre_s[2:], "post": None if post_s == b"A" else post_s[2:]})
        return invs, result, final, exp

    def others_in_distdir(self):
        return sorted(n for n in os.listdir(self.distdir) if n != FILENAME)


def _txt(b):
    return None if b is None else b.decode("ascii", "replace")


def evaluate(ctx, h, cfg, seq, origin="enumeration", real_spawn=None):
    """Run + judge one scenario; returns the number of consumed outcomes."""
    seq = [tuple(x) for x in seq]
    invs, result, final, exp = h.run(cfg, seq, real_spawn)
    ctx.count("spawn:" + h.last_spawn)
    pre = gen.pre_content(cfg["pre"], h.good, h.bad, h.over, h.cut)
    scn = dict(cfg, seq=seq, pre_content=None if pre is None else pre.encode())
    viol, facts = ref.judge(scn, exp, h.good.encode(), invs, result, final, h.path)
    k = len(invs)
    ctx.evaluated()
    ctx.count("fetch_calls")
    ctx.count("script_invocations", k)
    ctx.count("invocations=%d" % k)
    ctx.count("T:" + cfg["T"])
    ctx.count("content:%s(%d bytes)" % (cfg.get("content", "rand"), len(h.good)))
    if not h.good and facts.get("ok_after"):
        ctx.count("zero_length_file_delivered_by_attempt")
    if not h.good and cfg["pre"] in ("correct", "empty", "partial"):
        ctx.count("zero_length_file_preexisting")
    ctx.count("pre:" + cfg["pre"])
    ctx.count("returned_path" if "path" in result else "raised" if "exc" in result else "returned_other")
    if "exc" in result:
        ctx.count("exc:" + result["exc"])
    for inv in invs:
        ctx.count("kind:" + inv["kind"])
        ctx.count("outcome:" + inv["act"])
    if facts.get("resume_judged"):
        ctx.count("resume_judged", facts["resume_judged"])
    if facts.get("ok_after"):
        ctx.count("runs_with_verifying_file_left")
    for s in set(facts["states"][1:]):
        ctx.count("state_seen:" + s)
    for why in facts["unspecified"]:
        ctx.skip_unspecified(why)
    if h.others_in_distdir():
        ctx.count("stray_files_in_distdir")
    if k and any(s != "missing" for s in facts["states"][1:]):
        ctx.nontrivial((cfg["T"], cfg["attempts"], cfg["uris"], cfg["pre"], cfg["resume_distinct"], cfg.get("content", "rand"),
                        seq[:k]))
    wit = None
    if viol or ctx.want_sample():
        wit = {"T": cfg["T"], "attempts": cfg["attempts"], "uris": cfg["uris"], "pre": cfg["pre"],
               "resume_distinct": cfg["resume_distinct"], "seq": [list(x) for x in seq], "content": cfg.get("content", "rand"),
               "good": h.good, "bad": h.bad, "over": h.over, "cut": h.cut,
               "expected": exp, "result": result, "final": _txt(final), "final_state": ref.classify_state(final, exp),
               "states": facts["states"],
               "invocations": [{"i": i["i"], "kind": i["kind"], "uri": i["uri"], "act": i["act"], "rc": i["rc"],
                                "pre": _txt(i["pre"]), "post": _txt(i["post"])} for i in invs]}
    for kind, extra in viol:
        w = dict(wit, **extra)
        if kind == "gave-up-with-attempts-left":
            # the member of the equivalence class whose next scripted outcome is an unconditional correct download
            w["seq"] = [list(x) for x in seq[:k]] + [["correct", 0]] * (min(cfg["attempts"], cfg["uris"]) - k)
        ctx.violation(kind, w)
    if not viol and ctx.want_sample() and k >= 2:
        ctx.sample({"config": {x: cfg[x] for x in ("T", "attempts", "uris", "pre", "resume_distinct")},
                    "seq": wit["seq"], "invocations": [(i["kind"], i["act"], i["rc"], ref.classify_state(
                        None if i["post"] is None else i["post"].encode(), exp)) for i in wit["invocations"]],
                    "result": result.get("path") and "path" or result.get("exc"), "origin": origin})
    return k


def _harnesses(ctx_rng, tag):
    """One harness (scratch distdir + generated script) per content variant."""
    out = {}
    for name in gen.CONTENTS:
        root = pjoin(os.environ.get("VT_SCRATCH") or "/var/tmp", "c36-%s-%s-%d" % (tag, name, os.getpid()))
        out[name] = Harness(root, *gen.contents_variant(ctx_rng, name))
    return out


def run(ctx):
    hs = _harnesses(ctx.rng, "run")
    hs["rand"].calibrate(ctx)
    for x in hs.values():
        x.real_spawn_default = hs["rand"].real_spawn_default
    cfgs = gen.configs(ctx.tier)
    units = gen.units(cfgs)
    ctx.count("configurations", len(cfgs) if ctx.shard == 0 else 0)
    if ctx.shard == 0:
        ctx.count("sequences_in_bound", gen.total_sequences(cfgs))
    stopped = False
    wall_budget = WALL_BUDGET[ctx.tier]
    t_start = time.monotonic()

    def late(reserve):
        return ctx.out_of_time(reserve) or time.monotonic() - t_start > wall_budget

    for ui, (ci, first) in enumerate(units):
        if ui % ctx.nshards != ctx.shard:
            continue
        cfg = cfgs[ci]
        h = hs[cfg.get("content", "rand")]
        L = gen.seq_len(cfg)
        if late(20):
            stopped = True
            ctx.count("units_not_started")
            continue
        complete = True
        real = True if (cfg["attempts"] == 1 and cfg["T"] == "full" and cfg["stratum"].startswith("A:")) else None
        it = gen.walk(first, L, lambda s, h=h, cfg=cfg, real=real: evaluate(ctx, h, cfg, [gen.ALPHABET[x] for x in s],
                                                                             real_spawn=real))
        for _seq, _k, covered in it:
            ctx.count("sequences_covered", covered)
            ctx.count("covered:" + cfg["stratum"], covered)
            if late(15):
                complete = False
                stopped = True
                break
        ctx.count("units_complete" if complete else "units_cut_short")
    if stopped:
        ctx.note("soft deadline / per-shard wall budget reached: part of the enumeration was not run (compare sequences_covered with "
                 "sequences_in_bound; units_not_started / units_cut_short / shards_enumeration_complete)")
    elif ctx.quick:
        # sample of the longer sequences (the thorough tier enumerates them)
        rng = ctx.rng
        for n in (3, 4):
            for seq in gen.sample_sequences(rng, n, ctx.budget(25, 0)):
                cfg = {"T": rng.choice(gen.TARGETS), "attempts": n, "uris": n, "pre": rng.choice(gen.PRES),
                       "resume_distinct": rng.random() < 0.8, "stratum": "S:sample", "content": rng.choice(gen.CONTENTS)}
                evaluate(ctx, hs[cfg["content"]], cfg, [gen.ALPHABET[x] for x in seq], origin="sample")
                ctx.count("sampled_long_sequences")
                if ctx.out_of_time(10):
                    break
    if not stopped:
        ctx.count("shards_enumeration_complete")


def classify(w):
    # a target that lists hashes but no size: _verify() has no size to compare and calls every zero-length file
    # "empty" (non-resumable), so the zero-length file that matches every listed hash is deleted and re-fetched
    exp = w.get("expected") or {}
    if (w.get("kind") == "verified-file-not-returned" and exp.get("size") is None and exp.get("sums")
            and w.get("good") == "" and "exc" in w.get("result", {}) and not w["result"].get("unexpected_exc")):
        return "empty-file-rejected-when-target-has-hashes-but-no-size"
    # the verifying file was produced by the last allowed attempt, which fetch() never looks at
    if (w.get("kind") == "verified-file-not-returned" and "exc" in w.get("result", {})
            and not w["result"].get("unexpected_exc")
            and w.get("first_ok") == w.get("attempts") == len(w.get("invocations", ()))
            and w.get("final_state") == "ok"):
        return "no-verify-after-last-attempt"
    return None


def replay(ctx, w):
    rng = random.Random(36)
    if all(x in w for x in ("good", "bad", "over", "cut")):
        c = (w["good"], w["bad"], w["over"], int(w["cut"]))
    else:
        c = gen.contents(rng)
    root = pjoin(os.environ.get("VT_SCRATCH") or "/var/tmp", "c36-replay-%d" % os.getpid())
    h = Harness(root, *c)
    cfg = {"T": w["T"], "attempts": int(w["attempts"]), "uris": int(w["uris"]), "pre": w.get("pre", "absent"),
           "resume_distinct": bool(w.get("resume_distinct", True)), "stratum": "replay", "content": w.get("content", "rand")}
    evaluate(ctx, h, cfg, [(a, int(rc)) for a, rc in w["seq"]], origin="replay", real_spawn=True)
