"""C01 Version comparison = PMS algorithm, total preorder; version-operator restrictions agree."""

import itertools

from ..gen import versions as gv
from ..ref import pms_version as ref

ID = "C01"
LEVEL = "exploration"
RULE = ("ordered pairs of valid versions: all pairs of a stratified boundary pool (leading zeros, letters, stacked suffixes, "
        "revisions) + random versions paired with small edits of themselves; oracle = sign(ver_cmp)/rich comparisons/"
        "VersionMatch vs a PMS reference written from the spec, plus reflexivity/antisymmetry/transitivity of the "
        "implementation's own answers on triples. A case is non-trivial when the two spellings differ and the PMS "
        "decision is made by something other than an integer first component; distinct = distinct (fullver1, fullver2).")
ASSUMPTIONS = [
    "only versions valid under the PMS grammar are judged",
    "revisions are passed the way CPV/atom pass them (Revision objects), not raw strings",
    "reference comparator vt/ref/pms_version.py transcribes PMS Algorithms 3.1-3.7",
]
SHARDS = {"quick": 4, "thorough": 16}
TIMEOUT = {"quick": 240, "thorough": 1800}
MIN_EVALS = 20000
REQUIRED_COUNTERS = ("contract_ver_cmp_calls", "versionmatch_evals", "triples")

OPS = ["<", "<=", "=", ">=", ">"]


def _sign(x):
    return (x > 0) - (x < 0)


class Mon:
    def __init__(self, ctx):
        from pkgcore.ebuild import atom as atom_mod
        from pkgcore.ebuild import cpv as cpv_mod
        from pkgcore.ebuild import restricts

        self.ctx = ctx
        self.cpv = cpv_mod
        self.atom = atom_mod.atom
        self.restricts = restricts
        self.orig = cpv_mod.ver_cmp
        self._cache = {}

        # contract on the real function: every call made by anybody in this process
        def monitored_ver_cmp(ver1, rev1, ver2, rev2):
            res = self.orig(ver1, rev1, ver2, rev2)
            ctx.count("contract_ver_cmp_calls")
            try:
                r1 = "" if rev1 is None else getattr(rev1, "data", rev1)
                r2 = "" if rev2 is None else getattr(rev2, "data", rev2)
                if isinstance(ver1, str) and isinstance(ver2, str) and ref.valid_version(ver1) and ref.valid_version(ver2) \
                        and ref.valid_revision(r1) and ref.valid_revision(r2):
                    exp = ref.ver_cmp(ver1, r1, ver2, r2)
                    ctx.evaluated()
                    if _sign(res) != exp:
                        ctx.violation("ver_cmp-vs-pms", {"v1": ver1, "r1": r1, "v2": ver2, "r2": r2,
                                                         "impl": res, "pms": exp,
                                                         "rule": ref.deciding_rule(ver1, r1, ver2, r2)})
            except Exception as e:  # monitor bug must not change behaviour
                ctx.note("monitor error %r" % (e,))
            return res

        cpv_mod.ver_cmp = monitored_ver_cmp

    def obj(self, v, r):
        k = (v, r)
        o = self._cache.get(k)
        if o is None:
            o = self.cpv.VersionedCPV("cat/pkg-" + gv.fullver(v, r))
            if len(self._cache) < 50000:
                self._cache[k] = o
        return o

    def check_pair(self, a, b, do_match=True):
        ctx = self.ctx
        (v1, r1), (v2, r2) = a, b
        x, y = self.obj(v1, r1), self.obj(v2, r2)
        exp = ref.ver_cmp(v1, r1, v2, r2)
        rule = ref.deciding_rule(v1, r1, v2, r2)
        ctx.count("rule:" + rule)
        if rule not in ("identical", "first"):
            ctx.nontrivial(gv.fullver(v1, r1) + " " + gv.fullver(v2, r2))
        wit = {"v1": v1, "r1": r1, "v2": v2, "r2": r2, "pms": exp, "rule": rule}
        # direct call (through the contract)
        self.cpv.ver_cmp(x.version, x.revision, y.version, y.revision)
        # rich comparisons
        got = {"lt": x < y, "le": x <= y, "eq": x == y, "ne": x != y, "ge": x >= y, "gt": x > y}
        want = {"lt": exp < 0, "le": exp <= 0, "eq": exp == 0, "ne": exp != 0, "ge": exp >= 0, "gt": exp > 0}
        ctx.evaluated()
        if got != want:
            bad = sorted(k for k in got if got[k] != want[k])
            ctx.violation("rich-compare-vs-pms", dict(wit, got=got, want=want, bad_ops=bad))
        if do_match:
            # version-operator restrictions: pkg x against "op y"
            for op in OPS:
                a_ = self.atom(op + "cat/pkg-" + gv.fullver(v2, r2))
                m = self.restricts.VersionMatch(a_.op, a_.version, a_.revision).match(x)
                ctx.count("versionmatch_evals")
                ctx.evaluated()
                if m != ref.OPS[op](exp):
                    ctx.violation("versionmatch-vs-pms", dict(wit, op=op, impl=m, want=ref.OPS[op](exp)))
                m2 = a_.match(_Pkg(x))
                if m2 != ref.OPS[op](exp):
                    ctx.violation("atom-version-match-vs-pms", dict(wit, op=op, impl=m2, want=ref.OPS[op](exp)))
            # ~ ignores revisions on both sides
            t = self.atom("~cat/pkg-" + v2)
            m = self.restricts.VersionMatch("~", t.version, t.revision).match(x)
            e = ref.ver_cmp(v1, "", v2, "") == 0
            ctx.evaluated()
            ctx.count("versionmatch_evals")
            if m != e:
                ctx.violation("tilde-match-vs-pms", dict(wit, op="~", impl=m, want=e))
        return _sign(self.orig(x.version, x.revision, y.version, y.revision))


class _Pkg:
    """Minimal package view for atom.match (only version-related attributes matter here)."""

    def __init__(self, c):
        self.category, self.package, self.key = c.category, c.package, c.key
        self.version, self.revision, self.fullver, self.cpvstr = c.version, c.revision, c.fullver, c.cpvstr
        self.slot = "0"
        self.subslot = "0"
        self.use = ()
        self.iuse = ()


def check_triples(ctx, mon, pool, n):
    """Order laws on the implementation's own answers."""
    rng = ctx.rng
    sgn = {}

    def s(a, b):
        k = (a, b)
        if k not in sgn:
            x, y = mon.obj(*a), mon.obj(*b)
            sgn[k] = _sign(mon.orig(x.version, x.revision, y.version, y.revision))
        return sgn[k]

    for a in pool:
        ctx.evaluated()
        if s(a, a) != 0:
            ctx.violation("not-reflexive", {"a": a})
    for _ in range(n):
        a, b, c = rng.choice(pool), rng.choice(pool), rng.choice(pool)
        ctx.count("triples")
        ctx.evaluated()
        ab, ba, bc, ac = s(a, b), s(b, a), s(b, c), s(a, c)
        if ab != -ba:
            ctx.violation("not-antisymmetric", {"a": a, "b": b, "ab": ab, "ba": ba})
        if ab <= 0 and bc <= 0 and not ac <= 0:
            ctx.violation("not-transitive", {"a": a, "b": b, "c": c, "ab": ab, "bc": bc, "ac": ac})
        if ab == 0 and bc == 0 and ac != 0:
            ctx.violation("equality-not-transitive", {"a": a, "b": b, "c": c})
        if ctx.out_of_time(5):
            break


def check_sort(ctx, mon, pool):
    import functools

    objs = [mon.obj(*p) for p in pool]
    ctx.rng.shuffle(objs)
    try:
        srt = sorted(objs)
    except Exception as e:
        ctx.violation("sort-raises", {"exc": repr(e)})
        return
    ctx.count("sorted_lists")
    for x, y in zip(srt, srt[1:]):
        ctx.evaluated()
        if ref.cmp_fullver(x.fullver, y.fullver) > 0:
            v1, r1 = ref.split_fullver(x.fullver)
            v2, r2 = ref.split_fullver(y.fullver)
            ctx.violation("sorted-not-nondecreasing", {"v1": v1, "r1": r1, "v2": v2, "r2": r2,
                                                       "pms": ref.ver_cmp(v1, r1, v2, r2),
                                                       "rule": ref.deciding_rule(v1, r1, v2, r2)})


def run(ctx):
    mon = Mon(ctx)
    rng = ctx.rng
    pool = gv.stratified_pool(__import__("random").Random(12345), ctx.budget(240, 400))
    # (a) all ordered pairs of the pool, split over the shards
    pairs = itertools.product(range(len(pool)), repeat=2)
    for idx, (i, j) in enumerate(pairs):
        if idx % ctx.nshards != ctx.shard:
            continue
        mon.check_pair(pool[i], pool[j], do_match=((i * 7 + j) % 3 == 0 or not ctx.quick))
        ctx.count("pool_pairs")
        if idx % 512 == 0 and ctx.out_of_time(60):
            ctx.note("pool pair enumeration stopped early by the soft deadline")
            break
    else:
        ctx.count("exhaustive_pool_pairs_complete")
    if ctx.want_sample():
        ctx.sample({"pair": [gv.fullver(*pool[3]), gv.fullver(*pool[77])], "pms_sign": ref.ver_cmp(*pool[3], *pool[77])})
    # (b) random versions vs small edits of themselves
    n = ctx.budget(15000, 150000)
    for k in range(n):
        a = gv.random_version(rng)
        b = a
        for _ in range(rng.choice([1, 1, 2, 3])):
            b = gv.mutate_version(rng, *b)
        if rng.random() < 0.15:
            b = gv.random_version(rng)
        mon.check_pair(a, b, do_match=(k % 4 == 0))
        mon.check_pair(b, a, do_match=False)
        ctx.count("random_pairs", 2)
        if k < 3:
            ctx.sample({"pair": [gv.fullver(*a), gv.fullver(*b)], "pms_sign": ref.ver_cmp(*a, *b)})
        if k % 256 == 0 and ctx.out_of_time(40):
            break
    # (c) order laws on triples + sorting
    sub = pool[:]
    rng.shuffle(sub)
    check_triples(ctx, mon, sub[: ctx.budget(120, 200)], ctx.budget(100000, 1500000))
    for _ in range(ctx.budget(10, 60)):
        rng.shuffle(sub)
        check_sort(ctx, mon, sub[: rng.randrange(5, 80)])


def classify(w):
    return None


def replay(ctx, w):
    mon = Mon(ctx)
    if "v1" in w:
        mon.check_pair((w["v1"], w["r1"]), (w["v2"], w["r2"]))
    elif "a" in w:
        pool = [tuple(w[k]) for k in ("a", "b", "c") if k in w]
        check_triples(ctx, mon, pool, 200)
